(* driver.ml — line protocol around the extracted model (Model.exec).
   Input : one command per line: <opcode> <arg>*  with the generic syntax
           R (refused) | C (crash) | - (none) | <decimal> | x<hex> (bytes) | [ <arg>* ]
   Output: one line per command: the answer in the same syntax; "END <n>" at the end. *)
open Model

let rec pos_of_int n = if n = 1 then XH else if n land 1 = 1 then XI (pos_of_int (n lsr 1)) else XO (pos_of_int (n lsr 1))
let n_of_int n = if n = 0 then N0 else Npos (pos_of_int n)
let rec int_of_pos = function XH -> 1 | XO p -> 2 * int_of_pos p | XI p -> 2 * int_of_pos p + 1
let int_of_n = function N0 -> 0 | Npos p -> int_of_pos p

(* big numbers (64-bit registers) are printed in decimal through strings *)
let rec dec_of_pos p =
  (* digits little-endian in base 10^9 *)
  let base = 1000000000 in
  let double_add l c =
    let rec go l c = match l with
      | [] -> if c = 0 then [] else [c]
      | x :: r -> let v = 2 * x + c in (v mod base) :: go r (v / base) in
    go l c in
  match p with
  | XH -> [1]
  | XO q -> double_add (dec_of_pos q) 0
  | XI q -> double_add (dec_of_pos q) 1
let string_of_n = function
  | N0 -> "0"
  | Npos p ->
    (match List.rev (dec_of_pos p) with
     | [] -> "0"
     | hd :: tl -> String.concat "" (string_of_int hd :: List.map (Printf.sprintf "%09d") tl))
let n_of_string s =
  (* decimal string -> N, via repeated multiply-add on an int when small, else bignum on bits *)
  if String.length s <= 17 then n_of_int (int_of_string s)
  else begin
    (* long division by 2 on the decimal string *)
    let digits = Array.init (String.length s) (fun i -> Char.code s.[i] - 48) in
    let is_zero () = Array.for_all (fun d -> d = 0) digits in
    let bits = ref [] in
    while not (is_zero ()) do
      let carry = ref 0 in
      Array.iteri (fun i d -> let v = !carry * 10 + d in digits.(i) <- v / 2; carry := v mod 2) digits;
      bits := !carry :: !bits
    done;
    (* bits: most significant first *)
    match !bits with
    | [] -> N0
    | _ :: rest -> Npos (List.fold_left (fun p b -> if b = 1 then XI p else XO p) XH rest)
  end

let hex_digit c = match c with
  | '0'..'9' -> Char.code c - 48 | 'a'..'f' -> Char.code c - 87 | _ -> failwith "hex"
let bytes_of_hex s =
  let n = String.length s / 2 in
  List.init n (fun i -> n_of_int (hex_digit s.[2*i] * 16 + hex_digit s.[2*i+1]))
let hex_of_bytes buf l = List.iter (fun b -> Buffer.add_string buf (Printf.sprintf "%02x" (int_of_n b))) l

let rec parse toks = match toks with
  | [] -> failwith "eof"
  | "R" :: r -> (ARefused, r)
  | "C" :: r -> (ACrash, r)
  | "-" :: r -> (ANone, r)
  | "[" :: r ->
    let rec items acc r = match r with
      | "]" :: r' -> (AList (List.rev acc), r')
      | _ -> let (a, r') = parse r in items (a :: acc) r' in
    items [] r
  | t :: r when String.length t > 0 && t.[0] = 'x' ->
    (ABytes (bytes_of_hex (String.sub t 1 (String.length t - 1))), r)
  | t :: r -> (ANum (n_of_string t), r)

let rec print buf = function
  | ARefused -> Buffer.add_string buf "R"
  | ACrash -> Buffer.add_string buf "C"
  | ANone -> Buffer.add_string buf "-"
  | ANum n -> Buffer.add_string buf (string_of_n n)
  | ABytes b -> Buffer.add_char buf 'x'; hex_of_bytes buf b
  | AList l ->
    Buffer.add_string buf "[";
    List.iter (fun a -> Buffer.add_char buf ' '; print buf a) l;
    Buffer.add_string buf " ]"

let () =
  let st = ref d0 in
  let count = ref 0 in
  (try
     while true do
       let line = input_line stdin in
       let toks = List.filter (fun s -> s <> "") (String.split_on_char ' ' line) in
       match toks with
       | [] -> ()
       | opc :: rest ->
         let rec args r = match r with [] -> [] | _ -> let (a, r') = parse r in a :: args r' in
         let (st', a) = exec_traced (n_of_int (int_of_string opc)) (args rest) !st in
         st := st';
         let buf = Buffer.create 256 in
         print buf a;
         print_string (Buffer.contents buf); print_newline ();
         count := Stdlib.( + ) !count 1
     done
   with End_of_file -> ());
  Printf.printf "END %d\n" !count
