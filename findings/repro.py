#!/venv/bin/python
"""Standalone reproducers of the defects found in medialab/hyphe-traph (F1..F12).
usage: repro.py F1 [repo_path]   exit 0 = property holds on that input, 1 = defect shown."""
import os, shutil, sys, tempfile, warnings
repo = sys.argv[2] if len(sys.argv) > 2 else "/repo"
sys.path.insert(0, repo)
warnings.simplefilter("ignore")
from traph import Traph
from traph.helpers import lru_variations, detailed_chunks_iter
sys.path.insert(0, os.path.join(os.path.dirname(os.path.abspath(__file__)), "..", "harness"))
from impl import rule_regex

def mk(folder=None):
    return Traph(folder=folder, overwrite=True, default_webentity_creation_rule=rule_regex(0), webentity_creation_rules={})

def F1():
    d = tempfile.mkdtemp()
    try:
        t = mk(d)
        before = os.path.getsize(os.path.join(d, "lru_trie.dat")) if os.path.exists(os.path.join(d, "lru_trie.dat")) else 0
        t.add_page(b"s:http|h:com|h:a|p:" + b"x" * 72 + b"|")   # last stem: 75 bytes -> 2 blocks
        t.lru_trie_file.flush()
        size = os.path.getsize(os.path.join(d, "lru_trie.dat"))
        # header + 3 host/scheme stems + www/https variations (7 more one-block nodes) ... count directly:
        blocks = size // 128
        m = t.lru_trie.metrics()
        t.close()
        print("tail blocks for a 75-byte stem:", m["nb_tail_nodes"], "(expected 1)")
        return m["nb_tail_nodes"] == 1
    finally:
        shutil.rmtree(d, ignore_errors=True)

def F2():
    t = mk(None)
    try:
        t.add_page(b"s:http|h:com|h:a|p:" + b"x" * 80 + b"|")
        t.add_page(b"s:http|h:com|h:a|p:" + b"x" * 80 + b"|p:a|")
        ok = [l for _, l in t.pages_iter()]
        print("memory index pages:", len(ok))
        return len(ok) == 2
    except TypeError as e:
        print("memory index, stem > 74 bytes:", type(e).__name__, e)
        return False

def F3():
    t = mk(None)
    r = t.create_webentity([b"s:http|h:com|h:a|", b"s:http|h:com|h:b|"])
    w = list(r.created_webentities.keys())[0]
    t.add_links([(b"s:http|h:com|h:a|p:1|", b"s:http|h:com|h:a|p:2|")])
    t.add_links([(b"s:http|h:com|h:b|p:5|", b"s:http|h:com|h:b|p:6|")])
    t.add_page(b"s:http|h:com|h:b|p:0|")                       # link-less page, first (in order) in the 2nd prefix
    t.add_links([(b"s:http|h:com|h:b|p:7|", b"s:http|h:com|h:b|p:8|")])
    ps = [b"s:http|h:com|h:a|", b"s:http|h:com|h:b|"]
    full = sorted(map(tuple, t.get_webentity_pagelinks(w, ps)))
    got, tok = [], None
    try:
        for _ in range(20):
            r = t.paginate_webentity_pagelinks(w, ps, source_page_count=1, pagination_token=tok)
            got += map(tuple, r["pagelinks"])
            if r["done"]:
                break
            tok = r["token"]
    except Exception as e:
        print("resuming token %r:" % tok, type(e).__name__, e)
        return False
    print("paginated == unpaginated:", sorted(got) == full)
    return sorted(got) == full

def F4():
    try:
        print(lru_variations(b"s:http|"), lru_variations(b"s:https|t:80|"))
        return True
    except IndexError as e:
        print("lru_variations(b's:http|'):", type(e).__name__, e)
        return False

def F5():
    l = b"s:https|h:com|h:a|p:s:http|"
    vs = lru_variations(l)
    ok = all(v.endswith(b"p:s:http|") for v in vs) and all(set(lru_variations(v)) == set(vs) for v in vs)
    print("variations:", vs)
    return ok

def F6():
    t = mk(None)
    t.add_pages([b"s:http|h:com|h:a|p:x|"], crawled=False)
    c = t.count_crawled_pages()
    print("crawled pages after add_pages(crawled=False):", c)
    return c == 0

def F8():
    d = tempfile.mkdtemp()
    try:
        t = mk(d)
        t.add_page(b"s:http|h:com|h:a|")
        t.close()
        # a crash in the middle of appending a 5-block node: only the main block (has-tail) reached the file
        from traph.lru_trie.node import LRUTrieNode
        import struct
        t = Traph(folder=d, default_webentity_creation_rule=rule_regex(0), webentity_creation_rules={})
        n = LRUTrieNode(t.lru_trie_storage, stem=b"p:" + b"y" * 300 + b"|")
        t.lru_trie_storage.write(n.pack())         # main block only
        t.close()
        t = Traph(folder=d, default_webentity_creation_rule=rule_regex(0), webentity_creation_rules={})
        try:
            print("count_pages after torn append:", t.count_pages())
            return True
        except TypeError as e:
            print("count_pages after torn append:", type(e).__name__, e)
            return False
        finally:
            t.close()
    finally:
        shutil.rmtree(d, ignore_errors=True)

def F9():
    t = mk(None)
    try:
        m = t.metrics()
        print("metrics of an empty index:", m["lru_trie"]["nb_pages"], m["link_store"]["nb_links"])
        return True
    except ZeroDivisionError as e:
        print("metrics() on an empty index:", type(e).__name__, e)
        return False

def _interleave(t, gens, sched, plain):
    """advance the generators as the schedule says (every loop iteration a yield point), then drain them in index order;
    returns the results and the uninterrupted answer plain() at every moment while generator 0 runs"""
    from traph.traph_iterator_state import TraphIteratorState as TIS
    orig = TIS.should_yield

    def always(self, f=1000):
        self.n_iterations += 1
        return True
    done, res, moments = [False] * len(gens), [None] * len(gens), []

    def snap():
        TIS.should_yield = orig
        moments.append(plain())
        TIS.should_yield = always

    def adv(i):
        if done[i]:
            return
        try:
            st = next(gens[i])
            if st.done:
                done[i], res[i] = True, st.result
        except StopIteration:
            done[i] = True
        if not done[0]:
            snap()
    TIS.should_yield = always
    try:
        snap()
        for i in sched:
            adv(i)
        for i in range(len(gens)):
            while not done[i]:
                adv(i)
    finally:
        TIS.should_yield = orig
    return res, moments

def F10():
    # witness of the Coq theorem SchedRefute.C16_network_no_moment_refuted
    t = mk(None)
    S, T = b"s:https|h:com|h:a|p:m|p:x|", b"s:http|h:com|h:a|p:m|p:y|"
    t.add_page(S); t.add_page(T); t.add_links([(S, T)])
    edges = lambda g: set((a, b) for a, c in g.items() for b in c if not isinstance(b, str))
    gens = [t.get_webentities_links_iter(out=True, include_auto=False),
            t.add_webentity_creation_rule_iter(b"s:http|h:com|h:a|", rule_regex(2))]
    res, moments = _interleave(t, gens, [0, 1, 1, 1, 1, 1, 0, 0, 0], lambda: edges(t.get_webentities_links(out=True, include_auto=False)))
    got = edges(res[0])
    print("interleaved network query:", sorted(got), " uninterrupted at the %d moments:" % len(moments), [sorted(m) for m in moments])
    return got <= set().union(*moments)

def F11():
    # witness of the Coq theorem SchedRefute.C16_pagelinks_outbound_no_moment_refuted
    t = Traph(folder=None, overwrite=True, default_webentity_creation_rule=rule_regex(0),
              webentity_creation_rules={b"s:http|h:com|h:a|": rule_regex(2)})
    A, B, C_ = b"s:https|h:com|h:a|p:m|p:n|", b"s:https|h:com|h:a|p:m|", b"s:https|h:com|h:a|p:k|"
    t.add_pages([A, B, C_]); t.add_links([(A, B), (A, C_)])
    ps = [b"s:https|h:com|h:a|"]
    q = lambda: set(map(tuple, t.get_webentity_pagelinks(1, ps, include_inbound=False, include_internal=False, include_outbound=True)))
    gens = [t.get_webentity_pagelinks_iter(1, ps, include_inbound=False, include_internal=False, include_outbound=True),
            t.index_batch_crawl_iter({b"s:http|h:com|h:a|p:m|p:q|": []}, 1)]
    res, moments = _interleave(t, gens, [0, 1, 1, 1, 0, 0, 0], q)
    got = set(map(tuple, res[0]))
    print("interleaved outbound page-link query:", sorted(got), " uninterrupted at the %d moments:" % len(moments), [sorted(m) for m in moments])
    return got <= set().union(*moments)

def F12():
    # an in-memory index created with the default flags ignores the creation rules given to the constructor
    # (Traph.__init__: create = overwrite, although a memory index is always new), a fresh on-disk one applies them
    rules = {b"s:http|h:com|h:twitter|": rule_regex(2)}
    page = b"s:http|h:com|h:twitter|p:alice|"
    d = tempfile.mkdtemp()
    try:
        disk = Traph(folder=d, default_webentity_creation_rule=rule_regex(0), webentity_creation_rules=rules)
        mem = Traph(folder=None, default_webentity_creation_rule=rule_regex(0), webentity_creation_rules=rules)
        a = sorted(sorted(v) for v in disk.add_page(page).created_webentities.values())
        b = sorted(sorted(v) for v in mem.add_page(page).created_webentities.values())
        disk.close()
        print("created on disk :", a)
        print("created in memory:", b)
        return a == b
    finally:
        shutil.rmtree(d, ignore_errors=True)

if __name__ == "__main__":
    ok = globals()[sys.argv[1]]()
    print(sys.argv[1], "OK" if ok else "DEFECT")
    sys.exit(0 if ok else 1)
