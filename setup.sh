#!/bin/sh
# Build the Coq development and the extracted model driver from files on disk only.
cd "$(dirname "$0")" && exec ./check --setup
