#!/venv/bin/python
"""Translate the page-link request of the public API (traph/traph.py: Traph.get_page_links; traph/lru_trie/node.py:
has_outlinks, outlinks, has_inlinks, inlinks) from the Python AST into Gallina: coq/theories/GenTraphL.v, regenerated on
every run.  Built on the translated LRUTrie.lru_node / windup_lru (GenTrie.v) and LinkStore.weighted_link_nodes_iter
(GenLinks.v).  Two storages: `sg` (lru_trie.dat, threaded) and `sgl` (link_store.dat, only read).
  * `for target, weight in self.link_store.weighted_link_nodes_iter(block):` runs the translated generator on the link
    storage, then folds its (target, weight) items through the body in the option monad (the body reads the trie:
    `target_node.read(target)`, `self.lru_trie.windup_lru(target_node.block)`; an absent block number raises);
  * `if not node or not node.is_page(): return []`: an unknown LRU or a node that is not a page answers the empty list;
  * `[a, b, c]` appended to `pagelinks` is the triple (a, b, c); bytes `!=`.
GenTraphLFacts.v proves the translated request equal to the model's Traph.page_links on the files of every reachable state
(Props/C03.v: C03_source_page_links)."""
import ast
import os
import sys

sys.path.insert(0, os.path.dirname(os.path.abspath(__file__)))
import gen_links as GL       # noqa: E402
import gen_trie as GT        # noqa: E402
import gen_triew as GW       # noqa: E402
import gen_tried as GD       # noqa: E402
import gen_traph as GA       # noqa: E402

REPO = os.environ.get("VERIF_REPO", "/repo")
Unsupported = GL.Unsupported

GL.COQT.update({"links3": "list (bytes * bytes * N)"})


class FnL(GA.FnT):
    def expr(self, e, env):
        if isinstance(e, ast.Compare) and len(e.ops) == 1 and isinstance(e.ops[0], ast.NotEq):
            a, ta = self.expr(e.left, env)
            b, tb = self.expr(e.comparators[0], env)
            if ta == "bytes" and tb == "bytes":
                return "(negb (beq %s %s))" % (a, b), "bool"
        if isinstance(e, ast.BoolOp):
            parts = [self.expr(v, env) for v in e.values]
            if all(t == "bool" for _, t in parts):
                return "(" + (" && " if isinstance(e.op, ast.And) else " || ").join(a for a, _ in parts) + ")", "bool"
        if isinstance(e, ast.List) and len(e.elts) == 3:
            parts = [self.expr(x, env) for x in e.elts]
            if [t for _, t in parts] == ["bytes", "bytes", "N"]:
                return "(%s, %s, %s)" % tuple(a for a, _ in parts), "link3"
        if isinstance(e, ast.List) and not e.elts and self.rtype == "links3":
            return "(@nil (bytes * bytes * N))", "links3"
        return GA.FnT.expr(self, e, env)

    def cond(self, t, env, kt, kf):
        # not x or <test on x>   (x an optional node)
        if isinstance(t, ast.BoolOp) and isinstance(t.op, ast.Or) and len(t.values) == 2 and isinstance(t.values[0], ast.UnaryOp) \
                and isinstance(t.values[0].op, ast.Not) and isinstance(t.values[0].operand, ast.Name) \
                and env.get(t.values[0].operand.id) == "otnode":
            n = t.values[0].operand.id
            env1 = dict(env, **{n: "tnode"})
            a, ta = self.expr(t.values[1], env1)
            if ta != "bool":
                raise Unsupported("truth of %s" % ta)
            return "(match v_%s with\n | None => %s\n | Some v_%s => (if %s\n then %s\n else %s) end)" % (n, kt(dict(env)), n, a, kt(env1), kf(env1))
        return GA.FnT.cond(self, t, env, kt, kf)

    def block(self, stmts, env, k):
        if stmts:
            s, rest = stmts[0], stmts[1:]
            nxt = lambda env2=None: self.block(rest, env if env2 is None else env2, k)          # noqa: E731
            if isinstance(s, ast.Assign) and len(s.targets) == 1 and isinstance(s.targets[0], ast.Name):
                n, v = s.targets[0].id, s.value
                if ast.unparse(v) == "self.lru_trie.node()":
                    return "(let '(v__n, sg) := py_node_init sg None None None in\n let v_%s := v__n in\n %s)" % (n, nxt(dict(env, **{n: "tnode"})))
                if isinstance(v, ast.List) and not v.elts and self.decl.get(n) == "links3":
                    return "(let v_%s := (@nil (bytes * bytes * N)) in\n %s)" % (n, nxt(dict(env, **{n: "links3"})))
        return GA.FnT.block(self, stmts, env, k)

    def call_stmt(self, c, target, env, nxt):
        f = c.func
        if isinstance(f, ast.Attribute) and f.attr == "append" and isinstance(f.value, ast.Name) and env.get(f.value.id) == "links3" \
                and len(c.args) == 1 and not c.keywords and target is None:
            a, ta = self.expr(c.args[0], env)
            if ta != "link3":
                raise Unsupported("append of %s" % ta)
            return "(let v_%s := v_%s ++ [%s] in\n %s)" % (f.value.id, f.value.id, a, nxt())
        if isinstance(f, ast.Attribute) and ast.unparse(f.value) == "self.lru_trie" and target is not None and not isinstance(target, tuple):
            sig = self.tr.sigs.get(("tstore", f.attr))
            if sig and sig["kind"] == "tfn" and len(c.args) == len(sig["params"]) and not c.keywords:
                # arguments that may be None where a number is needed raise
                vals = [(self.expr(a_, env), p_[1]) for a_, p_ in zip(c.args, sig["params"])]

                def build(i, acc):
                    if i == len(vals):
                        return "(match %s sg%s with\n | None => %s\n | Some (sg, v_%s) => %s end)" % (
                            sig["coq"], "".join(" " + x for x in acc), self.fail(), target, nxt(dict(env, **{target: sig["rtype"]})))
                    (a, ta), ty = vals[i]
                    return self.need(a, ta, ty, lambda x: build(i + 1, acc + [x]))
                return build(0, [])
        return GA.FnT.call_stmt(self, c, target, env, nxt)

    def fold_state(self, body, env):
        names, has_yield = GA.FnT.fold_state(self, body, env)
        more = set(names)
        for n in ast.walk(ast.Module(body=list(body), type_ignores=[])):
            if isinstance(n, ast.Call) and isinstance(n.func, ast.Attribute) and isinstance(n.func.value, ast.Name) \
                    and env.get(n.func.value.id) in ("links3", "tnode") and n.func.attr in ("append", "read"):
                more.add(n.func.value.id)
        return sorted(more), has_yield

    def forloop(self, s, env, nxt):
        if isinstance(s.iter, ast.Call) and ast.unparse(s.iter.func) == "self.link_store.weighted_link_nodes_iter" and not s.orelse \
                and len(s.iter.args) == 1 and not s.iter.keywords and isinstance(s.target, ast.Tuple) and len(s.target.elts) == 2 \
                and all(isinstance(x, ast.Name) for x in s.target.elts) and self.loop_k is None:
            b, tb = self.expr(s.iter.args[0], env)
            if tb != "N":
                raise Unsupported("link list head of type %s" % tb)
            t1, t2 = [x.id for x in s.target.elts]
            env1 = dict(env, **{t1: "oN", t2: "N"})
            for n in ast.walk(ast.Module(body=list(s.body), type_ignores=[])):
                if isinstance(n, (ast.Return, ast.Break, ast.Continue, ast.For, ast.While, ast.Yield)):
                    raise Unsupported("exit from / loop in a loop over a link list")
            names, _ = self.fold_state(s.body, env1)
            names = [n for n in names if n in env]
            vars_ = ["sg"] + ["v_%s" % n for n in names]
            types = ["py_pm"] + [GL.COQT[env[n]] for n in names]
            pat, ty = "(" + ", ".join(vars_) + ")", "(" + " * ".join(types) + ")"

            def pack(e2):
                return "(Some (" + ", ".join(["sg"] + [self.coerce("v_%s" % n, e2[n], env[n]) for n in names]) + "))"
            self.loop_k = True
            body = self.block(list(s.body), env1, pack)
            self.loop_k = None
            return ("(match py_ls_weighted_link_nodes_iter sgl %s with\n | None => %s\n | Some v__items =>\n"
                    " (match fold_left (fun (st : option %s) (v__it : (option N * N)) =>\n match st with\n | None => None\n"
                    " | Some %s => (let '(v_%s, v_%s) := v__it in\n %s) end)\n v__items (Some %s) with\n | None => %s\n | Some %s => %s end) end)"
                    % (b, self.fail(), ty, pat, t1, t2, body, pat, self.fail(), pat, nxt()))
        return GA.FnT.forloop(self, s, env, nxt)


def main(out):
    T, _, TN, LT = GT.build()
    GW.register(T, TN, LT)
    T.sigs[("tstore", "lru_node")] = {"kind": "tfn", "params": [("lru", "bytes", None)], "rtype": "otnode", "coq": "py_trie_lru_node"}
    T.sigs[("tstore", "windup_lru")] = {"kind": "tfn", "params": [("block", "N", None)], "rtype": "bytes", "coq": "py_trie_windup_lru"}
    T.out = []
    for name in ("has_outlinks", "has_inlinks"):
        T.method(TN, "tnode", name, [], "pure", "bool")
    for name in ("outlinks", "inlinks"):
        T.method(TN, "tnode", name, [], "pure", "N")
    p = os.path.join(REPO, "traph", "traph.py")
    tree = ast.parse(open(p).read(), p)
    c = [n for n in tree.body if isinstance(n, ast.ClassDef) and n.name == "Traph"]
    TR = dict((n.name, n) for n in c[0].body if isinstance(n, ast.FunctionDef))
    enc = TR.get("__encode")
    if enc is None or [ast.unparse(x) for x in enc.body] != ["if isinstance(string, bytes):\n    return string", "return string.encode(self.encoding)"]:
        raise Unsupported("Traph.__encode body")
    init_src = ast.unparse(TR["__init__"])
    if "self.lru_trie = LRUTrie(self.lru_trie_storage, encoding=encoding)" not in init_src \
            or "self.link_store = LinkStore(self.links_store_storage)" not in init_src:
        raise Unsupported("Traph.__init__: lru_trie / link_store")
    fn = TR["get_page_links"]
    params = [("lru", "bytes"), ("include_inbound", "bool"), ("include_internal", "bool"), ("include_outbound", "bool")]
    if [a.arg for a in fn.args.args] != ["self"] + [q[0] for q in params] or [ast.unparse(d) for d in fn.args.defaults] != ["True", "True", "True"]:
        raise Unsupported("get_page_links signature")
    f = FnL(T, fn, None, "traph", True, "links3", decl={"pagelinks": "links3"})
    f.returns = ["sg"]
    f.has_sg = True
    f.rcoq = "option (py_pm * list (bytes * bytes * N))"
    body = f.block(list(fn.body), dict(params), lambda e2: (_ for _ in ()).throw(Unsupported("get_page_links falls off its end")))
    ps = "".join(" (v_%s : %s)" % (q[0], GL.COQT[q[1]]) for q in params)
    T.out.append("Definition py_traph_get_page_links (sg sgl : py_pm)%s : option (py_pm * list (bytes * bytes * N)) :=\n %s." % (ps, body))
    L = ["(* GENERATED by harness/gen_traphl.py from %s/traph/traph.py, lru_trie/node.py -- do not edit *)" % REPO,
         "From Coq Require Import List NArith Bool Arith.", "Import ListNotations.",
         "From Traph Require Import Bytes Consts Layout Codec GenStorage GenNode GenLinks GenTrie GenTrieW.", ""]
    text = "\n".join(L + T.out) + "\n"
    old = open(out).read() if os.path.exists(out) else None
    if old != text:
        with open(out, "w") as fh:
            fh.write(text)
    return 0


if __name__ == "__main__":
    try:
        sys.exit(main(sys.argv[1]))
    except Unsupported as e:
        print("gen_traphl: UNSUPPORTED: %s" % e)
        sys.exit(3)
    except (KeyError, AttributeError, IndexError, TypeError) as e:
        print("gen_traphl: UNSUPPORTED: unexpected source shape (%s: %s)" % (type(e).__name__, e))
        sys.exit(3)
