#!/venv/bin/python
"""Translate the link enumeration and the degree conveniences of the public API (traph/traph.py: Traph.links_iter,
get_page_indegree, get_page_outdegree, get_page_degree, get_webentity_outdegree, get_webentity_indegree, get_webentity_degree) from
the Python AST into Gallina: coq/theories/GenTraphX.v, regenerated on every run.  Built on the translated pages_iter (GenTrieD.v),
deduped link traversal (GenLinks.v), windup_lru (GenTrie.v), get_page_links (GenTraphL.v), get_webentity_outlinks / inlinks
(GenTraphQ.v).
  * links_iter is a generator of (source lru, target lru): for every page with a list in the requested direction
    (`if not page_node.links(out=out): continue`: a head of 0 is false), every distinct target of that list, wound up to its LRU;
    the items of pages_iter are computed first (only reads: see gen_traphq.py);
  * the page degrees call get_page_links with fixed switches and add the weights (`for _, _, weight in ..: total += weight`) or
    take `len`; the webentity degrees are `len` of the cited / citing sets and their sum."""
import ast
import os
import sys

sys.path.insert(0, os.path.dirname(os.path.abspath(__file__)))
import gen_links as GL       # noqa: E402
import gen_trie as GT        # noqa: E402
import gen_triew as GW       # noqa: E402
import gen_tried as GD       # noqa: E402
import gen_traphq as GQ      # noqa: E402

REPO = os.environ.get("VERIF_REPO", "/repo")
Unsupported = GL.Unsupported

GL.COQT.update({"pair:bytes:bytes": "(bytes * bytes)"})


class FnX(GQ.FnQ):
    def cond(self, t, env, kt, kf):
        if isinstance(t, ast.UnaryOp) and isinstance(t.op, ast.Not):
            try:
                a, ta = self.expr(t.operand, env)
            except Unsupported:
                a, ta = None, None
            if ta == "N":
                return "(if (N.eqb %s 0%%N)\n then %s\n else %s)" % (a, kt(dict(env)), kf(dict(env)))
        return GQ.FnQ.cond(self, t, env, kt, kf)

    def block(self, stmts, env, k):
        if stmts:
            s, rest = stmts[0], stmts[1:]
            nxt = lambda env2=None: self.block(rest, env if env2 is None else env2, k)          # noqa: E731
            if isinstance(s, ast.Expr) and isinstance(s.value, ast.Yield) and isinstance(s.value.value, ast.Tuple) \
                    and self.gen == "pair:bytes:bytes" and len(s.value.value.elts) == 2:
                a, b = s.value.value.elts
                if ast.unparse(b) == "self.lru_trie.windup_lru(target)" and env.get("target") in ("oN", "N"):
                    x, tx = self.expr(a, env)
                    tgt = "v_target"
                    inner = "(match py_trie_windup_lru sg v__t with\n | None => %s\n | Some (sg, v__l) => (let v__out := v__out ++ [(%s, v__l)] in\n %s) end)" % (
                        self.fail(), x, nxt())
                    if env["target"] == "oN":
                        return "(match %s with\n | None => %s\n | Some v__t => %s end)" % (tgt, self.fail(), inner)
                    return "(let v__t := %s in %s)" % (tgt, inner)
        return GQ.FnQ.block(self, stmts, env, k)

    def qstate(self, body, env, outer):
        pat, ty, pack = GQ.FnQ.qstate(self, body, env, outer)
        has_yield = any(isinstance(n, ast.Yield) for n in ast.walk(ast.Module(body=list(body), type_ignores=[])))
        if not has_yield or self.gen is None:
            return pat, ty, pack
        base = [] if pat == "sg" else [x.strip() for x in pat.strip("()").split(",")][1:]
        allv = ["sg"] + base + ["v__out"]
        btypes = [] if ty == "py_pm" else [x.strip() for x in ty.strip("()").split(" * ")][1:]
        types = ["py_pm"] + btypes + ["list (%s)" % GL.COQT[self.gen]]

        def pack2(e2):
            inner = pack(e2)            # (Some (sg, ...)) or (Some sg)
            core = inner[len("(Some "):-1]
            core = core.strip()
            if core.startswith("(") and core.endswith(")"):
                core = core[1:-1]
            return "(Some (%s, v__out))" % core
        return "(" + ", ".join(allv) + ")", "(" + " * ".join(types) + ")", pack2

    def forloop(self, s, env, nxt):
        it = s.iter
        if isinstance(it, ast.Call) and ast.unparse(it.func) == "self.lru_trie.pages_iter" and not it.args and not it.keywords \
                and isinstance(s.target, ast.Tuple) and len(s.target.elts) == 2 and not s.orelse:
            a, b = [x.id for x in s.target.elts]
            inner = self.fold("v__items", "(py_node * bytes)", "let '(v_%s, v_%s) := v__it in" % (a, b), s,
                              dict(env, **{a: "tnode", b: "bytes"}), env, nxt)
            return "(match py_trie_pages_iter sg with\n | None => %s\n | Some (v__items, sg) => %s end)" % (self.fail(), inner)
        return GQ.FnQ.forloop(self, s, env, nxt)


def main(out):
    T, _, TN, LT = GT.build()
    GW.register(T, TN, LT)
    GD.register(T, LT)
    T.sigs[("tstore", "windup_lru")] = {"kind": "tfn", "params": [("block", "N", None)], "rtype": "bytes", "coq": "py_trie_windup_lru"}
    T.sigs[("tnode", "links")] = {"kind": "pure", "params": [("out", "bool", "true")], "rtype": "N", "coq": "py_node_links"}
    T.out = []
    T.join_calls = False
    p = os.path.join(REPO, "traph", "traph.py")
    tree = ast.parse(open(p).read(), p)
    c = [n for n in tree.body if isinstance(n, ast.ClassDef) and n.name == "Traph"]
    TR = dict((n.name, n) for n in c[0].body if isinstance(n, ast.FunctionDef))
    init_src = ast.unparse(TR["__init__"])
    if "self.lru_trie = LRUTrie(self.lru_trie_storage, encoding=encoding)" not in init_src \
            or "self.link_store = LinkStore(self.links_store_storage)" not in init_src:
        raise Unsupported("Traph.__init__: lru_trie / link_store")
    # ---- links_iter ----
    fn = TR["links_iter"]
    if [a.arg for a in fn.args.args] != ["self", "out"] or [ast.unparse(d) for d in fn.args.defaults] != ["True"]:
        raise Unsupported("links_iter signature")
    f = FnX(T, fn, None, "traph", True, None, gen="pair:bytes:bytes")
    f.returns = []
    f.has_sg = True
    f.gen_sg = True
    f.tnode_storage = "sg"
    body = f.block(list(fn.body), {"out": "bool"}, lambda e2: "(Some (v__out, sg))")
    T.out.append("Definition py_traph_links_iter (sg sgl : py_pm) (v_out : bool) : option (list (bytes * bytes) * py_pm) :=\n"
                 " (let v__out := (@nil (bytes * bytes)) in\n %s)." % body)
    # ---- page degrees: fixed shapes over get_page_links ----
    for name, switches in (("get_page_indegree", ("True", "False", "False")), ("get_page_outdegree", ("False", "False", "True")),
                           ("get_page_degree", ("True", "True", "True"))):
        fn = TR[name]
        call = "self.get_page_links(lru, include_inbound=%s, include_internal=%s, include_outbound=%s)" % switches
        want = "if weighted:\n    total = 0\n    for _, _, weight in %s:\n        total += weight\n    return total\nelse:\n    return len(%s)" % (call, call)
        stmts = [x for x in fn.body if not (isinstance(x, ast.Expr) and isinstance(x.value, ast.Constant))]
        if [a.arg for a in fn.args.args] != ["self", "lru", "weighted"] or [ast.unparse(d) for d in fn.args.defaults] != ["False"] \
                or len(stmts) != 1 or ast.unparse(stmts[0]) != want:
            raise Unsupported("%s body: %s" % (name, ast.unparse(stmts[0]) if stmts else ""))
        sw = " ".join({"True": "true", "False": "false"}[x] for x in switches)
        T.out.append("Definition py_traph_%s (sg sgl : py_pm) (v_lru : bytes) (v_weighted : bool) : option (py_pm * N) :=\n"
                     " (match py_traph_get_page_links sg sgl v_lru %s with\n | None => None\n | Some (sg, v__links) =>\n"
                     " (if v_weighted\n then Some (sg, fold_left (fun (v_total : N) (v__it : (bytes * bytes * N)) => let '(_, _, v_weight) := v__it in N.add v_total v_weight) v__links 0%%N)\n"
                     " else Some (sg, N.of_nat (length v__links))) end)." % (name, sw))
    # ---- webentity degrees ----
    for name, q in (("get_webentity_outdegree", "get_webentity_outlinks"), ("get_webentity_indegree", "get_webentity_inlinks")):
        fn = TR[name]
        stmts = [x for x in fn.body if not (isinstance(x, ast.Expr) and isinstance(x.value, ast.Constant))]
        if [a.arg for a in fn.args.args] != ["self", "weid", "prefixes"] or len(stmts) != 1 \
                or ast.unparse(stmts[0]) != "return len(self.%s(weid, prefixes))" % q:
            raise Unsupported("%s body" % name)
        T.out.append("Definition py_traph_%s (sg sgl : py_pm) (v_weid : N) (v_prefixes : list bytes) : option (py_pm * N) :=\n"
                     " (match py_traph_%s sg sgl v_weid v_prefixes with\n | None => None\n | Some (sg, v__s) => Some (sg, N.of_nat (length v__s)) end)." % (name, q))
    fn = TR["get_webentity_degree"]
    stmts = [x for x in fn.body if not (isinstance(x, ast.Expr) and isinstance(x.value, ast.Constant))]
    if len(stmts) != 1 or ast.unparse(stmts[0]) != "return self.get_webentity_indegree(weid, prefixes) + self.get_webentity_outdegree(weid, prefixes)":
        raise Unsupported("get_webentity_degree body")
    T.out.append("Definition py_traph_get_webentity_degree (sg sgl : py_pm) (v_weid : N) (v_prefixes : list bytes) : option (py_pm * N) :=\n"
                 " (match py_traph_get_webentity_indegree sg sgl v_weid v_prefixes with\n | None => None\n | Some (sg, v__a) =>\n"
                 " (match py_traph_get_webentity_outdegree sg sgl v_weid v_prefixes with\n | None => None\n | Some (sg, v__b) => Some (sg, N.add v__a v__b) end) end).")
    L = ["(* GENERATED by harness/gen_traphx.py from %s/traph/traph.py -- do not edit *)" % REPO,
         "From Coq Require Import List NArith Bool Arith.", "Import ListNotations.",
         "From Traph Require Import Bytes Consts Layout Codec GenStorage GenNode GenLinks GenTrie GenTrieW GenTrieD GenTraphL GenTraphQ.", ""]
    text = "\n".join(L + T.out) + "\n"
    old = open(out).read() if os.path.exists(out) else None
    if old != text:
        with open(out, "w") as fh:
            fh.write(text)
    return 0


if __name__ == "__main__":
    try:
        sys.exit(main(sys.argv[1]))
    except Unsupported as e:
        print("gen_traphx: UNSUPPORTED: %s" % e)
        sys.exit(3)
    except (KeyError, AttributeError, IndexError, TypeError) as e:
        print("gen_traphx: UNSUPPORTED: unexpected source shape (%s: %s)" % (type(e).__name__, e))
        sys.exit(3)
