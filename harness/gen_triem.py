#!/venv/bin/python
"""Translate the INTEGER figures of LRUTrie.metrics (traph/lru_trie/lru_trie.py) from the Python AST into Gallina:
coq/theories/GenTrieM.v, regenerated on every run.  Built on the translated nodes_iter (GenTrieD.v) and flag tests.

metrics() keeps a dict `stats` and a few locals; some entries are floating-point running averages (`avg_stem_filling`, `avg_tail`,
the two ratios computed at the end, the local `filling`).  The translator SLICES them away:
  * a variable (a local or a key of `stats`) is float-valued if some assignment to it divides (`/`), calls float(), or reads a
    float-valued variable (least fixpoint); every other variable is an integer (initialised with an integer constant, updated
    by `+= 1`, `= 0`, `= <integer variable>`);
  * every assignment to a float-valued variable is dropped; by construction no integer variable reads a float-valued one, and
    the translator checks that no `if` test that guards an integer assignment reads one either: the integer figures do not
    depend on the dropped statements;
  * what remains is straight-line code and `if`s over a tuple of naturals, folded over the node objects of nodes_iter (computed
    first: the body reads nothing from the store).
The result is the association list of the integer entries of `stats`, in the order of the dict literal.  GenTrieMFacts.v proves
it equal to the model's Traph.metrics on the trie file of every reachable state (C19: C19_metrics_pages speaks about it)."""
import ast
import os
import sys

sys.path.insert(0, os.path.dirname(os.path.abspath(__file__)))
import gen_links as GL       # noqa: E402
import gen_trie as GT        # noqa: E402
import gen_triew as GW       # noqa: E402
import gen_tried as GD       # noqa: E402

REPO = os.environ.get("VERIF_REPO", "/repo")
Unsupported = GL.Unsupported


def var_of(e, keys):
    """the variable an expression names: a local, or stats["key"]"""
    if isinstance(e, ast.Name):
        return e.id
    if isinstance(e, ast.Subscript) and isinstance(e.value, ast.Name) and e.value.id == "stats" and isinstance(e.slice, ast.Constant) \
            and isinstance(e.slice.value, str):
        return "stats:" + e.slice.value
    return None


def reads(e, keys):
    out = set()
    for n in ast.walk(e):
        v = var_of(n, keys)
        if v is not None and v not in ("stats", "node", "self", "float", "len", "LRU_TRIE_STEM_SIZE"):
            out.add(v)
    return out


def is_floaty(e):
    for n in ast.walk(e):
        if isinstance(n, ast.BinOp) and isinstance(n.op, ast.Div):
            return True
        if isinstance(n, ast.Call) and isinstance(n.func, ast.Name) and n.func.id == "float":
            return True
    return False


def assignments(stmts):
    for s in stmts:
        if isinstance(s, (ast.Assign, ast.AugAssign)):
            yield s
        elif isinstance(s, ast.If):
            for x in assignments(s.body):
                yield x
            for x in assignments(s.orelse):
                yield x
        elif isinstance(s, ast.For):
            for x in assignments(s.body):
                yield x


class M(object):
    def __init__(self, T, fn):
        self.T = T
        body = [x for x in fn.body if not (isinstance(x, ast.Expr) and isinstance(x.value, ast.Constant))]
        if len(body) < 4 or not (isinstance(body[0], ast.Assign) and ast.unparse(body[0].targets[0]) == "stats" and isinstance(body[0].value, ast.Dict)):
            raise Unsupported("metrics: stats literal")
        d = body[0].value
        self.keys = []
        for k, v in zip(d.keys, d.values):
            if not (isinstance(k, ast.Constant) and isinstance(k.value, str) and isinstance(v, ast.Constant) and v.value == 0 and isinstance(v.value, int)):
                raise Unsupported("metrics: stats entry %s" % ast.unparse(k))
            self.keys.append(k.value)
        if not (isinstance(body[-1], ast.Return) and ast.unparse(body[-1].value) == "stats"):
            raise Unsupported("metrics: return")
        self.stmts = body[1:-1]
        loops = [s for s in self.stmts if isinstance(s, ast.For)]
        if len(loops) != 1 or ast.unparse(loops[0].iter) != "self.nodes_iter()" or ast.unparse(loops[0].target) != "node" or loops[0].orelse:
            raise Unsupported("metrics: loop")
        for n in ast.walk(ast.Module(body=self.stmts, type_ignores=[])):
            if isinstance(n, (ast.While, ast.Break, ast.Continue, ast.Return, ast.Try, ast.With, ast.Yield)):
                raise Unsupported("metrics: statement %s" % type(n).__name__)
        # ---- variables and the float taint ----
        self.vars = ["stats:" + k for k in self.keys]
        for a in assignments(self.stmts):
            tg = a.targets[0] if isinstance(a, ast.Assign) else a.target
            if isinstance(a, ast.Assign) and len(a.targets) != 1:
                raise Unsupported("metrics: multiple targets")
            v = var_of(tg, self.keys)
            if v is None or v in ("stats", "node"):
                raise Unsupported("metrics: target %s" % ast.unparse(tg))
            if v not in self.vars:
                self.vars.append(v)
        self.flt = set()
        changed = True
        while changed:
            changed = False
            for a in assignments(self.stmts):
                tg = a.targets[0] if isinstance(a, ast.Assign) else a.target
                v = var_of(tg, self.keys)
                if v in self.flt:
                    continue
                if is_floaty(a.value) or (reads(a.value, self.keys) & self.flt):
                    self.flt.add(v)
                    changed = True
        self.ints = [v for v in self.vars if v not in self.flt]
        # every integer variable is initialised before the loop (stats entries by the literal)
        pre = self.stmts[:self.stmts.index(loops[0])]
        inited = set("stats:" + k for k in self.keys)
        for s in pre:
            if not (isinstance(s, ast.Assign) and isinstance(s.value, ast.Constant) and s.value.value == 0 and isinstance(s.value.value, int)):
                raise Unsupported("metrics: statement before the loop: %s" % ast.unparse(s))
            inited.add(var_of(s.targets[0], self.keys))
        for v in self.ints:
            if v not in inited:
                raise Unsupported("metrics: %s is not initialised before the loop" % v)
        self.loop = loops[0]
        self.post = self.stmts[self.stmts.index(loops[0]) + 1:]

    def cv(self, v):
        return "v_" + v.replace("stats:", "st_")

    def tup(self):
        return "(" + ", ".join(self.cv(v) for v in self.ints) + ")"

    def expr(self, e):
        v = var_of(e, self.keys)
        if v is not None:
            if v in self.flt or v not in self.ints:
                raise Unsupported("metrics: integer expression reads %s" % v)
            return self.cv(v)
        if isinstance(e, ast.Constant) and isinstance(e.value, int) and not isinstance(e.value, bool) and e.value >= 0:
            return "%d%%N" % e.value
        raise Unsupported("metrics: expression %s" % ast.unparse(e))

    def test(self, t):
        if isinstance(t, ast.Call) and isinstance(t.func, ast.Attribute) and ast.unparse(t.func.value) == "node" and not t.args and not t.keywords:
            sig = self.T.sigs.get(("tnode", t.func.attr))
            if sig is None or sig["kind"] != "pure" or sig["rtype"] != "bool":
                raise Unsupported("metrics: test %s" % ast.unparse(t))
            return "(%s v_node)" % sig["coq"]
        if isinstance(t, ast.Compare) and len(t.ops) == 1 and isinstance(t.ops[0], ast.Gt):
            return "(N.ltb %s %s)" % (self.expr(t.comparators[0]), self.expr(t.left))
        v = var_of(t, self.keys)
        if v is not None and v in self.ints:
            return "(negb (N.eqb %s 0%%N))" % self.cv(v)          # truth of an integer
        raise Unsupported("metrics: test %s" % ast.unparse(t))

    def has_int_assign(self, stmts):
        for a in assignments(stmts):
            tg = a.targets[0] if isinstance(a, ast.Assign) else a.target
            if var_of(tg, self.keys) in self.ints:
                return True
        return False

    def block(self, stmts):
        """Gallina for the integer slice of a block: an expression of the tuple type, ending with the tuple"""
        if not stmts:
            return self.tup()
        s, rest = stmts[0], stmts[1:]
        if isinstance(s, (ast.Assign, ast.AugAssign)):
            tg = s.targets[0] if isinstance(s, ast.Assign) else s.target
            v = var_of(tg, self.keys)
            if v in self.flt:
                return self.block(rest)                               # sliced away
            if isinstance(s, ast.AugAssign):
                if not isinstance(s.op, ast.Add):
                    raise Unsupported("metrics: %s" % ast.unparse(s))
                val = "(N.add %s %s)" % (self.cv(v), self.expr(s.value))
            else:
                val = self.expr(s.value)
            return "(let %s := %s in\n %s)" % (self.cv(v), val, self.block(rest))
        if isinstance(s, ast.If):
            if not self.has_int_assign(s.body) and not self.has_int_assign(s.orelse):
                return self.block(rest)                               # only float-valued updates inside
            if reads(s.test, self.keys) & self.flt:
                raise Unsupported("metrics: a test on a float-valued variable guards an integer update")
            return "(let '%s := (if %s\n then %s\n else %s) in\n %s)" % (self.tup(), self.test(s.test), self.block(list(s.body)), self.block(list(s.orelse)),
                                                                       self.block(rest))
        raise Unsupported("metrics: statement %s" % ast.unparse(s))


def main(out):
    T, _, TN, LT = GT.build()
    GW.register(T, TN, LT)
    GD.register(T, LT)
    T.method(TN, "tnode", "has_tail", [], "pure", "bool")
    T.out = []            # has_tail is defined in GenNode.v (generated from the same method by gen_node.py)
    T.method(TN, "tnode", "is_tail", [], "pure", "bool")
    fn = LT["metrics"]
    if [a.arg for a in fn.args.args] != ["self"]:
        raise Unsupported("metrics signature")
    m = M(T, fn)
    if m.has_int_assign(m.post):
        raise Unsupported("metrics: integer update after the loop")
    ty = "(" + " * ".join("N" for _ in m.ints) + ")"
    body = m.block(list(m.loop.body))
    ikeys = [k for k in m.keys if "stats:" + k in m.ints]
    res = "[" + "; ".join("(%s, %s)" % ("[" + "; ".join(str(ord(c)) for c in k) + "]", m.cv("stats:" + k)) for k in ikeys) + "]"
    T.out.append("(* float-valued, sliced away: %s\n   integer state: %s *)" % (", ".join(sorted(m.flt)), ", ".join(m.ints)))
    T.out.append("Definition py_trie_metrics_step (st : %s) (v_node : py_node) : %s :=\n let '%s := st in\n %s." % (ty, ty, m.tup(), body))
    T.out.append("(* the integer entries of the returned dict, in the order of the literal: %s *)" % ", ".join(ikeys))
    T.out.append("Definition py_trie_metrics (sg : py_pm) : option (py_pm * list (bytes * N)) :=\n"
                 " (match py_trie_nodes_iter sg with\n | None => None\n | Some (v__items, sg) =>\n"
                 " (let '%s := fold_left py_trie_metrics_step v__items (%s) in\n Some (sg, %s)) end)."
                 % (m.tup(), ", ".join("0%N" for _ in m.ints), res))
    L = ["(* GENERATED by harness/gen_triem.py from %s/traph/lru_trie/lru_trie.py, lru_trie/node.py -- do not edit *)" % REPO,
         "From Coq Require Import List NArith Bool Arith.", "Import ListNotations.",
         "From Traph Require Import Bytes Consts Layout Codec GenStorage GenNode GenLinks GenTrie GenTrieW GenTrieD.", ""]
    text = "\n".join(L + T.out) + "\n"
    old = open(out).read() if os.path.exists(out) else None
    if old != text:
        with open(out, "w") as fh:
            fh.write(text)
    return 0


if __name__ == "__main__":
    try:
        sys.exit(main(sys.argv[1]))
    except Unsupported as e:
        print("gen_triem: UNSUPPORTED: %s" % e)
        sys.exit(3)
    except (KeyError, AttributeError, IndexError, TypeError) as e:
        print("gen_triem: UNSUPPORTED: unexpected source shape (%s: %s)" % (type(e).__name__, e))
        sys.exit(3)
