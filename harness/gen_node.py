#!/venv/bin/python
"""Translate the multi-block stem code of traph/lru_trie/node.py (LRUTrieNode.read, write, set_stem, stem,
__set_default_data, has_tail, flag_as_having_tail and the module helpers flag / test) and
helpers.detailed_chunks_iter into Gallina: coq/theories/GenNode.v, regenerated on every run.
GenNodeFacts.v proves that reading a node this way from the stored blocks gives the model's view of
that node (Store.b_read) and that writing a new node this way appends exactly the blocks the model
writes (Tst.node_blocks / Codec.encode_tblock) - the code on which C02, C18 and C19 rest for stems
longer than one block.

A node object is the record py_node (block, exists, tail, data : list fval); its storage is the
MemoryStorage object of GenStorage.v (py_pm, with py_pm_read / py_pm_write translated from the source
and proved equal to the storage machine).  A method becomes
    py_node_<m> : py_node -> py_pm -> args -> py_node * py_pm [* result].
struct.pack / struct.unpack with LRU_TRIE_NODE_FORMAT are Codec.pack / Codec.unpack on the format that
gen_consts.py parsed from the same constant; the named constants are those of Consts.v.
Accepted statement shapes are exactly the ones these methods use (anything else fails closed):
assignments to locals / attributes / `self.data[CONST]`, `x = self.storage.read(b)` / `read()`,
`b = self.storage.write(data, self.block)` / `self.storage.write(data)`, `if e is None`, `if <truth>`,
`while True:` with `break` (a local fix on fuel = 1 + number of bytes of the store: every iteration
reads one more block), `for a, b in detailed_chunks_iter(..)` (a fold), `xs.append(e)`, calls of the
translated methods and of flag / test.
`int(math.ceil(a / float(b)))` is the named primitive py_ceil_div (exact while a < 2^53)."""
import ast
import os
import sys

REPO = os.environ.get("VERIF_REPO", "/repo")

CONSTS = {"LRU_TRIE_NODE_FORMAT": ("node_format", "fmt"), "LRU_TRIE_STEM_SIZE": ("stem_size", "N"),
          "LRU_TRIE_NODE_STEM": ("pos_stem", "nat"), "LRU_TRIE_NODE_FLAGS": ("pos_flags", "nat"),
          "LRU_TRIE_NODE_FLAG_HAS_TAIL": ("flag_has_tail", "N"), "LRU_TRIE_NODE_FLAG_IS_TAIL": ("flag_is_tail", "N"),
          "DEFAULT_FLAGS_VALUE": ("default_flags", "N"), "LRU_TRIE_NODE_REGISTERS": ("node_registers", "nat")}


class Unsupported(Exception):
    pass


PREAMBLE = r"""Record py_node := mk_nd { nd_block : option N; nd_exists : bool; nd_tail : bytes; nd_data : list fval }.
Definition nd_set_block (v : option N) (n : py_node) := mk_nd v (nd_exists n) (nd_tail n) (nd_data n).
Definition nd_set_exists (v : bool) (n : py_node) := mk_nd (nd_block n) v (nd_tail n) (nd_data n).
Definition nd_set_tail (v : bytes) (n : py_node) := mk_nd (nd_block n) (nd_exists n) v (nd_data n).
Definition nd_set_data (v : list fval) (n : py_node) := mk_nd (nd_block n) (nd_exists n) (nd_tail n) v.
(* LRUTrieNode(storage): block None, exists False, tail b"" (the data are set by __set_default_data) *)
Definition py_node_new : py_node := mk_nd None false [] [].
Fixpoint py_set_nth (i : nat) (v : fval) (l : list fval) : list fval :=
  match l, i with
  | [], _ => []
  | _ :: l', O => v :: l'
  | x :: l', S i' => x :: py_set_nth i' v l'
  end.
Definition py_get_num (i : nat) (l : list fval) : N := vnum (nth i l (VNum 0)).
Definition py_get_bytes (i : nat) (l : list fval) : bytes := vbytes (nth i l (VNum 0)).
(* primitive: int(math.ceil(a / float(b))) *)
Definition py_ceil_div (a b : N) : N := (a + b - 1) / b.
Definition py_range (n : N) : list N := map N.of_nat (seq 0 (N.to_nat n)).
Definition py_slice (a b : N) (l : bytes) : bytes := firstn (N.to_nat (b - a)) (skipn (N.to_nat a) l).
Definition py_nonempty (b : bytes) : bool := match b with [] => false | _ => true end.
"""


class Tr(object):
    """one function / method.  env: name -> type in {N, nat, bytes, obytes, bool, fvals, lbytes, oN}"""

    def __init__(self, fn, is_method, known):
        self.fn, self.is_method, self.known = fn, is_method, known
        self.in_loop = None     # (state pattern) while translating a while-True body
        self.gen = False

    # ---------- expressions ----------
    def const(self, name):
        if name not in CONSTS:
            raise Unsupported("constant %s" % name)
        return CONSTS[name]

    def expr(self, e, env):
        if isinstance(e, ast.Constant):
            if isinstance(e.value, bool):
                return ("true" if e.value else "false"), "bool"
            if isinstance(e.value, int) and e.value >= 0:
                return "%d%%N" % e.value, "N"
            if isinstance(e.value, bytes):
                return ("[" + "; ".join("%d%%N" % c for c in e.value) + "]" if e.value else "(@nil N)"), "bytes"
            if e.value is None:
                return "None", "none"
        if isinstance(e, ast.Name):
            if e.id in env:
                return "v_%s" % e.id, env[e.id]
            c, t = self.const(e.id)
            return ("(N.of_nat %s)" % c, "N") if t == "nat" else (c, t)
        if isinstance(e, ast.Attribute) and isinstance(e.value, ast.Name) and e.value.id == "self" and self.is_method:
            if e.attr in ("block", "exists", "tail", "data"):
                return "(nd_%s nd)" % e.attr, {"block": "oN", "exists": "bool", "tail": "bytes", "data": "fvals"}[e.attr]
        if isinstance(e, ast.Subscript) and not isinstance(e.slice, ast.Slice):
            a, ta = self.expr(e.value, env)
            if ta == "fvals" and isinstance(e.slice, ast.Name):
                c, t = self.const(e.slice.id)
                if t != "nat":
                    raise Unsupported("index constant")
                # only the stem position holds bytes
                if e.slice.id == "LRU_TRIE_NODE_STEM":
                    return "(py_get_bytes %s %s)" % (c, a), "bytes"
                return "(py_get_num %s %s)" % (c, a), "N"
        if isinstance(e, ast.Subscript) and isinstance(e.slice, ast.Slice) and e.slice.step is None:
            a, ta = self.expr(e.value, env)
            if ta != "bytes":
                raise Unsupported("slice of %s" % ta)
            lo = self.expr(e.slice.lower, env)[0] if e.slice.lower is not None else "0%N"
            hi = self.expr(e.slice.upper, env)[0] if e.slice.upper is not None else "(N.of_nat (length %s))" % a
            return "(py_slice %s %s %s)" % (lo, hi, a), "bytes"
        if isinstance(e, ast.BinOp) and isinstance(e.op, (ast.Add, ast.Sub, ast.Mult)):
            # list construction [chunk, DEFAULT] + [0] * REGISTERS
            if isinstance(e.op, ast.Add) and isinstance(e.left, ast.List) and isinstance(e.right, ast.BinOp) \
                    and isinstance(e.right.op, ast.Mult) and isinstance(e.right.left, ast.List) and len(e.right.left.elts) == 1 \
                    and isinstance(e.right.left.elts[0], ast.Constant) and e.right.left.elts[0].value == 0 \
                    and isinstance(e.right.right, ast.Name):
                c, t = self.const(e.right.right.id)
                if t != "nat":
                    raise Unsupported("repeat count")
                items = []
                for x in e.left.elts:
                    a, ta = self.expr(x, env)
                    items.append({"bytes": "VBytes %s", "N": "VNum %s"}[ta] % a)
                return "([%s] ++ repeat (VNum 0%%N) %s)" % ("; ".join(items), c), "fvals"
            a, ta = self.expr(e.left, env)
            b, tb = self.expr(e.right, env)
            if ta == "bytes" and tb == "bytes" and isinstance(e.op, ast.Add):
                return "(%s ++ %s)" % (a, b), "bytes"
            if ta == "N" and tb == "N":
                return "(%s %s %s)" % ({ast.Add: "N.add", ast.Sub: "N.sub", ast.Mult: "N.mul"}[type(e.op)], a, b), "N"
            raise Unsupported("arithmetic on %s, %s" % (ta, tb))
        if isinstance(e, ast.Compare) and len(e.ops) == 1:
            a, ta = self.expr(e.left, env)
            b, tb = self.expr(e.comparators[0], env)
            if ta == "N" and tb == "N":
                op = {ast.LtE: "N.leb", ast.Eq: "N.eqb", ast.Lt: "N.ltb"}.get(type(e.ops[0]))
                if op:
                    return "(%s %s %s)" % (op, a, b), "bool"
            raise Unsupported("comparison")
        if isinstance(e, ast.UnaryOp) and isinstance(e.op, ast.Not):
            return "(negb %s)" % self.truth(e.operand, env), "bool"
        if isinstance(e, ast.BoolOp) and isinstance(e.op, ast.And):
            return "(" + " && ".join(self.truth(v, env) for v in e.values) + ")", "bool"
        if isinstance(e, ast.Call):
            f = e.func
            if e.keywords:
                raise Unsupported("keyword arguments")
            if isinstance(f, ast.Name) and f.id == "len" and len(e.args) == 1:
                a, ta = self.expr(e.args[0], env)
                if ta != "bytes":
                    raise Unsupported("len of %s" % ta)
                return "(N.of_nat (length %s))" % a, "N"
            if isinstance(f, ast.Name) and f.id == "test" and len(e.args) == 3:
                a, ta = self.expr(e.args[0], env)
                r, tr_ = self.const(e.args[1].id)
                p, tp = self.const(e.args[2].id)
                if ta != "fvals":
                    raise Unsupported("test on %s" % ta)
                return "(py_test %s (N.of_nat %s) %s)" % (a, r, p), "bool"
            # int(math.ceil(len(string) / float(chunk_size)))
            if isinstance(f, ast.Name) and f.id == "int" and len(e.args) == 1 and isinstance(e.args[0], ast.Call) \
                    and isinstance(e.args[0].func, ast.Attribute) and e.args[0].func.attr == "ceil" \
                    and isinstance(e.args[0].func.value, ast.Name) and e.args[0].func.value.id == "math" \
                    and len(e.args[0].args) == 1 and isinstance(e.args[0].args[0], ast.BinOp) \
                    and isinstance(e.args[0].args[0].op, ast.Div):
                d = e.args[0].args[0]
                if not (isinstance(d.right, ast.Call) and isinstance(d.right.func, ast.Name) and d.right.func.id == "float"
                        and len(d.right.args) == 1):
                    raise Unsupported("division shape")
                a, ta = self.expr(d.left, env)
                b, tb = self.expr(d.right.args[0], env)
                if ta != "N" or tb != "N":
                    raise Unsupported("ceil operands")
                return "(py_ceil_div %s %s)" % (a, b), "N"
            if isinstance(f, ast.Attribute) and isinstance(f.value, ast.Name) and f.value.id == "struct" and f.attr == "unpack" \
                    and len(e.args) == 2 and isinstance(e.args[0], ast.Name):
                c, t = self.const(e.args[0].id)
                a, ta = self.expr(e.args[1], env)
                if t != "fmt" or ta != "bytes":
                    raise Unsupported("struct.unpack arguments")
                return "(unpack %s %s)" % (c, a), "fvals"
            if isinstance(f, ast.Attribute) and isinstance(f.value, ast.Name) and f.value.id == "struct" and f.attr == "pack" \
                    and len(e.args) == 2 and isinstance(e.args[0], ast.Name) and isinstance(e.args[1], ast.Starred):
                c, t = self.const(e.args[0].id)
                a, ta = self.expr(e.args[1].value, env)
                if t != "fmt" or ta != "fvals":
                    raise Unsupported("struct.pack arguments")
                return "(pack %s %s)" % (c, a), "bytes"
            if isinstance(f, ast.Name) and f.id == "list" and len(e.args) == 1:
                return self.expr(e.args[0], env)
            if isinstance(f, ast.Attribute) and isinstance(f.value, ast.Constant) and f.value.value == b"" and f.attr == "join" \
                    and len(e.args) == 1:
                a, ta = self.expr(e.args[0], env)
                if ta != "lbytes":
                    raise Unsupported("join of %s" % ta)
                return "(concat %s)" % a, "bytes"
            # pure methods of the node: self.pack(), self.unpack(x), self.has_tail()
            if isinstance(f, ast.Attribute) and isinstance(f.value, ast.Name) and f.value.id == "self" and self.is_method:
                if f.attr in self.known and self.known[f.attr][0] == "pure":
                    args = [self.expr(x, env)[0] for x in e.args]
                    return "(py_node_%s nd %s)" % (f.attr.strip("_"), " ".join(args)) if args else "(py_node_%s nd)" % f.attr.strip("_"), \
                        self.known[f.attr][1]
        raise Unsupported("expression %s" % ast.dump(e)[:90])

    def truth(self, e, env):
        a, ta = self.expr(e, env)
        if ta == "bool":
            return a
        if ta == "bytes":
            return "(py_nonempty %s)" % a
        raise Unsupported("truth of %s" % ta)

    # ---------- statements ----------
    def ret(self, val):
        if getattr(self, "pure", False):
            return val
        if self.is_method:
            return "(nd, sg%s)" % (", " + val if val is not None else "")
        return val

    def block(self, stmts, env, k):
        """k(env) gives the term when the statements are exhausted"""
        if not stmts:
            return k(env)
        s, rest = stmts[0], stmts[1:]
        nxt = lambda env2=env: self.block(rest, env2, k)                         # noqa: E731
        if isinstance(s, ast.Expr) and isinstance(s.value, ast.Constant) and isinstance(s.value.value, str):
            return nxt()
        if isinstance(s, ast.Break):
            if self.in_loop is None:
                raise Unsupported("break outside a loop")
            return self.in_loop
        if isinstance(s, ast.Return):
            if self.in_loop is not None:
                raise Unsupported("return inside a loop")
            if s.value is None:
                if self.gen:
                    return "v__out"
                raise Unsupported("bare return")
            a, ta = self.expr(s.value, env)
            if ta != self.rtype:
                raise Unsupported("return type %s" % ta)
            return self.ret(a)
        if isinstance(s, ast.Expr) and isinstance(s.value, ast.Yield):
            v = s.value.value
            if not (self.gen and isinstance(v, ast.Tuple) and len(v.elts) == 2):
                raise Unsupported("yield shape")
            a, ta = self.expr(v.elts[0], env)
            b, tb = self.expr(v.elts[1], env)
            if (ta, tb) != ("bool", "bytes"):
                raise Unsupported("yield types")
            return "(let v__out := v__out ++ [(%s, %s)] in\n %s)" % (a, b, nxt())
        if isinstance(s, ast.If):
            t = s.test
            if isinstance(t, ast.Compare) and len(t.ops) == 1 and isinstance(t.comparators[0], ast.Constant) \
                    and t.comparators[0].value is None and isinstance(t.left, ast.Name):
                n = t.left.id
                if env.get(n) not in ("obytes", "obytes_or_bytes"):
                    raise Unsupported("None test on %s" % env.get(n))
                some_env = dict(env, **{n: "bytes"})
                a_none = self.block(list(s.body if isinstance(t.ops[0], ast.Is) else s.orelse) + rest, dict(env), k)
                a_some = self.block(list(s.orelse if isinstance(t.ops[0], ast.Is) else s.body) + rest, some_env, k)
                return "(match v_%s with\n | None => %s\n | Some v_%s => %s end)" % (n, a_none, n, a_some)
            c = self.truth(t, env)
            a = self.block(list(s.body) + rest, dict(env), k)
            b = self.block(list(s.orelse) + rest, dict(env), k)
            return "(if %s\n then %s\n else %s)" % (c, a, b)
        if isinstance(s, ast.While):
            if not (isinstance(s.test, ast.Constant) and s.test.value is True) or s.orelse or self.in_loop is not None:
                raise Unsupported("while shape")
            names = sorted(set(n.targets[0].id for n in ast.walk(s) if isinstance(n, ast.Assign) and isinstance(n.targets[0], ast.Name)
                               and n.targets[0].id in env)
                           | set(n.value.func.value.id for n in ast.walk(s) if isinstance(n, ast.Expr) and isinstance(n.value, ast.Call)
                                 and isinstance(n.value.func, ast.Attribute) and isinstance(n.value.func.value, ast.Name)
                                 and n.value.func.attr == "append" and n.value.func.value.id in env))
            # variables re-bound with another type inside the body are loop-local
            retyped = set(n.targets[0].id for n in ast.walk(s) if isinstance(n, ast.Assign) and isinstance(n.targets[0], ast.Name)
                          and isinstance(n.value, ast.Call) and isinstance(n.value.func, ast.Attribute) and n.value.func.attr == "unpack"
                          and env.get(n.targets[0].id) != "fvals")
            names = [n for n in names if env[n] in ("lbytes", "N", "bytes") and n not in retyped]
            coqt = {"lbytes": "list bytes", "N": "N", "bytes": "bytes"}
            pat = "(sg" + "".join(", v_%s" % n for n in names) + ")"
            ty = "(py_pm" + "".join(" * %s" % coqt[env[n]] for n in names) + ")"
            self.in_loop = pat
            body = self.block(list(s.body), dict(env), lambda env2: "(py_loop fuel' %s)" % pat)
            self.in_loop = None
            loop = ("(fix py_loop (fuel : nat) (st : %s) {struct fuel} : %s :=\n match fuel with\n | O => st\n | S fuel' =>\n"
                    " let '%s := st in\n %s\n end)" % (ty, ty, pat, body))
            return "(let '%s := %s (S (length (pm_array sg))) %s in\n %s)" % (pat, loop, pat, nxt())
        if isinstance(s, ast.For):
            if not (isinstance(s.target, ast.Tuple) and len(s.target.elts) == 2 and isinstance(s.iter, ast.Call)
                    and isinstance(s.iter.func, ast.Name) and s.iter.func.id == "detailed_chunks_iter" and len(s.iter.args) == 2
                    and not s.orelse):
                if isinstance(s.target, ast.Name) and isinstance(s.iter, ast.Call) and isinstance(s.iter.func, ast.Name) \
                        and s.iter.func.id == "range" and len(s.iter.args) == 1 and self.gen and not s.orelse:
                    n, tn = self.expr(s.iter.args[0], env)
                    body = self.block(list(s.body), dict(env, **{s.target.id: "N"}), lambda env2: "v__out")
                    return "(let v__out := fold_left (fun (v__out : list (bool * bytes)) (v_%s : N) => %s) (py_range %s) v__out in\n %s)" % (
                        s.target.id, body, n, nxt())
                raise Unsupported("for shape")
            a0, t0 = self.expr(s.iter.args[0], env)
            a1, t1 = self.expr(s.iter.args[1], env)
            if (t0, t1) != ("N", "bytes"):
                raise Unsupported("detailed_chunks_iter arguments")
            n0, n1 = s.target.elts[0].id, s.target.elts[1].id
            body = self.block(list(s.body), dict(env, **{n0: "bool", n1: "bytes"}), lambda env2: "sg")
            return ("(let sg := fold_left (fun (sg : py_pm) (it : bool * bytes) => let '(v_%s, v_%s) := it in\n %s)\n"
                    " (py_detailed_chunks_iter %s %s) sg in\n %s)" % (n0, n1, body, a0, a1, nxt()))
        if isinstance(s, ast.Assign) and len(s.targets) == 1:
            tg, v = s.targets[0], s.value
            # storage calls
            if isinstance(v, ast.Call) and isinstance(v.func, ast.Attribute) and isinstance(v.func.value, ast.Attribute) \
                    and isinstance(v.func.value.value, ast.Name) and v.func.value.value.id == "self" and v.func.value.attr == "storage" \
                    and isinstance(tg, ast.Name) and not v.keywords:
                if v.func.attr == "read" and len(v.args) <= 1:
                    arg = "None"
                    if v.args:
                        a, ta = self.expr(v.args[0], env)
                        arg = {"N": "(Some %s)" % a, "oN": a}[ta]
                    return "(let '(sg, v_%s) := py_pm_read sg %s in\n %s)" % (tg.id, arg, nxt(dict(env, **{tg.id: "obytes"})))
                if v.func.attr == "write" and len(v.args) == 2:
                    a, ta = self.expr(v.args[0], env)
                    b, tb = self.expr(v.args[1], env)
                    if (ta, tb) != ("bytes", "oN"):
                        raise Unsupported("storage.write arguments")
                    return "(let '(sg, v_%s) := py_pm_write sg %s %s in\n %s)" % (tg.id, a, b, nxt(dict(env, **{tg.id: "N"})))
                raise Unsupported("storage call")
            if isinstance(tg, ast.Name):
                if isinstance(v, ast.List) and not v.elts:
                    return "(let v_%s := (@nil bytes) in\n %s)" % (tg.id, nxt(dict(env, **{tg.id: "lbytes"})))
                a, ta = self.expr(v, env)
                return "(let v_%s := %s in\n %s)" % (tg.id, a, nxt(dict(env, **{tg.id: ta})))
            if isinstance(tg, ast.Attribute) and isinstance(tg.value, ast.Name) and tg.value.id == "self" and self.is_method \
                    and tg.attr in ("block", "exists", "tail", "data"):
                a, ta = self.expr(v, env)
                want = {"block": ("N", "oN"), "exists": ("bool",), "tail": ("bytes",), "data": ("fvals",)}[tg.attr]
                if ta not in want:
                    raise Unsupported("type of self.%s: %s" % (tg.attr, ta))
                if tg.attr == "block" and ta == "N":
                    a = "(Some %s)" % a
                return "(let nd := nd_set_%s %s nd in\n %s)" % (tg.attr, a, nxt())
            if isinstance(tg, ast.Subscript) and isinstance(tg.value, ast.Attribute) and isinstance(tg.value.value, ast.Name) \
                    and tg.value.value.id == "self" and tg.value.attr == "data" and isinstance(tg.slice, ast.Name) and self.is_method:
                c, t = self.const(tg.slice.id)
                a, ta = self.expr(v, env)
                if t != "nat" or ta not in ("bytes", "N"):
                    raise Unsupported("data store")
                return "(let nd := nd_set_data (py_set_nth %s (%s %s) (nd_data nd)) nd in\n %s)" % (
                    c, "VBytes" if ta == "bytes" else "VNum", a, nxt())
            raise Unsupported("assignment shape")
        if isinstance(s, ast.Expr) and isinstance(s.value, ast.Call):
            c = s.value
            f = c.func
            if c.keywords:
                raise Unsupported("keyword arguments")
            if isinstance(f, ast.Attribute) and f.attr == "append" and isinstance(f.value, ast.Name) and env.get(f.value.id) == "lbytes" \
                    and len(c.args) == 1:
                a, ta = self.expr(c.args[0], env)
                if ta != "bytes":
                    raise Unsupported("append of %s" % ta)
                return "(let v_%s := v_%s ++ [%s] in\n %s)" % (f.value.id, f.value.id, a, nxt())
            if isinstance(f, ast.Name) and f.id == "flag" and len(c.args) == 3:
                r, tr_ = self.const(c.args[1].id)
                p, tp = self.const(c.args[2].id)
                d = c.args[0]
                if isinstance(d, ast.Name) and env.get(d.id) == "fvals":
                    return "(let v_%s := py_flag v_%s (N.of_nat %s) %s in\n %s)" % (d.id, d.id, r, p, nxt())
                if isinstance(d, ast.Attribute) and isinstance(d.value, ast.Name) and d.value.id == "self" and d.attr == "data" \
                        and self.is_method:
                    return "(let nd := nd_set_data (py_flag (nd_data nd) (N.of_nat %s) %s) nd in\n %s)" % (r, p, nxt())
                raise Unsupported("flag target")
            if isinstance(f, ast.Attribute) and isinstance(f.value, ast.Attribute) and isinstance(f.value.value, ast.Name) \
                    and f.value.value.id == "self" and f.value.attr == "storage" and f.attr == "write" and len(c.args) == 1:
                a, ta = self.expr(c.args[0], env)
                if ta != "bytes":
                    raise Unsupported("storage.write data")
                return "(let '(sg, _) := py_pm_write sg %s None in\n %s)" % (a, nxt())
            # node methods with effects on the node only: self.set_stem(x), self.flag_as_having_tail(), self.__set_default_data()
            if isinstance(f, ast.Attribute) and isinstance(f.value, ast.Name) and f.value.id == "self" and self.is_method:
                name = f.attr
                if name.startswith("_LRUTrieNode"):
                    name = name[len("_LRUTrieNode"):]
                if name in self.known and self.known[name][0] == "node":
                    args = [self.expr(x, env)[0] for x in c.args]
                    if name == "__set_default_data" and not args:
                        args = ["None"]
                    return "(let nd := py_node_%s nd %s in\n %s)" % (name.strip("_"), " ".join(args), nxt())
        raise Unsupported("statement %s in %s" % (ast.dump(s)[:80], self.fn.name))


def defs(tree_node, tree_helpers):
    cls = [n for n in tree_node.body if isinstance(n, ast.ClassDef) and n.name == "LRUTrieNode"]
    if len(cls) != 1:
        raise Unsupported("class LRUTrieNode")
    meth = dict((n.name, n) for n in cls[0].body if isinstance(n, ast.FunctionDef))
    mod = dict((n.name, n) for n in tree_node.body if isinstance(n, ast.FunctionDef))
    out = []
    # ---- module helpers flag / test: bodies checked, then defined over fval lists ----
    if ast.unparse(mod["flag"].body[0]) != "data[register] |= 1 << pos" or len(mod["flag"].body) != 1:
        raise Unsupported("flag() body")
    if ast.unparse(mod["test"].body[0]) != "return bool(data[register] >> pos & 1)" or len(mod["test"].body) != 1:
        raise Unsupported("test() body: %s" % ast.unparse(mod["test"].body[0]))
    out.append("(* flag(data, register, pos): data[register] |= 1 << pos;  test: bool((data[register] >> pos) & 1) *)")
    out.append("Definition py_flag (data : list fval) (register pos : N) : list fval :=\n"
               " py_set_nth (N.to_nat register) (VNum (N.lor (py_get_num (N.to_nat register) data) (N.shiftl 1 pos))) data.")
    out.append("Definition py_test (data : list fval) (register pos : N) : bool :=\n"
               " negb (N.eqb (N.land (N.shiftr (py_get_num (N.to_nat register) data) pos) 1) 0).")
    # ---- detailed_chunks_iter ----
    h = dict((n.name, n) for n in tree_helpers.body if isinstance(n, ast.FunctionDef))["detailed_chunks_iter"]
    if [a.arg for a in h.args.args] != ["chunk_size", "string"]:
        raise Unsupported("detailed_chunks_iter signature")
    t = Tr(h, False, {})
    t.gen, t.rtype = True, None
    body = t.block(list(h.body), {"chunk_size": "N", "string": "bytes"}, lambda env: "v__out")
    out.append("Definition py_detailed_chunks_iter (v_chunk_size : N) (v_string : bytes) : list (bool * bytes) :=\n"
               " (let v__out := (@nil (bool * bytes)) in\n %s)." % body)
    known = {}

    def method(name, params, kind, rtype=None, suffix=""):
        fn = meth[name]
        if [a.arg for a in fn.args.args] != ["self"] + [p for p, _ in params]:
            raise Unsupported("signature of %s" % name)
        t = Tr(fn, True, dict(known))
        t.rtype = rtype
        env = dict(params)
        coqt = {"N": "N", "bytes": "bytes", "obytes_or_bytes": "option bytes", "oN": "option N"}
        ps = "".join(" (v_%s : %s)" % (p, coqt[ty]) for p, ty in params)
        nm = name.strip("_") + suffix
        if kind == "pure":
            t.pure = True
            body = t.block(list(fn.body), env, lambda env2: (_ for _ in ()).throw(Unsupported("%s falls off its end" % name)))
            out.append("Definition py_node_%s (nd : py_node)%s : %s :=\n %s."
                       % (nm, ps, {"bool": "bool", "bytes": "bytes", "fvals": "list fval"}[rtype], body))
        elif kind == "node":
            body = t.block(list(fn.body), env, lambda env2: "nd")
            out.append("Definition py_node_%s (nd : py_node)%s : py_node :=\n %s." % (nm, ps, body))
        else:
            body = t.block(list(fn.body), env, lambda env2: "(nd, sg)")
            out.append("Definition py_node_%s (nd : py_node) (sg : py_pm)%s : py_node * py_pm :=\n %s." % (nm, ps, body))
        known[name] = (kind, rtype)

    method("has_tail", [], "pure", "bool")
    method("pack", [], "pure", "bytes")
    method("unpack", [("data", "bytes")], "pure", "fvals")
    method("stem", [], "pure", "bytes")
    method("flag_as_having_tail", [], "node")
    method("set_stem", [("stem", "bytes")], "node")
    # __set_default_data(stem=None)
    fn = meth["_LRUTrieNode__set_default_data"] if "_LRUTrieNode__set_default_data" in meth else meth["__set_default_data"]
    if [a.arg for a in fn.args.args] != ["self", "stem"] or len(fn.args.defaults) != 1 or fn.args.defaults[0].value is not None:
        raise Unsupported("__set_default_data signature")
    t = Tr(fn, True, dict(known))
    t.rtype = None
    body = t.block(list(fn.body), {"stem": "obytes"}, lambda env2: "nd")
    out.append("Definition py_node_set_default_data (nd : py_node) (v_stem : option bytes) : py_node :=\n %s." % body)
    known["__set_default_data"] = ("node", None)
    method("read", [("block", "N")], "io")
    # the same method with an optional block (read(None) continues at the storage cursor): what read_left / read_right /
    # read_child pass when the register holds a value below the first data block
    method("read", [("block", "oN")], "io", suffix="_o")
    method("write", [], "io")
    return out


def main(out):
    pn = os.path.join(REPO, "traph", "lru_trie", "node.py")
    ph = os.path.join(REPO, "traph", "helpers.py")
    tn, th = ast.parse(open(pn).read(), pn), ast.parse(open(ph).read(), ph)
    L = ["(* GENERATED by harness/gen_node.py from %s/traph/lru_trie/node.py and helpers.py -- do not edit *)" % REPO,
         "From Coq Require Import List NArith Bool Arith.", "Import ListNotations.",
         "From Traph Require Import Bytes Consts Layout Codec GenStorage.", "", PREAMBLE]
    L += defs(tn, th)
    text = "\n".join(L) + "\n"
    old = open(out).read() if os.path.exists(out) else None
    if old != text:
        with open(out, "w") as fh:
            fh.write(text)
    return 0


if __name__ == "__main__":
    try:
        sys.exit(main(sys.argv[1]))
    except Unsupported as e:
        print("gen_node: UNSUPPORTED: %s" % e)
        sys.exit(3)
    except (KeyError, AttributeError, IndexError) as e:
        print("gen_node: UNSUPPORTED: unexpected source shape (%s: %s)" % (type(e).__name__, e))
        sys.exit(3)
