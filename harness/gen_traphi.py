#!/venv/bin/python
"""Translate what opening and clearing an index do to the two stores and to the RAM tables (traph/traph.py: the end of
Traph.__init__ from `self.lru_trie = LRUTrie(..)` on, Traph.clear; traph/link_store/header.py: LinkStoreHeader.__init__ /
__ensure / read; the constructors LRUTrie.__init__ and LinkStore.__init__) from the Python AST into Gallina:
coq/theories/GenTraphI.v, regenerated on every run.  Built on the translated LRUTrieHeader (GenTraphW.v), MemoryStorage.clear
(GenStorage.v) and add_webentity_creation_rule (GenTraphZ.v).
  * LinkStoreHeader is the same class as LRUTrieHeader up to its constants: it is translated by the same code after renaming
    LINK_STORE_HEADER_FORMAT / _BLOCKS, and the generated text is renamed back (link_header_format, link_header_blocks, py_lhdr_*);
    both header objects are records with one field `data`;
  * the tail of __init__ and clear are short fixed sequences of statements: each statement must be EXACTLY one of the shapes
    below (anything else is refused) and is emitted as the corresponding Gallina step.  `webentity_creation_rules.items()` is an
    association list in insertion order; `re.compile(pattern, re.I)` is the modelled primitive (a rule kind); the request's
    `debug` mode (which tolerates missing rules and never sets the RAM tables) is not translated: debug = False;
  * NOT translated, but pinned: the head of __init__ (argument checks, folder and file handling, the choice of `create`, the
    corruption check), the on-disk branch of clear (files reopened with 'wb+': assumed to empty them, as MemoryStorage.clear does)
    and close.  They are operating-system glue that the hand-written model and the reopen / clear twin runs cover (C11, C15); the
    translator compares their text with the text the model was written against (a digest below) and refuses any change."""
import ast
import copy
import hashlib
import os
import sys

sys.path.insert(0, os.path.dirname(os.path.abspath(__file__)))
import gen_links as GL       # noqa: E402
import gen_trie as GT        # noqa: E402
import gen_triew as GW       # noqa: E402
import gen_traphw as GWW     # noqa: E402

REPO = os.environ.get("VERIF_REPO", "/repo")
Unsupported = GL.Unsupported

PINNED = "5cfc526d50759ab990ffd6a281ae9c0215977feaeb129c4eb30da28952af5263"

INIT_TAIL = ["self.lru_trie = LRUTrie(self.lru_trie_storage, encoding=encoding)",
             "self.link_store = LinkStore(self.links_store_storage)",
             "if not debug:\n    self.default_webentity_creation_rule = re.compile(default_webentity_creation_rule, re.I)\n"
             "    self.webentity_creation_rules = {}\n    for prefix, pattern in webentity_creation_rules.items():\n"
             "        self.add_webentity_creation_rule(prefix, pattern, create)"]
CLEAR = ["self.close()",
         None,      # the if on self.in_memory, checked apart
         "self.lru_trie = LRUTrie(self.lru_trie_storage, encoding=self.encoding)",
         "self.link_store = LinkStore(self.links_store_storage)",
         "if default_webentity_creation_rule is not None:\n    self.default_webentity_creation_rule = re.compile(default_webentity_creation_rule, re.I)",
         "if webentity_creation_rules is not None:\n    self.webentity_creation_rules = {}\n    for prefix, pattern in webentity_creation_rules.items():\n"
         "        self.add_webentity_creation_rule(prefix, pattern, True)"]

FOLD = (" (fold_left (fun (st : option (py_ram * py_thdr * py_pm)) (v__kv : (bytes * rulekind)) =>\n"
        "   match st with\n   | None => None\n   | Some (rm, hd, sg) =>\n"
        "     let '(v_prefix, v_pattern) := v__kv in\n"
        "     match py_traph_add_webentity_creation_rule v__fuel rm hd sg v_prefix v_pattern %s with\n"
        "     | None => None\n     | Some (rm, hd, sg, _) => Some (rm, hd, sg) end end)\n   %s (Some (rm, hd, sg)))")


def link_header(T):
    ph = os.path.join(REPO, "traph", "link_store", "header.py")
    th = ast.parse(open(ph).read(), ph)
    consts = dict((n.targets[0].id, ast.unparse(n.value)) for n in th.body if isinstance(n, ast.Assign) and isinstance(n.targets[0], ast.Name))
    if consts.get("LINK_STORE_HEADER_BLOCKS") != "1" or consts.get("LINK_STORE_HEADER_TRAPH_VERSION") != "0":
        raise Unsupported("link store header constants")
    c = [n for n in th.body if isinstance(n, ast.ClassDef) and n.name == "LinkStoreHeader"]
    if len(c) != 1:
        raise Unsupported("class LinkStoreHeader")
    HD = dict((n.name, n) for n in c[0].body if isinstance(n, ast.FunctionDef))
    init = HD["__init__"]
    want = ["self.storage = storage", "self.data = [TRAPH_VERSION.encode()] * LINK_STORE_HEADER_BLOCKS", "self.__ensure()", "self.read()"]
    if [a.arg for a in init.args.args] != ["self", "storage"] or [ast.unparse(x) for x in init.body] != want:
        raise Unsupported("LinkStoreHeader.__init__ body")
    if ast.unparse(HD["unpack"].body[-1]) != "return list(struct.unpack(LINK_STORE_HEADER_FORMAT, data))" or len(HD["unpack"].body) != 1:
        raise Unsupported("LinkStoreHeader.unpack")

    class Ren(ast.NodeTransformer):
        def visit_Name(self, n):
            m = {"LINK_STORE_HEADER_FORMAT": "LRU_TRIE_HEADER_FORMAT", "LINK_STORE_HEADER_BLOCKS": "LRU_TRIE_HEADER_BLOCKS"}
            return ast.copy_location(ast.Name(id=m.get(n.id, n.id), ctx=n.ctx), n)

    def back(txt):
        for a, b in (("header_format", "link_header_format"), ("trie_header_blocks", "link_header_blocks"),
                     ("py_thdr_ensure", "py_lhdr_ensure"), ("py_thdr_read", "py_lhdr_read")):
            txt = txt.replace(a, b)
        return txt
    GL.CONSTS["LRU_TRIE_HEADER_BLOCKS"] = ("trie_header_blocks", "N")
    for name, coqname in (("__ensure", "py_lhdr_ensure"), ("read", "py_lhdr_read")):
        fn = HD.get(name) or HD.get("_LinkStoreHeader" + name)
        if fn is None or [a.arg for a in fn.args.args] != ["self"]:
            raise Unsupported("LinkStoreHeader.%s" % name)
        fn = Ren().visit(copy.deepcopy(fn))
        ast.fix_missing_locations(fn)
        f = GWW.FnW(T, fn, "hd", "thdr", True, None)
        f.returns = []
        f.has_sg = True
        f.rcoq = "option (py_thdr * py_pm)"
        body = f.block(list(fn.body), {}, lambda e2: "(Some (hd, sg))")
        T.out.append("Definition %s (hd : py_thdr) (sg : py_pm) : option (py_thdr * py_pm) :=\n %s." % (coqname, back(body)))
    T.out.append("(* LinkStoreHeader.__init__: data = [version] * 1, then __ensure and read *)\n"
                 "Definition py_lhdr_init (sg : py_pm) : option (py_thdr * py_pm) :=\n"
                 " (let hd := th_set_data [VBytes version_bytes] (mk_th []) in\n"
                 " (match py_lhdr_ensure hd sg with\n | None => None\n | Some (hd, sg) => (match py_lhdr_read hd sg with\n | None => None\n"
                 " | Some (hd, sg) => (Some (hd, sg)) end) end)).")


def main(out):
    T, _, TN, LT = GT.build()
    GW.register(T, TN, LT)
    T.out = []
    T.join_calls = False
    link_header(T)
    # ---- the two constructors ----
    if [ast.unparse(x) for x in LT["__init__"].body] != ["self.storage = storage", "self.encoding = encoding", "self.header = LRUTrieHeader(storage)"] \
            or [a.arg for a in LT["__init__"].args.args] != ["self", "storage", "encoding"]:
        raise Unsupported("LRUTrie.__init__ body")
    pl = os.path.join(REPO, "traph", "link_store", "link_store.py")
    LS = GW.cls(ast.parse(open(pl).read(), pl), "LinkStore")
    if [ast.unparse(x) for x in LS["__init__"].body] != ["self.storage = storage", "self.header = LinkStoreHeader(storage)"] \
            or [a.arg for a in LS["__init__"].args.args] != ["self", "storage"]:
        raise Unsupported("LinkStore.__init__ body")
    pm = os.path.join(REPO, "traph", "storage", "memory.py")
    MS = GW.cls(ast.parse(open(pm).read(), pm), "MemoryStorage")
    if [ast.unparse(x) for x in MS["clear"].body] != ["self.array = bytearray()"]:
        raise Unsupported("MemoryStorage.clear body")
    # ---- Traph ----
    p = os.path.join(REPO, "traph", "traph.py")
    tree = ast.parse(open(p).read(), p)
    c = [n for n in tree.body if isinstance(n, ast.ClassDef) and n.name == "Traph"]
    TR = dict((n.name, n) for n in c[0].body if isinstance(n, ast.FunctionDef))
    init = TR["__init__"]
    if ast.unparse(init.args) != ("self, folder=None, overwrite=False, encoding='utf-8', debug=False, default_webentity_creation_rule=None, "
                                  "webentity_creation_rules=None"):
        raise Unsupported("Traph.__init__ signature")
    body = [x for x in init.body if not (isinstance(x, ast.Expr) and isinstance(x.value, ast.Constant))]
    texts = [ast.unparse(x) for x in body]
    if len(texts) < 4 or texts[-3:] != INIT_TAIL:
        raise Unsupported("the end of Traph.__init__: %s" % "\n".join(texts[-3:]))
    clear = TR["clear"]
    if ast.unparse(clear.args) != "self, default_webentity_creation_rule=None, webentity_creation_rules=None":
        raise Unsupported("Traph.clear signature")
    ctexts = [ast.unparse(x) for x in clear.body if not (isinstance(x, ast.Expr) and isinstance(x.value, ast.Constant))]
    if len(ctexts) != len(CLEAR) or any(w is not None and w != t for w, t in zip(CLEAR, ctexts)):
        raise Unsupported("Traph.clear body")
    sw = [x for x in clear.body if isinstance(x, ast.If)][0]
    if ast.unparse(sw.test) != "self.in_memory" or [ast.unparse(x) for x in sw.body] != ["self.lru_trie_storage.clear()", "self.links_store_storage.clear()"]:
        raise Unsupported("Traph.clear: the in-memory branch")
    aw = TR["add_webentity_creation_rule"]
    if [a.arg for a in aw.args.args] != ["self", "rule_prefix", "pattern", "write_in_trie"]:
        raise Unsupported("add_webentity_creation_rule signature")
    # ---- the pinned, hand-modelled glue ----
    pinned = "\n".join(texts[:-3]) + "\n##\n" + "\n".join(ast.unparse(x) for x in sw.orelse) + "\n##\n" + ast.unparse(TR["close"])
    digest = hashlib.sha256(pinned.encode()).hexdigest()
    if os.environ.get("VERIF_PRINT_PIN"):
        print(digest)
    elif digest != PINNED:
        raise Unsupported("the head of Traph.__init__, the on-disk branch of clear or close changed (hand-modelled, pinned text)")
    T.out.append("(* Traph.__init__ from `self.lru_trie = LRUTrie(..)` on (debug = False); the head of __init__ decides v_create and builds the\n"
                 "   two storages *)\n"
                 "Definition py_traph_init_tail (v__fuel : nat) (sg sgl : py_pm) (v_default_webentity_creation_rule : rulekind)\n"
                 " (v_webentity_creation_rules : list (bytes * rulekind)) (v_create : bool) : option (py_ram * py_thdr * py_thdr * py_pm * py_pm) :=\n"
                 " (match py_thdr_init sg with\n | None => None\n | Some (hd, sg) =>\n"
                 " (match py_lhdr_init sgl with\n | None => None\n | Some (lhd, sgl) =>\n"
                 " (let rm := mk_ram [] v_default_webentity_creation_rule in\n"
                 " (match\n%s with\n | None => None\n | Some (rm, hd, sg) => Some (rm, hd, lhd, sg, sgl) end)) end) end)."
                 % (FOLD % ("v_create", "v_webentity_creation_rules")))
    T.out.append("(* Traph.clear (in memory; on disk the files are reopened with 'wb+') *)\n"
                 "Definition py_traph_clear (v__fuel : nat) (rm : py_ram) (sg sgl : py_pm) (v_default_webentity_creation_rule : option rulekind)\n"
                 " (v_webentity_creation_rules : option (list (bytes * rulekind))) : option (py_ram * py_thdr * py_thdr * py_pm * py_pm) :=\n"
                 " (let '(sg, _) := py_pm_clear sg in\n (let '(sgl, _) := py_pm_clear sgl in\n"
                 " (match py_thdr_init sg with\n | None => None\n | Some (hd, sg) =>\n"
                 " (match py_lhdr_init sgl with\n | None => None\n | Some (lhd, sgl) =>\n"
                 " (let rm := (match v_default_webentity_creation_rule with\n | None => rm\n | Some v__d => mk_ram (ram_rules rm) v__d end) in\n"
                 " (match v_webentity_creation_rules with\n | None => Some (rm, hd, lhd, sg, sgl)\n | Some v__rules =>\n"
                 " (let rm := mk_ram [] (ram_dflt rm) in\n"
                 " (match\n%s with\n | None => None\n | Some (rm, hd, sg) => Some (rm, hd, lhd, sg, sgl) end)) end)) end) end)))."
                 % (FOLD % ("true", "v__rules")))
    L = ["(* GENERATED by harness/gen_traphi.py from %s/traph/traph.py, link_store/header.py, link_store/link_store.py, lru_trie/lru_trie.py -- do not edit *)" % REPO,
         "From Coq Require Import List NArith Bool Arith.", "Import ListNotations.",
         "From Traph Require Import Bytes Consts Layout Codec Rules GenStorage GenNode GenLinks GenTrie GenTrieW GenTraphW GenTraphP GenTraphZ.", ""]
    text = "\n".join(L + T.out) + "\n"
    old = open(out).read() if os.path.exists(out) else None
    if old != text:
        with open(out, "w") as fh:
            fh.write(text)
    return 0


if __name__ == "__main__":
    try:
        sys.exit(main(sys.argv[1]))
    except Unsupported as e:
        print("gen_traphi: UNSUPPORTED: %s" % e)
        sys.exit(3)
    except (KeyError, AttributeError, IndexError, TypeError) as e:
        print("gen_traphi: UNSUPPORTED: unexpected source shape (%s: %s)" % (type(e).__name__, e))
        sys.exit(3)
