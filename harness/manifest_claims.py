"""per-property claim texts for MANIFEST.json (imported by mkmanifest.py)"""
N = ("Trusted: Coq 8.16.1 kernel (vm_compute used, no native_compute); no axioms (Print Assumptions of every property theorem says "
     "'Closed under the global context', re-checked on each run); the hand-written Gallina model (Tst/Traph/Traphw/Codec/Storage.v), tied "
     "to /repo by the files regenerated from the source on every run (Consts.v: constants, formats, accessor table; CallGraph.v; "
     "GenHelpers.v / GenHelpers2.v: the pure helpers incl. their loops; GenStorage.v: the two storage classes; GenNode.v: reading and "
     "writing a trie node with its tail blocks; GenLinks.v: the link store node class, add_links and the three list traversals; GenTrie.v: lru_node, windup_lru and the node navigation methods; GenTrieW.v: add_lru, add_page, follow_lru and the walk history; GenTrieD.v: dfs_iter, webentity_dfs_iter, pages_iter, the block scan; GenTraph.v / GenTraphW.v / GenTraphL.v: requests of the public API - each proved equal to the model's definitions) and by this check's correspondence run (extraction: ExtrOcamlBasic only); the translators' Python subset; Python "
     "semantics (bytes order, struct, re, dict order, file I/O) as modelled. Quantifier of the theorems: every configuration (default rule "
     "+ anchored rules of the family), every history of well-formed requests (wf_op: LRUs non-empty and '|'-terminated, ids non-zero). ")
REF = ("Refinement: RefFull.run_R proves that after EVERY history the model state is related (R = Rcore /\\ Rlinks) to the abstract "
       "specification state of Spec.v computed from the same history, with equal replies; the query theorems then say what each read "
       "request answers in terms of that specification. ")
CORR = (" Correspondence on every run: generated histories executed on the real implementation and on the extracted model + "
        "specification; replies, canonicalised answers (and raw bytes where the property is about layout) compared; the specification "
        "oracle judges the implementation directly and a failing history is shrunk into the replay.")


def c(text, technique, ref, note=""):
    return dict(text=text + CORR, note=N + note, technique=technique, ref=ref)


T_REF = "Coq proof: refinement of the tree model to an abstract specification by invariant induction over histories + query theorems; model-vs-implementation differential run with specification oracle"
CLAIMED = {
    "C01": c(REF + "Props/C01.v: pages_iter is a permutation of the specification's page map (no page lost/invented/duplicated, bytes and crawled marks "
             "equal), the two block-scan counts equal its size and crawled count, every reply equals the specification's reply (page counts in "
             "reports), and at specification level a page is added iff new, re-submission only turns the crawled mark on. On the traversal and block scan "
             "translated from the source on every run (GenTrieD.v): pages_iter yields a permutation of the specification's pages, count_pages / "
             "count_crawled_pages return its counts, on the trie file of every reachable state.", T_REF, "DESIGN.md section 6 C01"),
    "C02": c(REF + "Props/C02.v: an LRU is findable iff it is in the specification's known set (stem-prefix closure of every LRU named in a write), the "
             "full traversal lists exactly that set without duplicates, bottom-up reconstruction from the located address returns the LRU; stem "
             "and block codecs round-trip for every stem length (CodecFacts: chunks, pascal string, little-endian registers). On the lookup code translated "
             "from the source on every run (GenTrie.v): lru_node returns exactly the node the tree model finds and windup_lru its path, on the trie file of every reachable state.", T_REF, "DESIGN.md section 6 C02",
             "Byte layout is tied to the source by Consts.v (formats, stem size, flag bits re-proved) and by the raw-bytes comparison of the trie file."),
    "C03": c(REF + "Props/C03.v: get_page_links lists exactly the specification's weighted pairs (weight = number of submissions, out side = in side, "
             "self link once as internal), no duplicates; both link enumerations are the distinct submitted pairs (transposes); the link count is "
             "twice the submissions in stubs. On the link store translated from the source on every run (GenLinks.v): add_links appends exactly the "
             "model's stubs and rewrites the page's block in place; the weighted traversal returns the model's weighted target list on the "
             "store of every reachable state; the translated Traph.get_page_links (GenTraphL.v) answers exactly the specification's weighted pairs "
             "for every history and every switch setting; the translated Traph.add_links (GenTraphK.v) answers the specification's report and leaves "
             "header, trie file and link file of the model's next state (C03_source_traph_add_links).", T_REF, "DESIGN.md section 6 C03"),
    "C04": c(REF + "Props/C04.v: retrieve_webentity / retrieve_prefix equal longest-stem-prefix resolution over the specification's net prefix map for "
             "every well-formed LRU (present or not), refusal iff none; prefix enumeration = that map; attaching an attached prefix is refused "
             "(create and add_prefix), exactly then. On the API requests translated from the source on every run (GenTraph.v over GenTrieW.v / GenTrie.v): "
             "Traph.retrieve_webentity, retrieve_prefix, get_webentity_by_prefix and the prefix enumeration answer the specification's resolution, "
             "on the trie file of every reachable state, without changing a byte; Props/C04b.v and C04_source_create: the translated "
             "create_webentity, add_prefix_to_webentity, remove_prefix_from_webentity, move_prefix_to_webentity and delete_webentity are accepted / "
             "refused exactly as the specification says and leave the file of the model's next state.", T_REF, "DESIGN.md section 6 C04"),
    "C05": c(REF + "Props/C05.v: for any prefix list, the pages returned are (as a permutation) the specification's realm pages: pages under the prefix "
             "with no longer webentity prefix in between; crawled variant = the crawled ones; depth-limited variant too. On the API requests translated "
             "from the source on every run (GenTraph.v over the translated webentity_dfs_iter of GenTrieD.v): get_webentity_pages / "
             "get_webentity_crawled_pages answer a permutation of the specification's pages and are refused exactly when it refuses.", T_REF, "DESIGN.md section 6 C05"),
    "C06": c(REF + "Props/C06.v: get_potential_prefix equals the specification's max(E,K) decision and writes nothing; a page insertion creates exactly "
             "what the specification's ladder dictates (iff the candidate is longer than the existing prefix; one id; the unowned variations); "
             "installing a rule equals re-inserting the pages beneath the anchor (a permutation of them, in the index's order). Props/C06c.v, on the "
             "insertion path translated from the source on every run (GenTraphP.v: Traph.add_page / add_pages / __add_page with the rule ladder, "
             "__create_webentity, the write report; the regex search is the modelled matcher): the translated request's report is the specification's "
             "reply and the files end holding the model's next state, for every history whose reopen requests re-supply the rules; the translated "
             "get_potential_prefix (GenTraphR.v) answers the specification's decision without changing a byte, the translated "
             "remove_webentity_creation_rule is accepted / refused / crashes as the specification says and leaves the model's next RAM table and file; "
             "the translated add_webentity_creation_rule (GenTraphZ.v: the generator dfs_iter translated with a visitor called at every yield, "
             "because the loop body writes the trie) answers the specification's report and leaves the model's next RAM table, header and file "
             "(C06_source_rule_install, through the proof that the lazily reading coroutine run alone is the sequential add_rule).", T_REF, "DESIGN.md section 6 C06",
             "The rule family is modelled in Rules.v (stem-level matcher with re.search offset scan) and compared with Python's re on every run."),
    "C07": c(REF + "Props/C07.v: an entry (A,B,n) is in the network iff n = number of submitted links whose ends resolve to A and B (both resolved; A=B "
             "only with include_auto), n <> 0; inbound = transpose; the memory-light variant has the same entries; page tallies = pages resolving "
             "to A by crawled mark. On the requests translated from the source on every run (GenTraphN.v, GenTraphN2.v: get_webentities_links and the "
             "memory-light get_webentities_links_slow, run alone): the nested dict returned holds, entry by entry, the specification's network in the "
             "direction asked (and, fast variant, its page tallies), for every history and both switches.", T_REF, "DESIGN.md section 6 C07"),
    "C08": c(REF + "Props/C08.v: get_webentity_pagelinks returns exactly the specification's link set for every switch triple (refusal for none), without "
             "duplicates when queried with the webentity's own prefixes; cited/citing sets are the resolution images of the other ends (0 = nowhere). "
             "On the requests translated from the source on every run (GenTraphQ.v): get_webentity_pagelinks / outlinks / inlinks answer the model's "
             "lists, order included, for every history (C08_source_pagelinks, C08_source_neighbours).",
             T_REF, "DESIGN.md section 6 C08"),
    "C09": c("Props/C09.v on every reachable state: the token chain of paginate_webentity_pages terminates, every non-final answer holds exactly k pages "
             "and a token, the last says done, counts match contents, the concatenation is the per-prefix ascending sequence and a permutation of "
             "the unpaginated answer (also crawled-only); resuming a token on any later state reached by writes that keep stems and webentity "
             "marks yields exactly the pages above the token (nothing repeated, none skipped); tokens round-trip through their text. Props/C09s.v, on "
             "the code translated from the source on every run (GenTrieI.v: the recursive ordered traversal; GenTraphG.v: the request): the translated "
             "request returns the model's answer record (pages, counts, done flag, next token) and raises exactly when the model refuses or crashes, "
             "for every history, page size, token string and switch, so the chain theorems are theorems about the translated request.",
             "Coq proof: in-order traversal sortedness, pruning soundness and chunking by induction; differential run following every token", "DESIGN.md section 6 C09"),
    "C10": c("Props/C10.v on every reachable state: the token chain of paginate_webentity_pagelinks terminates, each non-final answer covers exactly k "
             "link-bearing source pages, the concatenation equals (as a permutation) the unpaginated answer for the same switches; tokens issued "
             "after link-less pages resume correctly (defect F3 repaired). Props/C10s.v: the request translated from the source on every run "
             "(GenTraphH.v) returns the model's answer record and raises exactly when the model refuses or crashes, for every history, size, token, switches.",
             "Coq proof: chunking of the in-order link items by induction; differential run following every token", "DESIGN.md section 6 C10"),
    "C11": c("Props/C11.v: reopening changes neither file (byte for byte), re-supplying the current rules makes reopen the identity at any position of "
             "any history (same state, same other replies), both files are whole blocks in every state, clear with rules = fresh index with them, "
             "clear without = files of a fresh index. Props/C11b.v, on the header class translated from the source on every run (GenTraphW.v: "
             "LRUTrieHeader.__init__ / __ensure / read): opening the trie file of any reachable state builds, without changing a byte, the header "
             "object of that state; a new file gets counter 0. Props/C11c.v, on the end of Traph.__init__ and on Traph.clear translated from the source "
             "on every run (GenTraphI.v): reopening changes no byte and builds the RAM tables and header objects of the model's reopen; creating "
             "builds the model's init; clear, whatever the stores held, builds the model's clear = a freshly created index (the head of __init__, "
             "the on-disk branch of clear and close are pinned text, modelled by hand). Runtime part (open flags, buffering): reopen/clear twins on the real implementation.",
             "Coq proof on the model's persistent state + twin runs of the implementation (reopened vs never closed, cleared vs fresh)", "DESIGN.md section 6 C11",
             "Partial for OS page cache / Python buffering, which no model here exhibits."),
    "C12": c("Props/C12.v for EVERY history without clear from ANY state (no well-formedness needed): reported ids strictly increase, all above the header "
             "counter (so above ids of deleted webentities and ids issued before a reopen); one creation request, one id; clear restarts the counter. "
             "Props/C12b.v, on the creation path translated from the source on every run (GenTraphW.v: Traph.create_webentity, __add_prefixes, "
             "__generated_web_entity_id and the LRUTrieHeader object): an accepted creation returns the header counter + 1, one id for all its "
             "prefixes, and that id is what the header block of the file decodes to afterwards, for every history; after the translated Traph.clear "
             "(GenTraphI.v) the header object and the header block hold 0 (C12_source_clear_restarts).",
             "Coq proof: invariant on the header counter by induction over histories; differential run of id sequences across reopen", "DESIGN.md section 6 C12",
             "The 32-bit width of the header field is not modelled (unbounded N)."),
    "C13": c(REF + "Props/C13.v: parents = webentities on proper stem-prefixes, children = webentities on proper extensions (set equality with the "
             "specification), the child query going through the pruned traversal: the invariant R_nochild (a node marked childless has no "
             "webentity below) is preserved by every request, so pruning hides nothing. On the API requests translated from the source on every run "
             "(GenTraph.v over node_parents_iter and the pruned dfs_iter): get_webentity_parent_webentities / get_webentity_child_webentities answer "
             "exactly the specification's sets, on the trie file of every reachable state.", T_REF, "DESIGN.md section 6 C13"),
    "C15": c("Props/C15.v: the file and memory storage machines (Storage.v) return the same results and end with the same contents on every operation "
             "sequence obeying the usage discipline (cursor reads right after reads; positioned writes of one block within the store); memmap "
             "read = positioned read; the discipline is necessary. Index level: the same histories on Traph(folder=None) and Traph(folder) "
             "compared command by command, plus random op sequences on the real storages against both machines, plus FileStorage.map() reads.",
             "Coq bisimulation proof of two storage state machines + twin runs memory vs file", "DESIGN.md section 6 C15",
             "The index-level equivalence is carried by the twin run (the tree model is storage-agnostic)."),
    "C18": c("Props/C18.v: the model's program-ordered write list of every request (Traphw.v, compared write by write with the recorded storage writes "
             "of the implementation) replays the files of the state before into those of the state after; every PREFIX of it leaves files with no "
             "dangling pointer and pointwise below the completed files (same stems, page/crawled bits only added, pointers only filled in, stubs "
             "a prefix); Inv18 holds in every reachable state; the append-then-link order is necessary. Fault enumeration on the implementation: "
             "every cut (block granularity, byte-partial appends, one store missing) is rebuilt, reopened and queried.",
             "Coq proof: replay soundness + safety of every write (pointee before pointer) by induction; fault enumeration over every cut on the real code",
             "DESIGN.md section 6 C18", "Crash model assumed from the property: persistence = a prefix of program order, in-place rewrites atomic, files cut together."),
    "C19": c(REF + "Props/C19.v: the trie store has 1 + sum over the known LRUs of nblk(last stem) blocks (nblk = max 1 ceil(len/74)), the link store two "
             "stubs per submitted link; a request that makes nothing newly known allocates nothing; metrics page figures agree. On the insertion path "
             "translated from the source on every run (GenTrieW.v: LRUTrie.add_lru / add_page over the translated sibling insertion and node write): "
             "the storage ends holding exactly the trie file of the model's next state, for every history and every LRU; the integer figures of the "
             "translated LRUTrie.metrics() (GenTrieM.v, floating-point averages sliced away) are the model's, its page figures the specification's "
             "(C19_source_metrics).", T_REF, "DESIGN.md section 6 C19"),
    "C20": c(REF + "Props/C20.v: the answer has min(k, n) entries among the webentity's pages within the depth limit, in non-increasing order, no omitted "
             "page has a larger reported indegree, reported indegree = distinct in-sources except that 0 is reported as 1 (defect F7: "
             "C20_zero_reported_one / C20_refuted_F7; the model mirrors the code, the oracle separates this known finding from any other). On the "
             "request translated from the source on every run (GenTraphM.v; heapq modelled as a priority queue): it returns the model's answer list, "
             "order included, for every history (C20_source_most_linked); F7 read off the translated code (C20_source_F7).",
             T_REF, "DESIGN.md section 6 C20", "Known finding F7 (known_findings.json): true indegree 0 reported as 1, pinned by the repository's own test."),
}
CLAIMED["C16"] = c(
    "Props/C16.v, C16b.v, C16c.v (SchedFacts*.v, SchedRefute.v) on the coroutine model of the generator requests (Sched.v: one step = the "
    "code between two yields, with the generator's local caches, traversal stacks of block addresses and node data read before a yield; "
    "five kinds: crawl batch, rule installation, page query, network query, page-link query): a batch run alone equals the request, and the "
    "request translated from the source with its sequential meaning (GenTraphB.v, Props/C16s.v) answers the specification's report and "
    "leaves the model's next files; the lazily reading rule-installation coroutine advanced alone equals the sequential request "
    "(C16_rule_alone), and each of the three query coroutines advanced alone yields exactly the sequential answer, order and refusal "
    "included (C16_pages_query_alone, C16_network_query_alone, C16_pagelinks_query_alone); for ANY "
    "mix of these jobs advanced by ANY schedule from any state related to the specification, the invariants (well-formed tree, addresses, "
    "stub chains, Rcore) hold at every intermediate state (C16_invariant_rules) and, once all are done, the pages with crawled marks are "
    "those of the batches applied one after another, the out- and in-chains of every page are permutations of the sequential ones, in = "
    "transpose of out (C16_schedule_independent_rules); the page query is sandwiched (C16_sandwich_partial: every item appended is, at that "
    "moment, a page under one of its prefixes; C16_sandwich_complete: a page present at its first step and qualifying at the end is in the "
    "answer); the page-link query keeps its invariant under every schedule, appends only stored links whose other end resolves as the clause "
    "says at that moment, and reports every link that qualified under one clause throughout (C16_plinks_sandwich_partial, "
    "C16_plinks_complete_internal / _outbound / _inbound); "
    "the network query reports every edge sustained by one page link throughout (C16_network_lower). "
    "For the network query and the outbound/inbound clauses of the page-link query the clause 'no item that qualified at no moment' "
    "is REFUTED (C16_network_upper_clause_refuted, C16_pagelinks_outbound_clause_refuted: witnesses replayed on /repo, findings F10, F11). "
    "'No request fails', the stale-copy hazards and every sandwich clause are also checked by running the real generators, every loop "
    "iteration a yield point, under random and enumerated schedules against the coroutine model (replies and bytes compared) and against "
    "the uninterrupted query run at every moment of the schedule.",
    "Coq proof: schedule independence by a per-step invariant with ghost link lists, query sandwich, refutation witnesses by vm_compute; "
    "schedule exploration of the real generators",
    "DESIGN.md section 6 C16",
    "Known findings F10, F11 (known_findings.json). Cooperative single-threaded scheduling only (as the property states).")
PENDING = {}
