#!/venv/bin/python
"""Translate the most-linked-pages request of the public API (traph/traph.py: Traph.get_webentity_most_linked_pages(_iter)) from
the Python AST into Gallina: coq/theories/GenTraphM.v, regenerated on every run.  Built on the translated lru_node (GenTrie.v),
webentity_dfs_iter (GenTrieD.v), the weighted link traversal (GenLinks.v) and the node accessors of GenTraphL.v.
  * `heapq` on the list `pages` of tuples (indegree, c, lru) - c a counter, so no two entries are equal on their first two
    components and the byte strings are never compared - is the MODELLED priority queue py_heappush / py_heappop (an
    ascending list: push = ordered insertion, pop = the least entry; popping an empty heap raises): a primitive of the
    translation, like the regex matcher; which internal array heapq keeps is not observable through pops.
  * the final idiom
        sorted_pages = list(range(len(pages))); i = len(pages) - 1
        while len(pages): page = heapq.heappop(pages); sorted_pages[i] = {"lru": page[2], "indegree": page[0]}; i -= 1
    (checked textually) fills the answer from its end with the successive least entries: the entries in DESCENDING order,
    each as (lru, indegree): py_heap_drain_desc.
  * `for _ in self.link_store.weighted_link_nodes_iter(node.inlinks()): indegree += 1` counts the items of the translated
    traversal started at the page's in-head WITHOUT a has_inlinks() test: with head 0 the traversal reads the header block of the
    link store as if it were a stub (known finding F7; GenTraphMFacts.v derives `indegree 1` for a page nobody links to from
    the translated code and the bytes of the header).
  * generator requests get their sequential meaning (see gen_traph.py); the items of webentity_dfs_iter are computed first (the
    body only reads: see gen_traphq.py)."""
import ast
import os
import sys

sys.path.insert(0, os.path.dirname(os.path.abspath(__file__)))
import gen_links as GL       # noqa: E402
import gen_trie as GT        # noqa: E402
import gen_triew as GW       # noqa: E402
import gen_tried as GD       # noqa: E402
import gen_traphq as GQ      # noqa: E402

REPO = os.environ.get("VERIF_REPO", "/repo")
Unsupported = GL.Unsupported

GL.COQT.update({"heap": "list (N * N * bytes)", "ranked": "list (bytes * N)"})

PREAMBLE = r"""(* heapq on tuples (indegree, c, lru) with distinct (indegree, c): a priority queue kept as an ascending list *)
Definition py_heap_lt (x y : N * N * bytes) : bool :=
  let '(a, b, _) := x in let '(c, d, _) := y in (N.ltb a c) || ((N.eqb a c) && (N.ltb b d)).
Fixpoint py_heappush (x : N * N * bytes) (h : list (N * N * bytes)) : list (N * N * bytes) :=
  match h with
  | [] => [x]
  | y :: h' => if py_heap_lt x y then x :: h else y :: py_heappush x h'
  end.
Definition py_heappop (h : list (N * N * bytes)) : option (N * N * bytes * list (N * N * bytes)) :=
  match h with [] => None | x :: h' => Some (x, h') end.
(* the final loop: successive least entries written from the end of the answer = the entries in descending order *)
Definition py_heap_drain_desc (h : list (N * N * bytes)) : list (bytes * N) :=
  map (fun x => let '(dg, _, lru) := x in (lru, dg)) (rev h).
"""

DRAIN = ["sorted_pages = list(range(len(pages)))", "i = len(pages) - 1",
         "while len(pages):\n    page = heapq.heappop(pages)\n    sorted_pages[i] = {'lru': page[2], 'indegree': page[0]}\n    i -= 1"]


class FnM(GQ.FnQ):
    def expr(self, e, env):
        if isinstance(e, ast.Compare) and len(e.ops) == 1 and isinstance(e.ops[0], ast.Gt):
            a, ta = self.expr(e.left, env)
            b, tb = self.expr(e.comparators[0], env)
            if ta == "N" and tb == "N":
                return "(N.ltb %s %s)" % (b, a), "bool"
        if isinstance(e, ast.Call) and isinstance(e.func, ast.Name) and e.func.id == "len" and len(e.args) == 1 \
                and isinstance(e.args[0], ast.Name) and env.get(e.args[0].id) == "heap":
            return "(N.of_nat (length v_%s))" % e.args[0].id, "N"
        return GQ.FnQ.expr(self, e, env)

    def block(self, stmts, env, k):
        if stmts:
            s, rest = stmts[0], stmts[1:]
            nxt = lambda env2=None: self.block(rest, env if env2 is None else env2, k)          # noqa: E731
            if [ast.unparse(x) for x in stmts[:3]] == DRAIN and env.get("pages") == "heap":
                return "(let v_sorted_pages := py_heap_drain_desc v_pages in\n %s)" % self.block(stmts[3:], dict(env, sorted_pages="ranked"), k)
            if isinstance(s, ast.Assign) and len(s.targets) == 1 and isinstance(s.targets[0], ast.Name):
                n, v = s.targets[0].id, s.value
                if isinstance(v, ast.List) and not v.elts and self.decl.get(n) == "heap":
                    return "(let v_%s := (@nil (N * N * bytes)) in\n %s)" % (n, nxt(dict(env, **{n: "heap"})))
            if isinstance(s, ast.Expr) and isinstance(s.value, ast.Call) and ast.unparse(s.value.func) == "heapq.heappush" \
                    and len(s.value.args) == 2 and isinstance(s.value.args[0], ast.Name) and env.get(s.value.args[0].id) == "heap" \
                    and isinstance(s.value.args[1], ast.Tuple) and len(s.value.args[1].elts) == 3:
                parts = [self.expr(x, env) for x in s.value.args[1].elts]
                if [t for _, t in parts] != ["N", "N", "bytes"]:
                    raise Unsupported("heap entry")
                hname = s.value.args[0].id
                return "(let v_%s := py_heappush (%s, %s, %s) v_%s in\n %s)" % (hname, parts[0][0], parts[1][0], parts[2][0], hname, nxt())
            if isinstance(s, ast.If) and not s.orelse and len(s.body) == 1 and ast.unparse(s.body[0]) == "heapq.heappop(pages)" \
                    and env.get("pages") == "heap":
                c, tc = self.expr(s.test, env)
                return ("(match (if %s\n then (match py_heappop v_pages with None => None | Some (_, v__h) => Some v__h end)\n else Some v_pages) with\n"
                        " | None => %s\n | Some v_pages => %s end)" % (c, self.fail(), nxt()))
        return GQ.FnQ.block(self, stmts, env, k)

    def qstate(self, body, env, outer):
        pat, ty, pack = GQ.FnQ.qstate(self, body, env, outer)
        # the heap and the two counters are state of the loops as well
        names = []
        for n in ast.walk(ast.Module(body=list(body), type_ignores=[])):
            if isinstance(n, ast.AugAssign) and isinstance(n.target, ast.Name):
                names.append(n.target.id)
            if isinstance(n, ast.Call) and ast.unparse(n.func) in ("heapq.heappush", "heapq.heappop") and isinstance(n.args[0], ast.Name):
                names.append(n.args[0].id)
        names = sorted(set(x for x in names if x in outer))
        base = [] if pat == "sg" else [x.strip() for x in pat.strip("()").split(",")][1:]
        allv = ["sg"] + sorted(set(base + ["v_%s" % x for x in names]))
        types = ["py_pm"] + [GL.COQT[outer[v[2:]]] for v in allv[1:]]
        pat2 = "(" + ", ".join(allv) + ")" if len(allv) > 1 else "sg"
        ty2 = "(" + " * ".join(types) + ")" if len(types) > 1 else "py_pm"

        def pack2(e2):
            out = ["sg"] + [self.coerce(v, e2[v[2:]], outer[v[2:]]) for v in allv[1:]]
            return "(Some %s)" % ("(" + ", ".join(out) + ")" if len(out) > 1 else "sg")
        return pat2, ty2, pack2

    def forloop(self, s, env, nxt):
        it = s.iter
        if isinstance(it, ast.Call) and ast.unparse(it.func) == "self.link_store.weighted_link_nodes_iter" and isinstance(s.target, ast.Name) \
                and len(it.args) == 1 and not it.keywords and not s.orelse:
            # for _ in <weighted traversal>: indegree += 1   (the items themselves are not used)
            b, tb = self.expr(it.args[0], env)
            if tb != "N" or s.target.id != "_" or len(s.body) != 1 or not isinstance(s.body[0], ast.AugAssign) \
                    or not isinstance(s.body[0].target, ast.Name) or env.get(s.body[0].target.id) != "N" \
                    or ast.unparse(s.body[0].value) != "1" or not isinstance(s.body[0].op, ast.Add):
                raise Unsupported("counting loop shape")
            cn = s.body[0].target.id
            return ("(match py_ls_weighted_link_nodes_iter sgl %s with\n | None => %s\n | Some v__stubs =>\n"
                    " (let v_%s := fold_left (fun (v__n : N) (_ : (option N * N)) => N.add v__n 1%%N) v__stubs v_%s in\n %s) end)"
                    % (b, self.fail(), cn, cn, nxt()))
        return GQ.FnQ.forloop(self, s, env, nxt)


def main(out):
    T, _, TN, LT = GT.build()
    GW.register(T, TN, LT)
    GD.register(T, LT)
    T.sigs[("tstore", "lru_node")] = {"kind": "tfn", "params": [("lru", "bytes", None)], "rtype": "otnode", "coq": "py_trie_lru_node"}
    T.out = []
    T.join_calls = False
    for name, coq in (("has_outlinks", "bool"), ("has_inlinks", "bool"), ("outlinks", "N"), ("inlinks", "N")):
        T.method(TN, "tnode", name, [], "pure", coq)
    T.out = []            # defined in GenTraphL.v
    p = os.path.join(REPO, "traph", "traph.py")
    src = open(p).read()
    tree = ast.parse(src, p)
    if "import heapq" not in src:
        raise Unsupported("heapq import")
    c = [n for n in tree.body if isinstance(n, ast.ClassDef) and n.name == "Traph"]
    TR = dict((n.name, n) for n in c[0].body if isinstance(n, ast.FunctionDef))
    enc = TR.get("__encode")
    if enc is None or [ast.unparse(x) for x in enc.body] != ["if isinstance(string, bytes):\n    return string", "return string.encode(self.encoding)"]:
        raise Unsupported("Traph.__encode body")
    init_src = ast.unparse(TR["__init__"])
    if "self.lru_trie = LRUTrie(self.lru_trie_storage, encoding=encoding)" not in init_src \
            or "self.link_store = LinkStore(self.links_store_storage)" not in init_src:
        raise Unsupported("Traph.__init__: lru_trie / link_store")
    pi = os.path.join(REPO, "traph", "traph_iterator_state.py")
    ti = [ast.unparse(n) for n in ast.parse(open(pi).read(), pi).body if isinstance(n, (ast.ClassDef, ast.FunctionDef))]
    if len(ti) != 2 or ti[1] != "def run_iterator(iterator):\n    for state in iterator:\n        pass\n    return state.result" \
            or "def finalize(self, result):\n        self.done = True\n        self.result = result\n        return self" not in ti[0]:
        raise Unsupported("traph_iterator_state.py")
    name = "get_webentity_most_linked_pages"
    params = [("weid", "N"), ("prefixes", "listB"), ("pages_count", "N"), ("max_depth", "oN")]
    it = TR[name + "_iter"]
    if [a.arg for a in it.args.args] != ["self"] + [q[0] for q in params] or [ast.unparse(d) for d in it.args.defaults] != ["10", "None"]:
        raise Unsupported("%s_iter signature" % name)
    w = TR[name]
    want = "return run_iterator(self.get_webentity_most_linked_pages_iter(weid, prefixes, pages_count=pages_count, max_depth=max_depth))"
    if len(w.body) != 1 or ast.unparse(w.body[0]) != want or [ast.unparse(d) for d in w.args.defaults] != ["10", "None"]:
        raise Unsupported("%s body" % name)
    f = FnM(T, it, None, "traph", True, "ranked", decl={"pages": "heap"})
    f.returns = ["sg"]
    f.has_sg = True
    f.tnode_storage = "sg"
    f.rcoq = "option (py_pm * list (bytes * N))"
    body = f.block(list(it.body), dict(params), lambda e2: (_ for _ in ()).throw(Unsupported("%s_iter falls off its end" % name)))
    ps = "".join(" (v_%s : %s)" % (q[0], GL.COQT[q[1]]) for q in params)
    T.out.append("Definition py_traph_%s (sg sgl : py_pm)%s : option (py_pm * list (bytes * N)) :=\n %s." % (name, ps, body))
    L = ["(* GENERATED by harness/gen_traphm.py from %s/traph/traph.py -- do not edit *)" % REPO,
         "From Coq Require Import List NArith Bool Arith.", "Import ListNotations.",
         "From Traph Require Import Bytes Consts Layout Codec GenStorage GenNode GenLinks GenTrie GenTrieW GenTrieD GenTraphL.", "", PREAMBLE]
    text = "\n".join(L + T.out) + "\n"
    old = open(out).read() if os.path.exists(out) else None
    if old != text:
        with open(out, "w") as fh:
            fh.write(text)
    return 0


if __name__ == "__main__":
    try:
        sys.exit(main(sys.argv[1]))
    except Unsupported as e:
        print("gen_traphm: UNSUPPORTED: %s" % e)
        sys.exit(3)
    except (KeyError, AttributeError, IndexError, TypeError) as e:
        print("gen_traphm: UNSUPPORTED: unexpected source shape (%s: %s)" % (type(e).__name__, e))
        sys.exit(3)
