#!/venv/bin/python
"""Translate the resolution requests of the public API (traph/traph.py: Traph.retrieve_prefix, retrieve_webentity,
get_webentity_by_prefix) from the Python AST into Gallina: coq/theories/GenTraph.v, regenerated on every run.  They are
thin layers over LRUTrie.follow_lru / lru_node (GenTrieW.v / GenTrie.v, whose signature tables are rebuilt here).
  * `lru = self.__encode(lru)`: Traph.__encode is checked textually (`if isinstance(string, bytes): return string` then
    `return string.encode(self.encoding)`): on a bytes argument - what the model and the theorems talk about - it is the
    identity; text arguments are exercised by the correspondence harness only.
  * `raise TraphException(..)`: the function returns None (the message is not modelled).
  * truthiness: `not <bytes>` = empty, `not <optional int>` = None or 0, `not <optional node>` = None.
  * `self.lru_trie.<method>(..)` is a call of the translated LRUTrie method on the trie storage.
GenTraphFacts.v proves each equal to the model's Traph.retrieve_prefix / retrieve_webentity / webentity_by_prefix on the
trie file of every reachable state; Props/C04.v restates C04 for the translated functions."""
import ast
import os
import sys

sys.path.insert(0, os.path.dirname(os.path.abspath(__file__)))
import gen_links as GL       # noqa: E402
import gen_trie as GT        # noqa: E402
import gen_triew as GW       # noqa: E402

REPO = os.environ.get("VERIF_REPO", "/repo")
Unsupported = GL.Unsupported


class FnT(GL.Fn):
    def expr(self, e, env):
        if isinstance(e, ast.UnaryOp) and isinstance(e.op, ast.Not):
            if isinstance(e.operand, ast.Name) and env.get(e.operand.id) == "otnode":
                return "(match v_%s with None => true | Some _ => false end)" % e.operand.id, "bool"
            a, ta = self.expr(e.operand, env)
            if ta == "bytes":
                return "(negb (py_nonempty %s))" % a, "bool"
            if ta == "oN":
                return "(match %s with None => true | Some v__w => N.eqb v__w 0%%N end)" % a, "bool"
            if ta == "bool":
                return "(negb %s)" % a, "bool"
            raise Unsupported("not of %s" % ta)
        return GL.Fn.expr(self, e, env)

    def cond(self, t, env, kt, kf):
        if isinstance(t, ast.UnaryOp) and isinstance(t.op, ast.Not) and isinstance(t.operand, ast.Name) and env.get(t.operand.id) == "otnode":
            n = t.operand.id
            return "(match v_%s with\n | None => %s\n | Some v_%s => %s end)" % (n, kt(dict(env)), n, kf(dict(env, **{n: "tnode"})))
        return GL.Fn.cond(self, t, env, kt, kf)

    def block(self, stmts, env, k):
        if stmts:
            s, rest = stmts[0], stmts[1:]
            if isinstance(s, ast.Expr) and isinstance(s.value, ast.Constant) and isinstance(s.value.value, str):
                return self.block(rest, env, k)
            if isinstance(s, ast.Assign) and len(s.targets) == 1 and isinstance(s.targets[0], ast.Name) \
                    and isinstance(s.value, ast.Call) and ast.unparse(s.value.func) == "self.__encode" and len(s.value.args) == 1 \
                    and isinstance(s.value.args[0], ast.Name) and env.get(s.value.args[0].id) == "bytes" and not s.value.keywords:
                # x = self.__encode(y) on bytes: the identity (checked in main)
                return "(let v_%s := v_%s in\n %s)" % (s.targets[0].id, s.value.args[0].id,
                                                      self.block(rest, dict(env, **{s.targets[0].id: "bytes"}), k))
            if isinstance(s, ast.Return) and s.value is not None and self.rtype == "N":
                a, ta = self.expr(s.value, env)
                if ta == "oN":
                    # the integer itself is returned: None here would be returned as None, which no caller of these requests
                    # distinguishes from a number; the branch is unreachable after the truthiness test above it
                    return "(match %s with\n | None => %s\n | Some v__x => %s end)" % (a, self.fail(), self.ret("v__x", env))
        return GL.Fn.block(self, stmts, env, k)

    def call_stmt(self, c, target, env, nxt):
        f = c.func
        if isinstance(f, ast.Attribute) and ast.unparse(f.value) == "self.lru_trie":
            sig = self.tr.sigs.get(("tstore", f.attr))
            if sig is None or sig["kind"] != "tfn" or target is None:
                raise Unsupported("call of lru_trie.%s" % f.attr)
            args = self.args(c, sig, env)
            if isinstance(target, tuple):
                if not sig["rtype"].startswith("pair:"):
                    raise Unsupported("tuple target for %s" % f.attr)
                _, t1, t2 = sig["rtype"].split(":")
                pat = "(v_%s, v_%s)" % target
                env2 = dict(env, **{target[0]: t1, target[1]: t2})
            else:
                pat = "v_%s" % target
                env2 = dict(env, **{target: sig["rtype"]})
            return "(match %s sg%s with\n | None => %s\n | Some (sg, %s) => %s end)" % (
                sig["coq"], "".join(" " + x for x in args), self.fail(), pat, nxt(env2))
        return GL.Fn.call_stmt(self, c, target, env, nxt)


def api_fn(T, TR, name, params, rtype, rcoq):
    fn = TR[name]
    if [a.arg for a in fn.args.args] != ["self"] + [p[0] for p in params] or fn.args.defaults or fn.args.vararg or fn.args.kwarg:
        raise Unsupported("%s signature" % name)
    f = FnT(T, fn, None, "traph", True, rtype)
    f.returns = ["sg"]
    f.has_sg = True
    f.rcoq = "option (py_pm * %s)" % rcoq
    body = f.block(list(fn.body), dict((p[0], p[1]) for p in params),
                   lambda e2: (_ for _ in ()).throw(Unsupported("%s falls off its end" % name)))
    ps = "".join(" (v_%s : %s)" % (p[0], GL.COQT[p[1]]) for p in params)
    T.out.append("Definition py_traph_%s (sg : py_pm)%s : option (py_pm * %s) :=\n %s." % (name, ps, rcoq, body))


def main(out):
    T, _, TN, LT = GT.build()
    GW.register(T, TN, LT)
    T.sigs[("tstore", "lru_node")] = {"kind": "tfn", "params": [("lru", "bytes", None)], "rtype": "otnode", "coq": "py_trie_lru_node"}
    T.out = []
    p = os.path.join(REPO, "traph", "traph.py")
    tree = ast.parse(open(p).read(), p)
    c = [n for n in tree.body if isinstance(n, ast.ClassDef) and n.name == "Traph"]
    if len(c) != 1:
        raise Unsupported("class Traph")
    TR = dict((n.name, n) for n in c[0].body if isinstance(n, ast.FunctionDef))
    enc = TR.get("__encode") or TR.get("_Traph__encode")
    if enc is None or [ast.unparse(x) for x in enc.body] != ["if isinstance(string, bytes):\n    return string", "return string.encode(self.encoding)"] \
            or [a.arg for a in enc.args.args] != ["self", "string"]:
        raise Unsupported("Traph.__encode body")
    # the trie the API methods use is the one built on the trie storage
    init_src = ast.unparse(TR["__init__"])
    if "self.lru_trie = LRUTrie(self.lru_trie_storage, encoding=encoding)" not in init_src:
        raise Unsupported("Traph.__init__: lru_trie")
    L = ["(* GENERATED by harness/gen_traph.py from %s/traph/traph.py -- do not edit *)" % REPO,
         "From Coq Require Import List NArith Bool Arith.", "Import ListNotations.",
         "From Traph Require Import Bytes Consts Layout Codec GenStorage GenNode GenTrie GenTrieW.", ""]
    api_fn(T, TR, "retrieve_prefix", [("lru", "bytes", None)], "bytes", "bytes")
    api_fn(T, TR, "retrieve_webentity", [("lru", "bytes", None)], "N", "N")
    api_fn(T, TR, "get_webentity_by_prefix", [("prefix", "bytes", None)], "N", "N")
    text = "\n".join(L + T.out) + "\n"
    old = open(out).read() if os.path.exists(out) else None
    if old != text:
        with open(out, "w") as fh:
            fh.write(text)
    return 0


if __name__ == "__main__":
    try:
        sys.exit(main(sys.argv[1]))
    except Unsupported as e:
        print("gen_traph: UNSUPPORTED: %s" % e)
        sys.exit(3)
    except (KeyError, AttributeError, IndexError, TypeError) as e:
        print("gen_traph: UNSUPPORTED: unexpected source shape (%s: %s)" % (type(e).__name__, e))
        sys.exit(3)
