#!/venv/bin/python
"""Translate the resolution requests of the public API (traph/traph.py: Traph.retrieve_prefix, retrieve_webentity,
get_webentity_by_prefix) from the Python AST into Gallina: coq/theories/GenTraph.v, regenerated on every run.  They are
thin layers over LRUTrie.follow_lru / lru_node (GenTrieW.v / GenTrie.v, whose signature tables are rebuilt here).
  * `lru = self.__encode(lru)`: Traph.__encode is checked textually (`if isinstance(string, bytes): return string` then
    `return string.encode(self.encoding)`): on a bytes argument - what the model and the theorems talk about - it is the
    identity; text arguments are exercised by the correspondence harness only.
  * `raise TraphException(..)`: the function returns None (the message is not modelled).
  * truthiness: `not <bytes>` = empty, `not <optional int>` = None or 0, `not <optional node>` = None.
  * `self.lru_trie.<method>(..)` is a call of the translated LRUTrie method on the trie storage.
Also the per-webentity enumerations: webentity_page_nodes_iter, get_webentity_pages(_iter), get_webentity_crawled_pages(_iter),
get_webentity_parent_webentities, get_webentity_child_webentities(_iter), over the translated traversals of GenTrieD.v:
  * `for prefix in prefixes:` is a fold in the option monad (a prefix that is not in the trie raises: None);
  * `for node, lru in self.lru_trie.<generator>(..):` runs the translated generator, then folds its items through the body
    (which may not touch the storage);
  * the iterator protocol of the generator requests is given its sequential meaning: `state = TraphIteratorState()` and
    `if state.should_yield(k): yield state` are scheduling points without effect when the request runs alone (class and
    run_iterator are checked textually), `yield state.finalize(x)` ends the request with x, and
    `return run_iterator(self.<m>_iter(..))` is the request <m>_iter run to its end;
  * `{"lru": a, "crawled": b}` is the pair (a, b); `set()` of webentity ids is a list without repetition in insertion order
    (`list(weids)`: the order of a Python set is not modelled; the theorems speak of its elements).
GenTraphFacts.v proves each equal to the model's Traph.retrieve_prefix / retrieve_webentity / webentity_by_prefix on the
trie file of every reachable state; Props/C04.v restates C04 for the translated functions."""
import ast
import os
import sys

sys.path.insert(0, os.path.dirname(os.path.abspath(__file__)))
import gen_links as GL       # noqa: E402
import gen_trie as GT        # noqa: E402
import gen_triew as GW       # noqa: E402
import gen_tried as GD       # noqa: E402

REPO = os.environ.get("VERIF_REPO", "/repo")
Unsupported = GL.Unsupported


class FnT(GD.FnD):
    def expr0(self, e, env):
        if isinstance(e, ast.UnaryOp) and isinstance(e.op, ast.Not):
            if isinstance(e.operand, ast.Name) and env.get(e.operand.id) == "otnode":
                return "(match v_%s with None => true | Some _ => false end)" % e.operand.id, "bool"
            a, ta = self.expr(e.operand, env)
            if ta == "bytes":
                return "(negb (py_nonempty %s))" % a, "bool"
            if ta == "oN":
                return "(match %s with None => true | Some v__w => N.eqb v__w 0%%N end)" % a, "bool"
            if ta == "bool":
                return "(negb %s)" % a, "bool"
            raise Unsupported("not of %s" % ta)
        return GD.FnD.expr(self, e, env)

    def cond(self, t, env, kt, kf):
        if isinstance(t, ast.UnaryOp) and isinstance(t.op, ast.Not) and isinstance(t.operand, ast.Name) and env.get(t.operand.id) == "otnode":
            n = t.operand.id
            return "(match v_%s with\n | None => %s\n | Some v_%s => %s end)" % (n, kt(dict(env)), n, kf(dict(env, **{n: "tnode"})))
        return GD.FnD.cond(self, t, env, kt, kf)

    def block0(self, stmts, env, k):
        if stmts:
            s, rest = stmts[0], stmts[1:]
            if isinstance(s, ast.Expr) and isinstance(s.value, ast.Constant) and isinstance(s.value.value, str):
                return self.block(rest, env, k)
            if isinstance(s, ast.Assign) and len(s.targets) == 1 and isinstance(s.targets[0], ast.Name) \
                    and isinstance(s.value, ast.Call) and ast.unparse(s.value.func) == "self.__encode" and len(s.value.args) == 1 \
                    and isinstance(s.value.args[0], ast.Name) and env.get(s.value.args[0].id) == "bytes" and not s.value.keywords:
                # x = self.__encode(y) on bytes: the identity (checked in main)
                return "(let v_%s := v_%s in\n %s)" % (s.targets[0].id, s.value.args[0].id,
                                                      self.block(rest, dict(env, **{s.targets[0].id: "bytes"}), k))
            if isinstance(s, ast.Return) and s.value is not None and self.rtype == "N":
                a, ta = self.expr(s.value, env)
                if ta == "oN":
                    # the integer itself is returned: None here would be returned as None, which no caller of these requests
                    # distinguishes from a number; the branch is unreachable after the truthiness test above it
                    return "(match %s with\n | None => %s\n | Some v__x => %s end)" % (a, self.fail(), self.ret("v__x", env))
        return GD.FnD.block(self, stmts, env, k)

    def call_stmt0(self, c, target, env, nxt):
        f = c.func
        if isinstance(f, ast.Attribute) and ast.unparse(f.value) == "self.lru_trie":
            sig = self.tr.sigs.get(("tstore", f.attr))
            if sig is None or sig["kind"] != "tfn" or target is None:
                raise Unsupported("call of lru_trie.%s" % f.attr)
            args = self.args(c, sig, env)
            if isinstance(target, tuple):
                if not sig["rtype"].startswith("pair:"):
                    raise Unsupported("tuple target for %s" % f.attr)
                _, t1, t2 = sig["rtype"].split(":")
                pat = "(v_%s, v_%s)" % target
                env2 = dict(env, **{target[0]: t1, target[1]: t2})
            else:
                pat = "v_%s" % target
                env2 = dict(env, **{target: sig["rtype"]})
            return "(match %s sg%s with\n | None => %s\n | Some (sg, %s) => %s end)" % (
                sig["coq"], "".join(" " + x for x in args), self.fail(), pat, nxt(env2))
        return GD.FnD.call_stmt(self, c, target, env, nxt)

    # ---------- the iterator protocol, dict literals, loops over prefixes and over generators ----------
    def expr(self, e, env):   # noqa: F811  (extends the definition above)
        if isinstance(e, ast.Dict) and [ast.unparse(k) for k in e.keys] == ["'lru'", "'crawled'"]:
            a, ta = self.expr(e.values[0], env)
            b, tb = self.expr(e.values[1], env)
            if (ta, tb) != ("bytes", "bool"):
                raise Unsupported("page dict of %s, %s" % (ta, tb))
            return "(%s, %s)" % (a, b), "pagerec"
        if isinstance(e, ast.BoolOp) and isinstance(e.op, ast.And) and isinstance(e.values[0], ast.Name) and env.get(e.values[0].id) == "oN":
            # x and <tests on x>: x is None or 0 -> false
            n = e.values[0].id
            rest = [self.expr(v, dict(env, **{n: "N"})) for v in e.values[1:]]
            if any(t != "bool" for _, t in rest):
                raise Unsupported("and of non-booleans")
            return "(match v_%s with None => false | Some v_%s => (negb (N.eqb v_%s 0%%N))%s end)" % (
                n, n, n, "".join(" && " + a for a, _ in rest)), "bool"
        return self.expr0(e, env)

    def block(self, stmts, env, k):   # noqa: F811
        if stmts:
            s, rest = stmts[0], stmts[1:]
            if isinstance(s, ast.Assign) and len(s.targets) == 1 and isinstance(s.targets[0], ast.Name) \
                    and ast.unparse(s.value) == "TraphIteratorState()":
                return self.block(rest, dict(env, **{s.targets[0].id: "itstate"}), k)
            if isinstance(s, ast.If) and not s.orelse and len(s.body) == 1 and isinstance(s.test, ast.Call) \
                    and isinstance(s.test.func, ast.Attribute) and s.test.func.attr == "should_yield" \
                    and isinstance(s.test.func.value, ast.Name) and env.get(s.test.func.value.id) == "itstate" \
                    and ast.unparse(s.body[0]) == "yield %s" % s.test.func.value.id:
                return self.block(rest, env, k)             # a scheduling point
            if isinstance(s, ast.Expr) and isinstance(s.value, ast.Yield) and isinstance(s.value.value, ast.Call) \
                    and isinstance(s.value.value.func, ast.Attribute) and s.value.value.func.attr == "finalize" \
                    and isinstance(s.value.value.func.value, ast.Name) and env.get(s.value.value.func.value.id) == "itstate" \
                    and len(s.value.value.args) == 1 and not rest and self.loop_k is None:
                a, ta = self.expr(s.value.value.args[0], env)
                return self.ret(self.coerce(a, ta, self.rtype), env)
            if isinstance(s, ast.Assign) and len(s.targets) == 1 and isinstance(s.targets[0], ast.Name) and isinstance(s.value, ast.List) \
                    and not s.value.elts and self.decl.get(s.targets[0].id) == "pagerecs":
                return "(let v_%s := (@nil (bytes * bool)) in\n %s)" % (s.targets[0].id, self.block(rest, dict(env, **{s.targets[0].id: "pagerecs"}), k))
        return self.block0(stmts, env, k)

    def call_stmt(self, c, target, env, nxt):   # noqa: F811
        f = c.func
        if isinstance(f, ast.Attribute) and f.attr == "append" and isinstance(f.value, ast.Name) and env.get(f.value.id) == "pagerecs" \
                and len(c.args) == 1 and not c.keywords and target is None:
            a, ta = self.expr(c.args[0], env)
            if ta != "pagerec":
                raise Unsupported("append of %s" % ta)
            return "(let v_%s := v_%s ++ [%s] in\n %s)" % (f.value.id, f.value.id, a, nxt())
        return self.call_stmt0(c, target, env, nxt)

    def fold_state(self, body, env):
        names = set()
        has_yield = False
        for n in ast.walk(ast.Module(body=list(body), type_ignores=[])):
            if isinstance(n, ast.Assign):
                for t in n.targets:
                    for y in ast.walk(t):
                        if isinstance(y, ast.Name):
                            names.add(y.id)
            if isinstance(n, ast.AugAssign) and isinstance(n.target, ast.Name):
                names.add(n.target.id)
            if isinstance(n, ast.Call) and isinstance(n.func, ast.Attribute) and isinstance(n.func.value, ast.Name) \
                    and n.func.attr in ("add", "append", "update"):
                names.add(n.func.value.id)
            if isinstance(n, ast.For):
                for y in ast.walk(n.target):
                    if isinstance(y, ast.Name):
                        names.discard(y.id)
            if isinstance(n, ast.Yield):
                has_yield = True
        names = sorted(x for x in names if x in env and env[x] in ("oNset", "pagerecs", "N", "bool", "bytes", "listB", "pdict", "ndict"))
        return names, has_yield

    def forloop(self, s, env, nxt):
        if s.orelse:
            raise Unsupported("for-else")
        # ---- for prefix in prefixes: ----
        if isinstance(s.target, ast.Name) and isinstance(s.iter, ast.Name) and env.get(s.iter.id) == "listB":
            if self.loop_k is not None:
                raise Unsupported("nested loop over prefixes")
            names, has_yield = self.fold_state(s.body, env)
            has_yield = has_yield and self.gen is not None
            vars_ = ["sg"] + ["v_%s" % n for n in names] + (["v__out"] if has_yield else [])
            types = ["py_pm"] + [GL.COQT[env[n]] for n in names] + (["list (%s)" % GL.COQT[self.gen]] if has_yield else [])
            pat, ty = "(" + ", ".join(vars_) + ")", "(" + " * ".join(types) + ")"

            def pack(e2):
                return "(Some (" + ", ".join(["sg"] + [self.coerce("v_%s" % n, e2[n], env[n]) for n in names] + (["v__out"] if has_yield else [])) + "))"
            self.loop_k = True
            body = self.block(list(s.body), dict(env, **{s.target.id: "bytes"}), pack)
            self.loop_k = None
            return ("(match fold_left (fun (st : option %s) (v_%s : bytes) =>\n match st with\n | None => None\n | Some %s => %s end)\n v_%s (Some %s) with\n"
                    " | None => %s\n | Some %s => %s end)" % (ty, s.target.id, pat, body, s.iter.id, pat, self.fail(), pat, nxt()))
        # ---- for <items> in self.lru_trie.<generator>(args): a body that does not touch the storage ----
        if isinstance(s.iter, ast.Call) and isinstance(s.iter.func, ast.Attribute) and ast.unparse(s.iter.func.value) in ("self.lru_trie", "self"):
            sig = self.tr.sigs.get(("tstore" if ast.unparse(s.iter.func.value) == "self.lru_trie" else "traph", s.iter.func.attr))
            if sig is None or sig["kind"] != "gen":
                raise Unsupported("loop over lru_trie.%s" % s.iter.func.attr)
            if sig["item"] == "pair:tnode:bytes":
                if not (isinstance(s.target, ast.Tuple) and len(s.target.elts) == 2 and all(isinstance(x, ast.Name) for x in s.target.elts)):
                    raise Unsupported("target of a loop over pairs")
                tn = [x.id for x in s.target.elts]
                env1 = dict(env, **{tn[0]: "tnode", tn[1]: "bytes"})
                bind = "let '(v_%s, v_%s) := v__it in" % (tn[0], tn[1])
            elif sig["item"] == "tnode" and isinstance(s.target, ast.Name):
                env1 = dict(env, **{s.target.id: "tnode"})
                bind = "let v_%s := v__it in" % s.target.id
            else:
                raise Unsupported("items of %s" % s.iter.func.attr)
            for n in ast.walk(ast.Module(body=list(s.body), type_ignores=[])):
                if isinstance(n, ast.Call) and isinstance(n.func, ast.Attribute) and isinstance(n.func.value, ast.Name):
                    sg_ = self.tr.sigs.get((env1.get(n.func.value.id), n.func.attr))
                    if sg_ and sg_["kind"] != "pure" and n.func.attr not in ("add", "append", "should_yield"):
                        raise Unsupported("effectful call in the body of a loop over a generator")
                if isinstance(n, (ast.Return, ast.Break, ast.Raise, ast.For, ast.While)):
                    raise Unsupported("exit from / loop in a loop over a generator")
            names, has_yield = self.fold_state(s.body, env1)
            has_yield = has_yield and self.gen is not None
            vars_ = ["v_%s" % n for n in names] + (["v__out"] if has_yield else [])
            types = [GL.COQT[env[n]] for n in names] + (["list (%s)" % GL.COQT[self.gen]] if has_yield else [])
            if not vars_:
                raise Unsupported("loop over a generator without effect")
            pat = "(" + ", ".join(vars_) + ")" if len(vars_) > 1 else vars_[0]
            ty = "(" + " * ".join(types) + ")" if len(types) > 1 else types[0]
            q = "'" if len(vars_) > 1 else ""

            def packg(e2):
                out = [self.coerce("v_%s" % n, e2[n], env[n]) for n in names] + (["v__out"] if has_yield else [])
                return "(" + ", ".join(out) + ")" if len(out) > 1 else out[0]
            saved_k, saved_opt = self.loop_k, self.opt
            self.loop_k, self.opt = True, False
            try:
                body = self.block(list(s.body), env1, packg)
            finally:
                self.loop_k, self.opt = saved_k, saved_opt
            args = self.args(s.iter, sig, env)
            return ("(match %s sg%s with\n | None => %s\n | Some (v__items, sg) =>\n (let %s%s := fold_left (fun (st : %s) (v__it : %s) => let %s%s := st in %s\n %s) v__items %s in\n %s) end)"
                    % (sig["coq"], "".join(" " + a for a in args), self.fail(), q, pat, ty, GL.COQT[sig["item"]], q, pat, bind, body, pat, nxt()))
        return GD.FnD.forloop(self, s, env, nxt)


def api_fn(T, TR, name, params, rtype, rcoq):
    fn = TR[name]
    if [a.arg for a in fn.args.args] != ["self"] + [p[0] for p in params] or fn.args.defaults or fn.args.vararg or fn.args.kwarg:
        raise Unsupported("%s signature" % name)
    f = FnT(T, fn, None, "traph", True, rtype)
    f.returns = ["sg"]
    f.has_sg = True
    f.rcoq = "option (py_pm * %s)" % rcoq
    body = f.block(list(fn.body), dict((p[0], p[1]) for p in params),
                   lambda e2: (_ for _ in ()).throw(Unsupported("%s falls off its end" % name)))
    ps = "".join(" (v_%s : %s)" % (p[0], GL.COQT[p[1]]) for p in params)
    T.out.append("Definition py_traph_%s (sg : py_pm)%s : option (py_pm * %s) :=\n %s." % (name, ps, rcoq, body))


def api_gen(T, TR, name, params, item):
    """a generator method of Traph yielding (node, lru) pairs: (sg, args) -> option (list item * py_pm)"""
    fn = TR[name]
    if [a.arg for a in fn.args.args] != ["self"] + [p[0] for p in params] or fn.args.defaults or fn.args.vararg or fn.args.kwarg:
        raise Unsupported("%s signature" % name)
    f = FnT(T, fn, None, "traph", True, None, gen=item)
    f.returns = []
    f.has_sg = True
    f.gen_sg = True
    body = f.block(list(fn.body), dict((p[0], p[1]) for p in params), lambda e2: "(Some (v__out, sg))")
    ps = "".join(" (v_%s : %s)" % (p[0], GL.COQT[p[1]]) for p in params)
    T.out.append("Definition py_traph_%s (sg : py_pm)%s : option (list %s * py_pm) :=\n (let v__out := (@nil %s) in\n %s)."
                 % (name, ps, GL.COQT[item], GL.COQT[item], body))
    T.sigs[("traph", name)] = {"kind": "gen", "params": params, "item": item, "coq": "py_traph_" + name}


def api_iter(T, TR, name, params, rtype, rcoq, decl=None):
    """<name>_iter is a generator request; <name> runs it to its end"""
    it = TR[name + "_iter"]
    if [a.arg for a in it.args.args] != ["self"] + [p[0] for p in params] or it.args.defaults or it.args.vararg or it.args.kwarg:
        raise Unsupported("%s_iter signature" % name)
    f = FnT(T, it, None, "traph", True, rtype, decl=decl or {})
    f.returns = ["sg"]
    f.has_sg = True
    f.rcoq = "option (py_pm * %s)" % rcoq
    body = f.block(list(it.body), dict((p[0], p[1]) for p in params),
                   lambda e2: (_ for _ in ()).throw(Unsupported("%s_iter falls off its end without finalize" % name)))
    ps = "".join(" (v_%s : %s)" % (p[0], GL.COQT[p[1]]) for p in params)
    T.out.append("Definition py_traph_%s (sg : py_pm)%s : option (py_pm * %s) :=\n %s." % (name, ps, rcoq, body))
    fn = TR[name]
    want = "return run_iterator(self.%s_iter(%s))" % (name, ", ".join(p[0] for p in params))
    if [a.arg for a in fn.args.args] != ["self"] + [p[0] for p in params] or len(fn.body) != 1 or ast.unparse(fn.body[0]) != want:
        raise Unsupported("%s body" % name)


def main(out):
    T, _, TN, LT = GT.build()
    GW.register(T, TN, LT)
    GD.register(T, LT)
    T.sigs[("tstore", "lru_node")] = {"kind": "tfn", "params": [("lru", "bytes", None)], "rtype": "otnode", "coq": "py_trie_lru_node"}
    T.out = []
    GL.COQT.update({"pagerecs": "list (bytes * bool)", "pagerec": "(bytes * bool)"})
    p = os.path.join(REPO, "traph", "traph.py")
    tree = ast.parse(open(p).read(), p)
    c = [n for n in tree.body if isinstance(n, ast.ClassDef) and n.name == "Traph"]
    if len(c) != 1:
        raise Unsupported("class Traph")
    TR = dict((n.name, n) for n in c[0].body if isinstance(n, ast.FunctionDef))
    enc = TR.get("__encode") or TR.get("_Traph__encode")
    if enc is None or [ast.unparse(x) for x in enc.body] != ["if isinstance(string, bytes):\n    return string", "return string.encode(self.encoding)"] \
            or [a.arg for a in enc.args.args] != ["self", "string"]:
        raise Unsupported("Traph.__encode body")
    # the trie the API methods use is the one built on the trie storage
    init_src = ast.unparse(TR["__init__"])
    if "self.lru_trie = LRUTrie(self.lru_trie_storage, encoding=encoding)" not in init_src:
        raise Unsupported("Traph.__init__: lru_trie")
    # the iterator protocol
    pi = os.path.join(REPO, "traph", "traph_iterator_state.py")
    ti = ast.parse(open(pi).read(), pi)
    want_state = ("class TraphIteratorState(object):\n\n    def __init__(self):\n        self.done = False\n        self.result = None\n"
                  "        self.n_iterations = 0\n\n    def should_yield(self, yield_frequency=1000):\n        self.n_iterations += 1\n"
                  "        return not self.n_iterations % yield_frequency\n\n    def finalize(self, result):\n        self.done = True\n"
                  "        self.result = result\n        return self")
    want_run = "def run_iterator(iterator):\n    for state in iterator:\n        pass\n    return state.result"
    got = [ast.unparse(n) for n in ti.body if isinstance(n, (ast.ClassDef, ast.FunctionDef))]
    if got != [want_state, want_run]:
        raise Unsupported("traph_iterator_state.py: %s" % got)
    L = ["(* GENERATED by harness/gen_traph.py from %s/traph/traph.py -- do not edit *)" % REPO,
         "From Coq Require Import List NArith Bool Arith.", "Import ListNotations.",
         "From Traph Require Import Bytes Consts Layout Codec GenStorage GenNode GenLinks GenTrie GenTrieW GenTrieD.", ""]
    api_fn(T, TR, "retrieve_prefix", [("lru", "bytes", None)], "bytes", "bytes")
    api_fn(T, TR, "retrieve_webentity", [("lru", "bytes", None)], "N", "N")
    api_fn(T, TR, "get_webentity_by_prefix", [("prefix", "bytes", None)], "N", "N")
    api_gen(T, TR, "webentity_page_nodes_iter", [("weid", "N", None), ("prefixes", "listB", None)], "pair:tnode:bytes")
    api_iter(T, TR, "get_webentity_pages", [("weid", "N", None), ("prefixes", "listB", None)], "pagerecs", "list (bytes * bool)",
             decl={"pages": "pagerecs"})
    api_iter(T, TR, "get_webentity_crawled_pages", [("weid", "N", None), ("prefixes", "listB", None)], "pagerecs", "list (bytes * bool)",
             decl={"pages": "pagerecs"})
    api_fn(T, TR, "get_webentity_parent_webentities", [("weid", "N", None), ("prefixes", "listB", None)], "oNset", "list (option N)")
    api_iter(T, TR, "get_webentity_child_webentities", [("weid", "N", None), ("prefixes", "listB", None)], "oNset", "list (option N)")
    text = "\n".join(L + T.out) + "\n"
    old = open(out).read() if os.path.exists(out) else None
    if old != text:
        with open(out, "w") as fh:
            fh.write(text)
    return 0


if __name__ == "__main__":
    try:
        sys.exit(main(sys.argv[1]))
    except Unsupported as e:
        print("gen_traph: UNSUPPORTED: %s" % e)
        sys.exit(3)
    except (KeyError, AttributeError, IndexError, TypeError) as e:
        print("gen_traph: UNSUPPORTED: unexpected source shape (%s: %s)" % (type(e).__name__, e))
        sys.exit(3)
