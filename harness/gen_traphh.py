#!/venv/bin/python
"""Translate the pagination of a webentity's page links (traph/traph.py: Traph.paginate_webentity_pagelinks) from the Python AST
into Gallina: coq/theories/GenTraphH.v, regenerated on every run.  Same encoding as gen_traphg.py (folds over answer + state for
the early return), plus the loop over the weighted stubs of each page's out-list with its reads of the trie
(`target_node.read(target)`, windup_lru_for_webentity, windup_lru: GenTraphQ.v / GenTrie.v) and the per-page buffer `newlinks`
(`if newlinks:` = non-empty; `pagelinks += newlinks` = concatenation).  The answer dicts
{"done", "count_sourcepages", "count_pagelinks", "pagelinks"[, "token"]} are the record py_links_answer."""
import ast
import os
import sys

sys.path.insert(0, os.path.dirname(os.path.abspath(__file__)))
import gen_links as GL       # noqa: E402
import gen_trie as GT        # noqa: E402
import gen_triew as GW       # noqa: E402
import gen_traphg as GG      # noqa: E402

REPO = os.environ.get("VERIF_REPO", "/repo")
Unsupported = GL.Unsupported

GL.COQT.update({"links3": "list (bytes * bytes * N)", "answer2": "py_links_answer"})

PREAMBLE = r"""Record py_links_answer := mk_la { la_done : bool; la_count_sourcepages : N; la_count_pagelinks : N; la_pagelinks : list (bytes * bytes * N); la_token : option bytes }.
"""

STATE = ["sg", "v_last_path", "v_last_path_i", "v_n", "v_pagelinks", "v_pagination_path", "v_target_node"]
STATE_T = "(py_pm * option N * option N * N * list (bytes * bytes * N) * option N * py_node)"
ACC_T = "option ((py_pm * py_links_answer) + %s)" % STATE_T
PAT = "(" + ", ".join(STATE) + ")"


class FnH(GG.FnG):
    def go_on(self, env):
        return "(Some (inr %s))" % PAT

    def expr(self, e, env):
        if isinstance(e, ast.Call) and isinstance(e.func, ast.Name) and e.func.id == "len" and len(e.args) == 1 \
                and isinstance(e.args[0], ast.Name) and env.get(e.args[0].id) == "links3":
            return "(N.of_nat (length v_%s))" % e.args[0].id, "N"
        if isinstance(e, ast.List) and len(e.elts) == 3:
            parts = [self.expr(x, env) for x in e.elts]
            if [t for _, t in parts] == ["bytes", "bytes", "N"]:
                return "(%s, %s, %s)" % tuple(a for a, _ in parts), "link3"
        if isinstance(e, ast.Compare) and len(e.ops) == 1 and isinstance(e.ops[0], (ast.Eq, ast.NotEq)):
            a, ta = self.expr(e.left, env)
            b, tb = self.expr(e.comparators[0], env)
            if ta == "oN" and tb == "N":
                t = "(oN_eqb %s (Some %s))" % (a, b)
                return (t if isinstance(e.ops[0], ast.Eq) else "(negb %s)" % t), "bool"
        if isinstance(e, ast.BoolOp) and isinstance(e.op, ast.Or):
            parts = [self.expr(v, env) for v in e.values]
            if all(t == "bool" for _, t in parts):
                return "(" + " || ".join(a for a, _ in parts) + ")", "bool"
        if isinstance(e, ast.BoolOp) and isinstance(e.op, ast.And) and ast.unparse(e.values[0]) == "source_page_count is not None" \
                and env.get("source_page_count") == "oN":
            rest = [self.expr(v, dict(env, source_page_count="N")) for v in e.values[1:]]
            return "(match v_source_page_count with None => false | Some v_source_page_count => %s end)" % " && ".join(a for a, _ in rest), "bool"
        return GG.FnG.expr(self, e, env)

    def answer(self, d, env):
        keys = [ast.unparse(k) for k in d.keys]
        base = ["'done'", "'count_sourcepages'", "'count_pagelinks'", "'pagelinks'"]
        if keys not in (base + ["'token'"], base):
            raise Unsupported("answer keys %s" % keys)
        vals = [self.expr(v, env) for v in d.values[:4]]
        if [t for _, t in vals] != ["bool", "N", "N", "links3"]:
            raise Unsupported("answer values %s" % [t for _, t in vals])
        if len(keys) == 4:
            return "(Some (mk_la %s None))" % " ".join(a for a, _ in vals), None
        tk = d.values[4]
        if not (isinstance(tk, ast.Call) and isinstance(tk.func, ast.Name) and tk.func.id == "build_pagination_token" and len(tk.args) == 2):
            raise Unsupported("token expression")
        (a, ta), (b, tb) = [self.expr(x, env) for x in tk.args]
        if (ta, tb) != ("oN", "oN"):
            raise Unsupported("token arguments %s %s" % (ta, tb))
        return ("(match %s, %s with\n | Some v__i, Some v__p => Some (mk_la %s (Some (GenHelpers2.py_build_pagination_token v__i v__p)))\n | _, _ => None end)"
                % (a, b, " ".join(x for x, _ in vals))), None

    def block(self, stmts, env, k):
        if stmts:
            s, rest = stmts[0], stmts[1:]
            nxt = lambda env2=None: self.block(rest, env if env2 is None else env2, k)          # noqa: E731
            u = ast.unparse(s)
            if u == "if source_page_count is not None:\n    assert source_page_count > 0":
                return "(if (match v_source_page_count with None => true | Some v__pc => N.ltb 0%%N v__pc end)\n then %s\n else %s)" % (nxt(), self.fail())
            if isinstance(s, ast.Assign) and len(s.targets) == 1 and isinstance(s.targets[0], ast.Name):
                n, v = s.targets[0].id, s.value
                if u.endswith("= self.lru_trie.node()"):
                    return "(let '(v__n, sg) := py_node_init sg None None None in\n let v_%s := v__n in\n %s)" % (n, nxt(dict(env, **{n: "tnode"})))
                if isinstance(v, ast.List) and not v.elts and self.decl.get(n) == "links3":
                    return "(let v_%s := (@nil (bytes * bytes * N)) in\n %s)" % (n, nxt(dict(env, **{n: "links3"})))
                if isinstance(v, ast.Call) and ast.unparse(v.func) in ("self.lru_trie.windup_lru_for_webentity", "self.lru_trie.windup_lru") and len(v.args) == 1:
                    a, ta = self.expr(v.args[0], env)
                    if v.func.attr == "windup_lru_for_webentity":
                        if ta != "tnode":
                            raise Unsupported("windup_lru_for_webentity of %s" % ta)
                        return "(match py_trie_windup_lru_for_webentity sg %s with\n | None => %s\n | Some (sg, v_%s) => %s end)" % (a, self.fail(), n, nxt(dict(env, **{n: "oN"})))
                    if ta == "oN":
                        return ("(match %s with\n | None => %s\n | Some v__b => (match py_trie_windup_lru sg v__b with\n | None => %s\n | Some (sg, v_%s) => %s end) end)"
                                % (a, self.fail(), self.fail(), n, nxt(dict(env, **{n: "bytes"}))))
            if u == "if pagination_token:\n    start_i, pagination_path = parse_pagination_token(pagination_token)":
                return GG.FnG.block(self, stmts, env, k)
            if isinstance(s, ast.Expr) and isinstance(s.value, ast.Call) and isinstance(s.value.func, ast.Attribute) and isinstance(s.value.func.value, ast.Name):
                o, at = s.value.func.value.id, s.value.func.attr
                if env.get(o) == "tnode" and at == "read" and len(s.value.args) == 1:
                    a, ta = self.expr(s.value.args[0], env)
                    return "(let '(v_%s, sg) := py_node_read_o v_%s sg %s in\n %s)" % (o, o, self.coerce(a, ta, "oN"), nxt())
                if env.get(o) == "links3" and at == "append" and len(s.value.args) == 1:
                    a, ta = self.expr(s.value.args[0], env)
                    if ta != "link3":
                        raise Unsupported("append of %s" % ta)
                    return "(let v_%s := v_%s ++ [%s] in\n %s)" % (o, o, a, nxt())
            if isinstance(s, ast.AugAssign) and isinstance(s.op, ast.Add) and isinstance(s.target, ast.Name) and env.get(s.target.id) == "links3" \
                    and isinstance(s.value, ast.Name) and env.get(s.value.id) == "links3":
                return "(let v_%s := (v_%s ++ v_%s) in\n %s)" % (s.target.id, s.target.id, s.value.id, nxt())
            if isinstance(s, ast.If) and not s.orelse and isinstance(s.test, ast.Name) and env.get(s.test.id) == "links3" and self.in_fold:
                # if newlinks: ...  (may return): the non-empty test; what follows is reached on both paths
                body = self.block(list(s.body) + rest, dict(env), k)
                return "(if (match v_%s with [] => false | _ => true end)\n then %s\n else %s)" % (s.test.id, body, nxt())
            if isinstance(s, ast.If) and not s.orelse and len(s.body) == 1 and isinstance(s.body[0], ast.Expr) and self.in_fold \
                    and isinstance(s.body[0].value, ast.Call) and ast.unparse(s.body[0].value.func).endswith(".append"):
                # if <keep>: target_lru = ...; newlinks.append(..)  handled below (two statements); single append: joined
                pass
            if isinstance(s, ast.For) and not s.orelse and ast.unparse(s.iter.func if isinstance(s.iter, ast.Call) else s.iter) == "self.link_store.weighted_link_nodes_iter" \
                    and isinstance(s.target, ast.Tuple) and len(s.target.elts) == 2:
                b, tb = self.expr(s.iter.args[0], env)
                t1, t2 = [x.id for x in s.target.elts]
                ist = ["sg", "v_newlinks", "v_target_node"]
                ipat = "(" + ", ".join(ist) + ")"
                saved = self.in_fold
                self.in_fold = 0
                body = self.block(list(s.body), dict(env, **{t1: "oN", t2: "N"}), lambda e2: "(Some %s)" % ipat)
                self.in_fold = saved
                return ("(match py_ls_weighted_link_nodes_iter sgl %s with\n | None => None\n | Some v__stubs =>\n"
                        " (match fold_left (fun (st : option (py_pm * list (bytes * bytes * N) * py_node)) (v__it : (option N * N)) =>\n match st with\n | None => None\n"
                        " | Some %s => (let '(v_%s, v_%s) := v__it in\n %s) end)\n v__stubs (Some %s) with\n | None => None\n | Some %s => %s end) end)"
                        % (b, ipat, t1, t2, body, ipat, ipat, nxt()))
            if isinstance(s, ast.For) and not s.orelse and ast.unparse(s.iter) == "range(start_i, len(prefixes))":
                return self.outer(s, env, nxt)
            if isinstance(s, ast.For) and not s.orelse and isinstance(s.iter, ast.Name) and env.get(s.iter.id) == "items3":
                return self.inner(s, env, nxt)
        return GG.FnG.block(self, stmts, env, k)

    def outer(self, s, env, nxt):
        self.in_fold += 1
        body = self.block(list(s.body), dict(env, **{s.target.id: "N"}), self.go_on)
        self.in_fold -= 1
        return ("(match fold_left (fun (acc : %s) (v_%s : N) =>\n match acc with\n | None => None\n | Some (inl v__a) => Some (inl v__a)\n"
                " | Some (inr %s) => %s end)\n (py_range2 v_start_i (N.of_nat (length v_prefixes))) (Some (inr %s)) with\n"
                " | None => %s\n | Some (inl v__a) => Some v__a\n | Some (inr %s) => %s end)"
                % (ACC_T, s.target.id, PAT, body, PAT, self.fail(), PAT, nxt()))

    def inner(self, s, env, nxt):
        a, b, c = [x.id for x in s.target.elts]
        self.in_fold += 1
        body = self.block(list(s.body), dict(env, **{a: "tnode", b: "bytes", c: "N"}), self.go_on)
        self.in_fold -= 1
        return ("(match fold_left (fun (acc : %s) (v__it : (py_node * bytes * N)) =>\n match acc with\n | None => None\n | Some (inl v__a) => Some (inl v__a)\n"
                " | Some (inr %s) => (let '(v_%s, v_%s, v_%s) := v__it in\n %s) end)\n v_%s (Some (inr %s)) with\n"
                " | None => None\n | Some (inl v__a) => Some (inl v__a)\n | Some (inr %s) => %s end)"
                % (ACC_T, PAT, a, b, c, body, s.iter.id, PAT, PAT, nxt()))


def main(out):
    T, _, TN, LT = GT.build()
    GW.register(T, TN, LT)
    T.sigs[("tstore", "lru_node")] = {"kind": "tfn", "params": [("lru", "bytes", None)], "rtype": "otnode", "coq": "py_trie_lru_node"}
    T.out = []
    T.join_calls = False
    for name, coq in (("has_outlinks", "bool"), ("outlinks", "N")):
        T.method(TN, "tnode", name, [], "pure", coq)
    T.out = []            # defined in GenTraphL.v
    p = os.path.join(REPO, "traph", "traph.py")
    tree = ast.parse(open(p).read(), p)
    c = [n for n in tree.body if isinstance(n, ast.ClassDef) and n.name == "Traph"]
    TR = dict((n.name, n) for n in c[0].body if isinstance(n, ast.FunctionDef))
    enc = TR.get("__encode")
    if enc is None or [ast.unparse(x) for x in enc.body] != ["if isinstance(string, bytes):\n    return string", "return string.encode(self.encoding)"]:
        raise Unsupported("Traph.__encode body")
    init_src = ast.unparse(TR["__init__"])
    if "self.lru_trie = LRUTrie(self.lru_trie_storage, encoding=encoding)" not in init_src \
            or "self.link_store = LinkStore(self.links_store_storage)" not in init_src:
        raise Unsupported("Traph.__init__: lru_trie / link_store")
    fn = TR["paginate_webentity_pagelinks"]
    params = [("weid", "N"), ("prefixes", "listB"), ("include_internal", "bool"), ("include_outbound", "bool"), ("source_page_count", "oN"),
              ("pagination_token", "ostr")]
    if [a.arg for a in fn.args.args] != ["self"] + [q[0] for q in params] or [ast.unparse(d) for d in fn.args.defaults] != ["True", "False", "None", "None"]:
        raise Unsupported("paginate_webentity_pagelinks signature")
    f = FnH(T, fn, None, "traph", True, "answer2",
            decl={"pagination_path": "oN", "last_path": "oN", "last_path_i": "oN", "pagelinks": "links3", "newlinks": "links3"})
    f.returns = ["sg"]
    f.has_sg = True
    f.tnode_storage = "sg"
    f.rcoq = "option (py_pm * py_links_answer)"
    body = [x for x in fn.body if not (isinstance(x, ast.Expr) and isinstance(x.value, ast.Constant))]
    assigned = set()
    for st in body:
        if isinstance(st, ast.For):
            for n in ast.walk(st):
                if isinstance(n, (ast.Assign, ast.AugAssign)):
                    for t in (n.targets if isinstance(n, ast.Assign) else [n.target]):
                        for y in ast.walk(t):
                            if isinstance(y, ast.Name):
                                assigned.add(y.id)
    loop_locals = {"current_prefix", "starting_node", "generator", "links_block", "newlinks", "target_webentity", "target_lru"}
    if assigned - loop_locals != {"last_path", "last_path_i", "n", "pagination_path", "pagelinks"}:
        raise Unsupported("state of the pagination loops: %s" % sorted(assigned))
    txt = f.block(body, dict(params), lambda e2: (_ for _ in ()).throw(Unsupported("paginate_webentity_pagelinks falls off its end")))
    ps = "".join(" (v_%s : %s)" % (q[0], GL.COQT[q[1]]) for q in params)
    T.out.append("Definition py_traph_paginate_webentity_pagelinks (sg sgl : py_pm)%s : option (py_pm * py_links_answer) :=\n %s." % (ps, txt))
    L = ["(* GENERATED by harness/gen_traphh.py from %s/traph/traph.py -- do not edit *)" % REPO,
         "From Coq Require Import List NArith Bool Arith.", "Import ListNotations.",
         "From Traph Require Import Bytes Consts Layout Codec Helpers GenStorage GenNode GenLinks GenTrie GenTrieW GenTrieD GenTrieI GenTraphL GenTraphQ GenTraphG.",
         "From Traph Require GenHelpers2.", "", PREAMBLE]
    text = "\n".join(L + T.out) + "\n"
    old = open(out).read() if os.path.exists(out) else None
    if old != text:
        with open(out, "w") as fh:
            fh.write(text)
    return 0


if __name__ == "__main__":
    try:
        sys.exit(main(sys.argv[1]))
    except Unsupported as e:
        print("gen_traphh: UNSUPPORTED: %s" % e)
        sys.exit(3)
    except (KeyError, AttributeError, IndexError, TypeError) as e:
        print("gen_traphh: UNSUPPORTED: unexpected source shape (%s: %s)" % (type(e).__name__, e))
        sys.exit(3)
