#!/bin/sh
# run every property's quick check on the current /repo (evidence files are rewritten); exit 1 if any check does
cd "$(dirname "$0")/.."
rc=0
for p in C01 C02 C03 C04 C05 C06 C07 C08 C09 C10 C11 C12 C13 C14 C15 C16 C17 C18 C19 C20; do
  ./check $p "$@" 2>&1 | grep -v "^KNOWN" | tail -1 || rc=1
done
exit $rc
