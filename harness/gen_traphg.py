#!/venv/bin/python
"""Translate the pagination of a webentity's pages (traph/traph.py: Traph.paginate_webentity_pages) from the Python AST into
Gallina: coq/theories/GenTraphG.v, regenerated on every run.  Built on the translated lru_node (GenTrie.v), the ordered traversal
webentity_inorder_iter (GenTrieI.v), build_pagination_token (GenHelpers2.v) and the flag accessors (GenTrieW.v).
  * The request RETURNS from inside its two nested loops: every loop is a fold whose accumulator is
    option (answer + state): None = raised, inl = the request has returned (the rest of the loop is skipped), inr = the loop
    goes on; so a later prefix that is absent raises only if the answer is not complete before it is reached - as in Python.
  * the answer dicts {"done", "count", "count_crawled", "pages"[, "token"]} are the record py_pages_answer (token : option).
  * `parse_pagination_token` is NOT translated (Python's int() accepts more than decimal digits): it is the modelled primitive
    py_parse_pagination_token = Helpers.parse_token (None = it raises); `build_pagination_token` is the translated helper;
    `"%i" % None` (no page served yet) raises.
  * `for i in range(start_i, len(prefixes))` with `prefixes[i]`; `k = page_count + 1 if page_count is not None else None`;
    `if page_count is not None: assert page_count > 0`; the items of webentity_inorder_iter are computed first (reads only)."""
import ast
import os
import sys

sys.path.insert(0, os.path.dirname(os.path.abspath(__file__)))
import gen_links as GL       # noqa: E402
import gen_trie as GT        # noqa: E402
import gen_triew as GW       # noqa: E402
import gen_traph as GA       # noqa: E402

REPO = os.environ.get("VERIF_REPO", "/repo")
Unsupported = GL.Unsupported

GL.COQT.update({"pagerecs": "list (bytes * bool)", "pagerec": "(bytes * bool)", "ostr": "option bytes", "answer": "py_pages_answer"})

PREAMBLE = r"""Record py_pages_answer := mk_pa { pa_done : bool; pa_count : N; pa_count_crawled : N; pa_pages : list (bytes * bool); pa_token : option bytes }.
(* parse_pagination_token: modelled (Helpers.parse_token); None = it raises *)
Definition py_parse_pagination_token (tok : bytes) : option (N * N) := Helpers.parse_token tok.
(* range(a, b) *)
Definition py_range2 (a b : N) : list N := map (fun i => N.add a (N.of_nat i)) (seq 0 (N.to_nat (N.sub b a))).
"""

STATE = ["sg", "v_c", "v_last_path", "v_last_path_i", "v_n", "v_pages", "v_pagination_path"]
STATE_T = "(py_pm * N * option N * option N * N * list (bytes * bool) * option N)"
ACC_T = "option ((py_pm * py_pages_answer) + %s)" % STATE_T
PAT = "(" + ", ".join(STATE) + ")"


class FnG(GA.FnT):
    def go_on(self, env):
        return "(Some (inr %s))" % PAT

    def expr(self, e, env):
        if isinstance(e, ast.Compare) and len(e.ops) == 1 and isinstance(e.ops[0], (ast.GtE, ast.Gt)):
            a, ta = self.expr(e.left, env)
            b, tb = self.expr(e.comparators[0], env)
            if ta == "N" and tb == "N":
                return ("(N.leb %s %s)" % (b, a) if isinstance(e.ops[0], ast.GtE) else "(N.ltb %s %s)" % (b, a)), "bool"
        if isinstance(e, ast.Subscript) and isinstance(e.value, ast.Name) and env.get(e.value.id) == "listB" and not isinstance(e.slice, ast.Slice):
            i, ti = self.expr(e.slice, env)
            if ti == "N":
                return "(nth (N.to_nat %s) v_%s (@nil N))" % (i, e.value.id), "bytes"
        if isinstance(e, ast.Subscript) and isinstance(e.slice, ast.Slice) and e.slice.lower is None and e.slice.step is None \
                and isinstance(e.value, ast.Name) and env.get(e.value.id) == "pagerecs":
            b, tb = self.expr(e.slice.upper, env)
            return "(firstn (N.to_nat %s) v_%s)" % (b, e.value.id), "pagerecs"
        if isinstance(e, ast.Call) and isinstance(e.func, ast.Name) and e.func.id == "len" and len(e.args) == 1 \
                and isinstance(e.args[0], ast.Name) and env.get(e.args[0].id) in ("listB", "pagerecs"):
            return "(N.of_nat (length v_%s))" % e.args[0].id, "N"
        if isinstance(e, ast.BoolOp) and isinstance(e.op, ast.And) and ast.unparse(e.values[0]) == "k is not None" and env.get("k") == "oN":
            rest = [self.expr(v, dict(env, k="N")) for v in e.values[1:]]
            return "(match v_k with None => false | Some v_k => %s end)" % " && ".join(a for a, _ in rest), "bool"
        if isinstance(e, ast.BoolOp) and isinstance(e.op, ast.And):
            parts = [self.expr(v, env) for v in e.values]
            if all(t == "bool" for _, t in parts):
                return "(" + " && ".join(a for a, _ in parts) + ")", "bool"
        if isinstance(e, ast.Name) and env.get(e.id) == "bool":
            return "v_%s" % e.id, "bool"
        return GA.FnT.expr(self, e, env)

    def answer(self, d, env):
        keys = [ast.unparse(k) for k in d.keys]
        if keys not in (["'done'", "'count'", "'count_crawled'", "'pages'", "'token'"], ["'done'", "'count'", "'count_crawled'", "'pages'"]):
            raise Unsupported("answer keys %s" % keys)
        vals = [self.expr(v, env) for v in d.values[:4]]
        if [t for _, t in vals] != ["bool", "N", "N", "pagerecs"]:
            raise Unsupported("answer values %s" % [t for _, t in vals])
        if len(keys) == 4:
            return "(Some (mk_pa %s None))" % " ".join(a for a, _ in vals), None
        tk = d.values[4]
        if not (isinstance(tk, ast.Call) and isinstance(tk.func, ast.Name) and tk.func.id == "build_pagination_token" and len(tk.args) == 2):
            raise Unsupported("token expression")
        (a, ta), (b, tb) = [self.expr(x, env) for x in tk.args]
        if (ta, tb) != ("oN", "oN"):
            raise Unsupported("token arguments %s %s" % (ta, tb))
        return ("(match %s, %s with\n | Some v__i, Some v__p => Some (mk_pa %s (Some (GenHelpers2.py_build_pagination_token v__i v__p)))\n | _, _ => None end)"
                % (a, b, " ".join(x for x, _ in vals))), None

    def block(self, stmts, env, k):
        if stmts:
            s, rest = stmts[0], stmts[1:]
            nxt = lambda env2=None: self.block(rest, env if env2 is None else env2, k)          # noqa: E731
            u = ast.unparse(s)
            if u == "if page_count is not None:\n    assert page_count > 0":
                return "(if (match v_page_count with None => true | Some v__pc => N.ltb 0%%N v__pc end)\n then %s\n else %s)" % (nxt(), self.fail())
            if u == "k = page_count + 1 if page_count is not None else None":
                return "(let v_k := (match v_page_count with None => None | Some v__pc => Some (N.add v__pc 1%%N) end) in\n %s)" % nxt(dict(env, k="oN"))
            if u == "if pagination_token:\n    start_i, pagination_path = parse_pagination_token(pagination_token)":
                return ("(match (match v_pagination_token with\n | None => Some (v_start_i, v_pagination_path)\n | Some v__t => (if (py_nonempty v__t)\n"
                        " then (match py_parse_pagination_token v__t with None => None | Some (v__i, v__p) => Some (v__i, Some v__p) end)\n"
                        " else Some (v_start_i, v_pagination_path)) end) with\n | None => %s\n | Some (v_start_i, v_pagination_path) => %s end)" % (self.fail(), nxt()))
            if isinstance(s, ast.Assign) and len(s.targets) == 1 and isinstance(s.targets[0], ast.Name):
                n, v = s.targets[0].id, s.value
                if isinstance(v, ast.Constant) and v.value is None and self.decl.get(n) == "oN":
                    return "(let v_%s := (@None N) in\n %s)" % (n, nxt(dict(env, **{n: "oN"})))
                if isinstance(v, ast.List) and not v.elts and self.decl.get(n) == "pagerecs":
                    return "(let v_%s := (@nil (bytes * bool)) in\n %s)" % (n, nxt(dict(env, **{n: "pagerecs"})))
                if isinstance(v, ast.Call) and ast.unparse(v.func) == "self.__encode" and len(v.args) == 1:
                    a, ta = self.expr(v.args[0], env)
                    if ta != "bytes":
                        raise Unsupported("__encode of %s" % ta)
                    return "(let v_%s := %s in\n %s)" % (n, a, nxt(dict(env, **{n: "bytes"})))
                if isinstance(v, ast.Call) and ast.unparse(v.func) == "self.lru_trie.webentity_inorder_iter":
                    if len(v.args) != 2 or [kw.arg for kw in v.keywords] != ["pagination_path"]:
                        raise Unsupported("call of webentity_inorder_iter")
                    (a, ta), (b, tb) = [self.expr(x, env) for x in v.args]
                    p, tp = self.expr(v.keywords[0].value, env)
                    if (ta, tb, tp) != ("tnode", "bytes", "oN"):
                        raise Unsupported("arguments of webentity_inorder_iter")
                    return ("(match py_trie_webentity_inorder_iter sg %s %s %s with\n | None => %s\n | Some (v_%s, sg) => %s end)"
                            % (a, b, p, self.fail(), n, nxt(dict(env, **{n: "items3"}))))
                if isinstance(v, ast.Name) and env.get(v.id) in ("N",) and self.decl.get(n) == "oN":
                    return "(let v_%s := (Some v_%s) in\n %s)" % (n, v.id, nxt(dict(env, **{n: "oN"})))
                if isinstance(v, ast.Call) and isinstance(v.func, ast.Attribute) and isinstance(v.func.value, ast.Name) \
                        and env.get(v.func.value.id) == "tnode" and (("tnode", v.func.attr) in self.tr.sigs) \
                        and self.tr.sigs[("tnode", v.func.attr)]["kind"] == "pure":
                    a, ta = self.expr(v, env)
                    return "(let v_%s := %s in\n %s)" % (n, a, nxt(dict(env, **{n: ta})))
            if isinstance(s, ast.Return) and isinstance(s.value, ast.Dict):
                a, _ = self.answer(s.value, env)
                if self.in_fold:
                    return "(match %s with None => None | Some v__a => Some (inl (sg, v__a)) end)" % a
                return "(match %s with None => None | Some v__a => Some (sg, v__a) end)" % a
            if isinstance(s, ast.Continue) and self.in_fold:
                return self.go_on(env)
            if isinstance(s, ast.If) and not s.orelse and self.in_fold and len(s.body) == 1 and isinstance(s.body[0], ast.AugAssign):
                # if crawled: c += 1  (joined)
                tg = s.body[0].target.id
                c, tc = self.expr(s.test, env)
                a, ta = self.expr(s.body[0].value, env)
                return "(let v_%s := (if %s then (N.add v_%s %s) else v_%s) in\n %s)" % (tg, c, tg, a, tg, nxt())
            if isinstance(s, ast.For) and not s.orelse and ast.unparse(s.iter) == "range(start_i, len(prefixes))" and isinstance(s.target, ast.Name):
                self.in_fold += 1
                body = self.block(list(s.body), dict(env, **{s.target.id: "N"}), self.go_on)
                self.in_fold -= 1
                return ("(match fold_left (fun (acc : %s) (v_%s : N) =>\n match acc with\n | None => None\n | Some (inl v__a) => Some (inl v__a)\n"
                        " | Some (inr %s) => %s end)\n (py_range2 v_start_i (N.of_nat (length v_prefixes))) (Some (inr %s)) with\n"
                        " | None => %s\n | Some (inl v__a) => Some v__a\n | Some (inr %s) => %s end)"
                        % (ACC_T, s.target.id, PAT, body, PAT, self.fail(), PAT, nxt()))
            if isinstance(s, ast.For) and not s.orelse and isinstance(s.iter, ast.Name) and env.get(s.iter.id) == "items3" \
                    and isinstance(s.target, ast.Tuple) and len(s.target.elts) == 3:
                a, b, c = [x.id for x in s.target.elts]
                self.in_fold += 1
                body = self.block(list(s.body), dict(env, **{a: "tnode", b: "bytes", c: "N"}), self.go_on)
                self.in_fold -= 1
                return ("(match fold_left (fun (acc : %s) (v__it : (py_node * bytes * N)) =>\n match acc with\n | None => None\n | Some (inl v__a) => Some (inl v__a)\n"
                        " | Some (inr %s) => (let '(v_%s, v_%s, v_%s) := v__it in\n %s) end)\n v_%s (Some (inr %s)) with\n"
                        " | None => None\n | Some (inl v__a) => Some (inl v__a)\n | Some (inr %s) => %s end)"
                        % (ACC_T, PAT, a, b, c, body, s.iter.id, PAT, PAT, nxt()))
        return GA.FnT.block(self, stmts, env, k)

    in_fold = 0

    def cond(self, t, env, kt, kf):
        if isinstance(t, ast.UnaryOp) and isinstance(t.op, ast.Not) and isinstance(t.operand, ast.Name) and env.get(t.operand.id) == "otnode":
            n = t.operand.id
            return "(match v_%s with\n | None => %s\n | Some v_%s => %s end)" % (n, kt(dict(env)), n, kf(dict(env, **{n: "tnode"})))
        return GA.FnT.cond(self, t, env, kt, kf)


def main(out):
    T, _, TN, LT = GT.build()
    GW.register(T, TN, LT)
    T.sigs[("tstore", "lru_node")] = {"kind": "tfn", "params": [("lru", "bytes", None)], "rtype": "otnode", "coq": "py_trie_lru_node"}
    T.out = []
    T.join_calls = False
    p = os.path.join(REPO, "traph", "traph.py")
    tree = ast.parse(open(p).read(), p)
    c = [n for n in tree.body if isinstance(n, ast.ClassDef) and n.name == "Traph"]
    TR = dict((n.name, n) for n in c[0].body if isinstance(n, ast.FunctionDef))
    enc = TR.get("__encode")
    if enc is None or [ast.unparse(x) for x in enc.body] != ["if isinstance(string, bytes):\n    return string", "return string.encode(self.encoding)"]:
        raise Unsupported("Traph.__encode body")
    if "self.lru_trie = LRUTrie(self.lru_trie_storage, encoding=encoding)" not in ast.unparse(TR["__init__"]):
        raise Unsupported("Traph.__init__: lru_trie")
    fn = TR["paginate_webentity_pages"]
    params = [("weid", "N"), ("prefixes", "listB"), ("page_count", "oN"), ("pagination_token", "ostr"), ("crawled_only", "bool")]
    if [a.arg for a in fn.args.args] != ["self"] + [q[0] for q in params] or [ast.unparse(d) for d in fn.args.defaults] != ["None", "None", "False"]:
        raise Unsupported("paginate_webentity_pages signature")
    f = FnG(T, fn, None, "traph", True, "answer",
            decl={"pagination_path": "oN", "last_path": "oN", "last_path_i": "oN", "pages": "pagerecs"})
    f.returns = ["sg"]
    f.has_sg = True
    f.tnode_storage = "sg"
    f.rcoq = "option (py_pm * py_pages_answer)"
    body = [x for x in fn.body if not (isinstance(x, ast.Expr) and isinstance(x.value, ast.Constant))]
    # the state threaded through the loops is exactly these locals (checked: every name assigned inside the loops is one of them
    # or a loop-local)
    assigned = set()
    for st in body:
        if isinstance(st, ast.For):
            for n in ast.walk(st):
                if isinstance(n, (ast.Assign, ast.AugAssign)):
                    for t in (n.targets if isinstance(n, ast.Assign) else [n.target]):
                        for y in ast.walk(t):
                            if isinstance(y, ast.Name):
                                assigned.add(y.id)
    loop_locals = {"current_prefix", "starting_node", "generator", "crawled"}
    if assigned - loop_locals != {"c", "last_path", "last_path_i", "n", "pagination_path"}:
        raise Unsupported("state of the pagination loops: %s" % sorted(assigned))
    txt = f.block(body, dict(params), lambda e2: (_ for _ in ()).throw(Unsupported("paginate_webentity_pages falls off its end")))
    ps = "".join(" (v_%s : %s)" % (q[0], GL.COQT[q[1]]) for q in params)
    T.out.append("Definition py_traph_paginate_webentity_pages (sg : py_pm)%s : option (py_pm * py_pages_answer) :=\n %s." % (ps, txt))
    L = ["(* GENERATED by harness/gen_traphg.py from %s/traph/traph.py -- do not edit *)" % REPO,
         "From Coq Require Import List NArith Bool Arith.", "Import ListNotations.",
         "From Traph Require Import Bytes Consts Layout Codec Helpers GenStorage GenNode GenLinks GenTrie GenTrieW GenTrieI.",
         "From Traph Require GenHelpers2.", "", PREAMBLE]
    text = "\n".join(L + T.out) + "\n"
    old = open(out).read() if os.path.exists(out) else None
    if old != text:
        with open(out, "w") as fh:
            fh.write(text)
    return 0


if __name__ == "__main__":
    try:
        sys.exit(main(sys.argv[1]))
    except Unsupported as e:
        print("gen_traphg: UNSUPPORTED: %s" % e)
        sys.exit(3)
    except (KeyError, AttributeError, IndexError, TypeError) as e:
        print("gen_traphg: UNSUPPORTED: unexpected source shape (%s: %s)" % (type(e).__name__, e))
        sys.exit(3)
