#!/venv/bin/python
"""Translate the insertion of pages with automatic webentity creation (traph/traph.py: Traph.add_page, add_pages, __add_page,
__create_webentity, expand_prefix, __apply_webentity_creation_rule, __apply_webentity_default_creation_rule;
traph/lru_trie/walk_history.py: LRUTrieWalkHistory.rules_to_apply; traph/traph_write_report.py: the whole class) from the Python
AST into Gallina: coq/theories/GenTraphP.v, regenerated on every run.  Built on the translated LRUTrie.add_page (GenTrieW.v),
Traph.__add_prefixes (GenTraphW.v) and helpers.lru_variations (GenHelpers.v).
  * RAM of the index: the compiled creation rules.  `self.webentity_creation_rules` is a dict anchor -> compiled regex and
    `self.default_webentity_creation_rule` a compiled regex; they are the record py_ram (rules : list (bytes * rulekind),
    dflt : rulekind), read-only in these functions.  `regexp.search(lru)` followed by `match.group()` is the primitive
    py_re_search = Rules.apply_rule (the stem-level matcher of Hyphe's rule family, compared with Python's `re` on every run by
    the correspondence harness: a modelled primitive, not a translated one); `d[k]` on a missing key raises (None).  The two
    __apply_* methods are checked textually against that shape.
  * TraphWriteReport is the record py_report (created : association list id -> prefixes in insertion order, nb_pages);
    `report += other` is __iadd__ (checked textually): dict.update of the created webentities, sum of the page counts.
  * `history.rules_to_apply()` (a generator without effects) is the list it yields; `self.lru[0:position]` is firstn.
  * `len(x) <= history.webentity_position` with position -1 (None) is false; `""` is the empty byte string.
  * warnings.warn(..) has no effect on the index and is dropped (one statement of that shape).
GenTraphPFacts.v proves the translated add_page equal to the model's Traph.add_page_int on every reachable state (C06, C01)."""
import ast
import os
import sys

sys.path.insert(0, os.path.dirname(os.path.abspath(__file__)))
import gen_links as GL       # noqa: E402
import gen_trie as GT        # noqa: E402
import gen_triew as GW       # noqa: E402
import gen_traph as GA       # noqa: E402
import gen_traphw as GWW     # noqa: E402

REPO = os.environ.get("VERIF_REPO", "/repo")
Unsupported = GL.Unsupported

GL.COQT.update({"report": "py_report", "ram": "py_ram"})
GL.ATTRS["report"] = ("rp", {"created_webentities": "cdict", "nb_created_pages": "N"})
GL.COQT["cdict"] = "list (N * list bytes)"

PREAMBLE = r"""(* RAM of the index: the compiled creation rules (anchor -> rule kind) and the default rule *)
Record py_ram := mk_ram { ram_rules : list (bytes * rulekind); ram_dflt : rulekind }.
(* regexp.search(lru) then match.group(): the modelled matcher of Hyphe's rule family *)
Definition py_re_search (k : rulekind) (lru : bytes) : option bytes := apply_rule k lru.
Fixpoint py_rules_get (k : bytes) (d : list (bytes * rulekind)) : option rulekind :=
  match d with
  | [] => None
  | (k', v) :: d' => if beq k k' then Some v else py_rules_get k d'
  end.
(* TraphWriteReport *)
Record py_report := mk_rp { rp_created_webentities : list (N * list bytes); rp_nb_created_pages : N }.
Definition rp_set_created_webentities (v : list (N * list bytes)) (r : py_report) := mk_rp v (rp_nb_created_pages r).
Definition rp_set_nb_created_pages (v : N) (r : py_report) := mk_rp (rp_created_webentities r) v.
Definition py_report_new : py_report := mk_rp [] 0%N.
(* dict.update on a dict with integer keys kept as an association list in insertion order *)
Fixpoint py_cdict_set (k : N) (v : list bytes) (d : list (N * list bytes)) : list (N * list bytes) :=
  match d with
  | [] => [(k, v)]
  | (k', v') :: d' => if N.eqb k k' then (k', v) :: d' else (k', v') :: py_cdict_set k v d'
  end.
Definition py_cdict_update (d other : list (N * list bytes)) : list (N * list bytes) :=
  fold_left (fun acc kv => py_cdict_set (fst kv) (snd kv) acc) other d.
(* TraphWriteReport.__iadd__ *)
Definition py_report_iadd (r other : py_report) : py_report :=
  mk_rp (py_cdict_update (rp_created_webentities r) (rp_created_webentities other))
        (N.add (rp_nb_created_pages r) (rp_nb_created_pages other)).
"""


class FnP(GWW.FnW):
    def expr(self, e, env):
        if isinstance(e, ast.Constant) and e.value == "":
            return "(@nil N)", "bytes"
        if isinstance(e, ast.Compare) and len(e.ops) == 1 and isinstance(e.ops[0], (ast.LtE, ast.Gt)):
            a, ta = self.expr(e.left, env)
            b, tb = self.expr(e.comparators[0], env)
            if isinstance(e.ops[0], ast.LtE) and ta == "N" and tb == "oN":
                # n <= position, position -1 (None): false
                return "(match %s with None => false | Some v__p => N.leb %s v__p end)" % (b, a), "bool"
            if isinstance(e.ops[0], ast.Gt) and ta == "N" and tb == "N":
                return "(N.ltb %s %s)" % (b, a), "bool"
        if isinstance(e, ast.Attribute) and isinstance(e.value, ast.Name) and env.get(e.value.id) == "report" and e.attr in GL.ATTRS["report"][1]:
            return "(rp_%s v_%s)" % (e.attr, e.value.id), GL.ATTRS["report"][1][e.attr]
        if isinstance(e, ast.Call) and isinstance(e.func, ast.Name) and e.func.id == "len" and len(e.args) == 1:
            a, ta = self.expr(e.args[0], env)
            if ta == "bytes":
                return "(N.of_nat (length %s))" % a, "N"
        if isinstance(e, ast.BoolOp) and isinstance(e.op, ast.And) and isinstance(e.values[0], ast.Name) and env.get(e.values[0].id) == "obytes":
            # x and <test on x>: x is None or empty -> false
            n = e.values[0].id
            rest = [self.expr(v, dict(env, **{n: "bytes"})) for v in e.values[1:]]
            if any(t != "bool" for _, t in rest):
                raise Unsupported("and of non-booleans")
            return "(match v_%s with None => false | Some v_%s => (py_nonempty v_%s)%s end)" % (
                n, n, n, "".join(" && " + a for a, _ in rest)), "bool"
        return GWW.FnW.expr(self, e, env)

    def cond(self, t, env, kt, kf):
        if isinstance(t, ast.Name) and env.get(t.id) == "bytes":
            return "(if (py_nonempty v_%s)\n then %s\n else %s)" % (t.id, kt(dict(env)), kf(dict(env)))
        if isinstance(t, ast.UnaryOp) and isinstance(t.op, ast.Not) and isinstance(t.operand, ast.Name) and env.get(t.operand.id) == "obytes":
            n = t.operand.id
            return "(match v_%s with\n | None => %s\n | Some v_%s => (if (py_nonempty v_%s) then %s else %s) end)" % (
                n, kt(dict(env)), n, n, kf(dict(env, **{n: "bytes"})), kt(dict(env)))
        if isinstance(t, ast.Name) and env.get(t.id) == "oN":
            n = t.id        # an id: None or 0 -> false
            return "(match v_%s with\n | None => %s\n | Some v_%s => (if (N.eqb v_%s 0%%N) then %s else %s) end)" % (
                n, kf(dict(env)), n, n, kf(dict(env)), kt(dict(env, **{n: "N"})))
        if isinstance(t, ast.Attribute) and isinstance(t.value, ast.Name) and env.get(t.value.id) == "hist":
            a, ta = self.expr(t, env)
            if ta == "bool":
                return "(if %s\n then %s\n else %s)" % (a, kt(dict(env)), kf(dict(env)))
        return GWW.FnW.cond(self, t, env, kt, kf)

    def block(self, stmts, env, k):
        if stmts:
            s, rest = stmts[0], stmts[1:]
            nxt = lambda env2=None: self.block(rest, env if env2 is None else env2, k)          # noqa: E731
            if isinstance(s, ast.Expr) and isinstance(s.value, ast.Call) and ast.unparse(s.value.func) == "warnings.warn":
                return nxt()
            if isinstance(s, ast.Assign) and len(s.targets) == 1 and isinstance(s.targets[0], ast.Name):
                n, v = s.targets[0].id, s.value
                if ast.unparse(v) == "TraphWriteReport()":
                    return "(let v_%s := py_report_new in\n %s)" % (n, nxt(dict(env, **{n: "report"})))
                if isinstance(v, ast.Call) and ast.unparse(v.func) in ("self.__apply_webentity_creation_rule", "self.__apply_webentity_default_creation_rule"):
                    args = [self.expr(a, env) for a in v.args]
                    if any(t != "bytes" for _, t in args) or v.keywords:
                        raise Unsupported("arguments of %s" % ast.unparse(v.func))
                    coq = "py_traph_apply_webentity_creation_rule" if len(args) == 2 else "py_traph_apply_webentity_default_creation_rule"
                    return "(match %s rm %s with\n | None => %s\n | Some v_%s => %s end)" % (
                        coq, " ".join(a for a, _ in args), self.fail(), n, nxt(dict(env, **{n: "obytes"})))
                if isinstance(v, ast.Call) and ast.unparse(v.func) == "self.expand_prefix" and len(v.args) == 1:
                    a, ta = self.expr(v.args[0], env)
                    return "(let v_%s := py_traph_expand_prefix %s in\n %s)" % (n, a, nxt(dict(env, **{n: "listB"})))
                if isinstance(v, ast.List) and len(v.elts) == 1:
                    a, ta = self.expr(v.elts[0], env)
                    if ta == "bytes":
                        return "(let v_%s := [%s] in\n %s)" % (n, a, nxt(dict(env, **{n: "listB"})))
            if isinstance(s, ast.Assign) and len(s.targets) == 1 and isinstance(s.targets[0], ast.Tuple) and isinstance(s.value, ast.Call) \
                    and ast.unparse(s.value.func) == "self.__add_prefixes" and len(s.value.args) == 2 and not s.value.keywords:
                a = [x.id for x in s.targets[0].elts]
                p, tp = self.expr(s.value.args[0], env)
                b, tb = self.expr(s.value.args[1], env)
                if (tp, tb) != ("listB", "bool") or len(a) != 2:
                    raise Unsupported("arguments of __add_prefixes")
                return "(match py_traph_add_prefixes hd sg %s %s with\n | None => %s\n | Some (hd, sg, (v_%s, v_%s)) => %s end)" % (
                    p, b, self.fail(), a[0], a[1], nxt(dict(env, **{a[0]: "oN", a[1]: "listB"})))
            if isinstance(s, ast.Assign) and len(s.targets) == 1 and isinstance(s.targets[0], ast.Tuple) and isinstance(s.value, ast.Call) \
                    and ast.unparse(s.value.func) == "self.__add_page":
                a = [x.id for x in s.targets[0].elts]
                c = s.value
                if len(a) != 2 or len(c.args) != 1 or [kw.arg for kw in c.keywords] != ["crawled"]:
                    raise Unsupported("call of __add_page")
                l, tl = self.expr(c.args[0], env)
                b, tb = self.expr(c.keywords[0].value, env)
                return "(match py_traph_add_page_int rm hd sg %s %s with\n | None => %s\n | Some (hd, sg, (v_%s, v_%s)) => %s end)" % (
                    l, b, self.fail(), a[0], a[1], nxt(dict(env, **{a[0]: "tnode", a[1]: "report"})))
            if isinstance(s, ast.Assign) and isinstance(s.targets[0], ast.Subscript) and ast.unparse(s.targets[0].value) == "report.created_webentities" \
                    and env.get("report") == "report":
                kx, tk = self.expr(s.targets[0].slice, env)
                a, ta = self.expr(s.value, env)
                if (tk, ta) != ("N", "listB"):
                    raise Unsupported("created_webentities[%s] = %s" % (tk, ta))
                return "(let v_report := rp_set_created_webentities (py_cdict_set %s %s (rp_created_webentities v_report)) v_report in\n %s)" % (kx, a, nxt())
            if isinstance(s, ast.AugAssign) and isinstance(s.op, ast.Add) and isinstance(s.target, ast.Attribute) \
                    and isinstance(s.target.value, ast.Name) and env.get(s.target.value.id) == "report" and s.target.attr == "nb_created_pages":
                a, ta = self.expr(s.value, env)
                r = s.target.value.id
                return "(let v_%s := rp_set_nb_created_pages (N.add (rp_nb_created_pages v_%s) %s) v_%s in\n %s)" % (r, r, a, r, nxt())
            if isinstance(s, ast.AugAssign) and isinstance(s.op, ast.Add) and isinstance(s.target, ast.Name) and env.get(s.target.id) == "report":
                r = s.target.id
                if isinstance(s.value, ast.Name) and env.get(s.value.id) == "report":
                    return "(let v_%s := py_report_iadd v_%s v_%s in\n %s)" % (r, r, s.value.id, nxt())
                if isinstance(s.value, ast.Call) and ast.unparse(s.value.func) == "self.__create_webentity":
                    c = s.value
                    if len(c.args) != 1 or [kw.arg for kw in c.keywords] != ["expand"] or ast.unparse(c.keywords[0].value) != "True":
                        raise Unsupported("call of __create_webentity")
                    a, ta = self.expr(c.args[0], env)
                    return "(match py_traph_create_webentity_from hd sg %s true true with\n | None => %s\n | Some (hd, sg, v__r) => (let v_%s := py_report_iadd v_%s v__r in\n %s) end)" % (
                        a, self.fail(), r, r, nxt())
            if isinstance(s, ast.If) and not s.orelse and isinstance(s.test, ast.Attribute) and isinstance(s.test.value, ast.Name) \
                    and env.get(s.test.value.id) == "hist" and len(s.body) == 1 and isinstance(s.body[0], ast.AugAssign):
                # if history.page_was_created: report.nb_created_pages += 1   (joined on the report)
                c, tc = self.expr(s.test, env)
                r = s.body[0].target.value.id
                body = self.block(list(s.body), dict(env), lambda e2: "v_%s" % r)
                return "(let v_%s := (if %s\n then %s\n else v_%s) in\n %s)" % (r, c, body, r, nxt())
            if isinstance(s, ast.For) and isinstance(s.iter, ast.Call) and ast.unparse(s.iter.func) == "history.rules_to_apply" and not s.orelse \
                    and env.get("history") == "hist" and isinstance(s.target, ast.Name):
                # for rule_prefix in history.rules_to_apply(): <body that may raise, changing one local>
                names = sorted(set(x.targets[0].id for x in ast.walk(ast.Module(body=list(s.body), type_ignores=[]))
                                   if isinstance(x, ast.Assign) and isinstance(x.targets[0], ast.Name) and x.targets[0].id in env))
                if len(names) != 1 or env[names[0]] != "bytes":
                    raise Unsupported("state of the loop over rules_to_apply")
                st = names[0]
                saved = self.loop_k
                self.loop_k = True
                body = self.block(list(s.body), dict(env, **{s.target.id: "bytes"}), lambda e2: "(Some v_%s)" % st)
                self.loop_k = saved
                return ("(match fold_left (fun (acc : option bytes) (v_%s : bytes) =>\n match acc with\n | None => None\n | Some v_%s => %s end)\n"
                        " (py_hist_rules_to_apply v_history) (Some v_%s) with\n | None => %s\n | Some v_%s => %s end)"
                        % (s.target.id, st, body, st, self.fail(), st, nxt()))
            if isinstance(s, ast.For) and isinstance(s.target, ast.Name) and isinstance(s.iter, ast.Name) and env.get(s.iter.id) == "listB" \
                    and env.get("report") == "report" and not s.orelse:
                # add_pages: for lru in lrus: ...; report += page_report
                saved = self.loop_k
                self.loop_k = True
                body = self.block(list(s.body), dict(env, **{s.target.id: "bytes"}), lambda e2: "(Some (hd, sg, v_report))")
                self.loop_k = saved
                return ("(match fold_left (fun (st : option (py_thdr * py_pm * py_report)) (v_%s : bytes) =>\n match st with\n | None => None\n"
                        " | Some (hd, sg, v_report) => %s end)\n v_%s (Some (hd, sg, v_report)) with\n | None => %s\n | Some (hd, sg, v_report) => %s end)"
                        % (s.target.id, body, s.iter.id, self.fail(), nxt()))
            if isinstance(s, ast.If) and not s.orelse and len(s.body) == 1 and isinstance(s.body[0], ast.Assign) \
                    and isinstance(s.body[0].targets[0], ast.Name) and isinstance(s.body[0].value, ast.Name) \
                    and env.get(s.body[0].targets[0].id) == "bytes" and env.get(s.body[0].value.id) == "obytes":
                # if candidate and len(candidate) > len(longest): longest = candidate   (joined on longest)
                tgt, src = s.body[0].targets[0].id, s.body[0].value.id
                c, tc = self.expr(s.test, env)
                if tc != "bool":
                    raise Unsupported("truth of %s" % tc)
                return "(let v_%s := (if %s\n then (match v_%s with Some v__c => v__c | None => v_%s end)\n else v_%s) in\n %s)" % (tgt, c, src, tgt, tgt, nxt())
        return GWW.FnW.block(self, stmts, env, k)


def main(out):
    T, _, TN, LT = GT.build()
    GW.register(T, TN, LT)
    T.sigs[("tstore", "lru_node")] = {"kind": "tfn", "params": [("lru", "bytes", None)], "rtype": "otnode", "coq": "py_trie_lru_node"}
    T.sigs[("tstore", "add_page")]["params"] = [("lru", "bytes", None), ("crawled", "bool", "false")]
    T.out = []
    T.sigs[("tnode", "refresh")] = {"kind": "io", "params": [], "rtype": None, "coq": "py_node_refresh"}
    # ---- walk history: rules_to_apply ----
    ph = os.path.join(REPO, "traph", "lru_trie", "walk_history.py")
    WH = GW.cls(ast.parse(open(ph).read(), ph), "LRUTrieWalkHistory")
    want = ("for position in reversed(self.webentity_creation_rules):\n    if position >= 0:\n        prefix = self.lru[0:position]\n        yield prefix")
    if [a.arg for a in WH["rules_to_apply"].args.args] != ["self"] or len(WH["rules_to_apply"].body) != 1 \
            or ast.unparse(WH["rules_to_apply"].body[0]) != want:
        raise Unsupported("rules_to_apply body: %s" % ast.unparse(WH["rules_to_apply"].body[0]))
    T.out.append("(* positions are lengths (never negative): `position >= 0` holds; self.lru[0:position] = firstn *)\n"
                 "Definition py_hist_rules_to_apply (hs : py_hist) : list bytes :=\n"
                 " map (fun v_position => firstn (N.to_nat v_position) (hs_lru hs)) (rev (hs_webentity_creation_rules hs)).")
    # ---- the write report ----
    pr = os.path.join(REPO, "traph", "traph_write_report.py")
    WR = GW.cls(ast.parse(open(pr).read(), pr), "TraphWriteReport")
    if [ast.unparse(x) for x in WR["__init__"].body] != ["self.created_webentities = {}", "self.nb_created_pages = 0"]:
        raise Unsupported("TraphWriteReport.__init__")
    if [ast.unparse(x) for x in WR["__iadd__"].body] != ["self.created_webentities.update(other.created_webentities)",
                                                         "self.nb_created_pages += other.nb_created_pages", "return self"]:
        raise Unsupported("TraphWriteReport.__iadd__")
    # ---- Traph ----
    p = os.path.join(REPO, "traph", "traph.py")
    tree = ast.parse(open(p).read(), p)
    c = [n for n in tree.body if isinstance(n, ast.ClassDef) and n.name == "Traph"]
    TR = dict((n.name, n) for n in c[0].body if isinstance(n, ast.FunctionDef))
    enc = TR.get("__encode")
    if enc is None or [ast.unparse(x) for x in enc.body] != ["if isinstance(string, bytes):\n    return string", "return string.encode(self.encoding)"]:
        raise Unsupported("Traph.__encode body")
    for name, first in (("__apply_webentity_creation_rule", "regexp = self.webentity_creation_rules[rule_prefix]"),
                        ("__apply_webentity_default_creation_rule", "regexp = self.default_webentity_creation_rule")):
        if [ast.unparse(x) for x in TR[name].body] != [first, "match = regexp.search(lru)", "if not match:\n    return None", "return match.group()"]:
            raise Unsupported("%s body" % name)
    init_src = ast.unparse(TR["__init__"])
    if "re.compile(default_webentity_creation_rule, re.I)" not in init_src:
        raise Unsupported("Traph.__init__: default rule")
    T.out.append("(* d[k] raises KeyError on a missing key: None;  Some None = no match *)\n"
                 "Definition py_traph_apply_webentity_creation_rule (rm : py_ram) (v_rule_prefix v_lru : bytes) : option (option bytes) :=\n"
                 " match py_rules_get v_rule_prefix (ram_rules rm) with\n | None => None\n | Some v_regexp => Some (py_re_search v_regexp v_lru) end.")
    T.out.append("Definition py_traph_apply_webentity_default_creation_rule (rm : py_ram) (v_lru : bytes) : option (option bytes) :=\n"
                 " Some (py_re_search (ram_dflt rm) v_lru).")
    if [ast.unparse(x) for x in TR["expand_prefix"].body] != ["prefix = self.__encode(prefix)", "return lru_variations(prefix)"]:
        raise Unsupported("expand_prefix body")
    T.out.append("Definition py_traph_expand_prefix (v_prefix : bytes) : list bytes := GenHelpers.py_lru_variations v_prefix.")

    def pfn(name, coqname, params, rtype, rcoq, decl=None, defaults=None, ram=True):
        fn = TR[name]
        if [a.arg for a in fn.args.args] != ["self"] + [q[0] for q in params] or fn.args.vararg or fn.args.kwarg:
            raise Unsupported("%s signature" % name)
        if [ast.unparse(d) for d in fn.args.defaults] != (defaults or []):
            raise Unsupported("%s defaults" % name)
        f = FnP(T, fn, None, "traph", True, rtype, decl=decl or {})
        f.returns = ["hd", "sg"]
        f.has_sg = True
        f.tnode_storage = "sg"
        f.rcoq = "option (py_thdr * py_pm * %s)" % rcoq
        body = f.block(list(fn.body), dict((q[0], q[1]) for q in params),
                       lambda e2: (_ for _ in ()).throw(Unsupported("%s falls off its end" % name)))
        ps = "".join(" (v_%s : %s)" % (q[0], GL.COQT[q[1]]) for q in params)
        T.out.append("Definition %s %s(hd : py_thdr) (sg : py_pm)%s : option (py_thdr * py_pm * %s) :=\n %s."
                     % (coqname, "(rm : py_ram) " if ram else "", ps, rcoq, body))
    pfn("__create_webentity", "py_traph_create_webentity_from", [("prefix", "bytes", None), ("expand", "bool", None), ("use_best_case", "bool", None)],
        "report", "py_report", defaults=["True", "True"], ram=False)
    pfn("__add_page", "py_traph_add_page_int", [("lru", "bytes", None), ("crawled", "bool", None)], "pair:tnode:report", "(py_node * py_report)",
        defaults=["False"])
    pfn("add_page", "py_traph_add_page", [("lru", "bytes", None), ("crawled", "bool", None)], "report", "py_report", defaults=["False"])
    pfn("add_pages", "py_traph_add_pages", [("lrus", "listB", None), ("crawled", "bool", None)], "report", "py_report", defaults=["False"])
    L = ["(* GENERATED by harness/gen_traphp.py from %s/traph/traph.py, traph_write_report.py, lru_trie/walk_history.py -- do not edit *)" % REPO,
         "From Coq Require Import List NArith Bool Arith.", "Import ListNotations.",
         "From Traph Require Import Bytes Consts Layout Codec Rules GenStorage GenNode GenLinks GenTrie GenTrieW GenTraphW.",
         "From Traph Require GenHelpers.", "", PREAMBLE]
    text = "\n".join(L + T.out) + "\n"
    old = open(out).read() if os.path.exists(out) else None
    if old != text:
        with open(out, "w") as fh:
            fh.write(text)
    return 0


if __name__ == "__main__":
    try:
        sys.exit(main(sys.argv[1]))
    except Unsupported as e:
        print("gen_traphp: UNSUPPORTED: %s" % e)
        sys.exit(3)
    except (KeyError, AttributeError, IndexError, TypeError) as e:
        print("gen_traphp: UNSUPPORTED: unexpected source shape (%s: %s)" % (type(e).__name__, e))
        sys.exit(3)
