#!/venv/bin/python
"""Translate the ordered traversal behind pagination (traph/lru_trie/lru_trie.py: LRUTrie.webentity_inorder_iter with its three
nested functions follow_path, can_follow_path and the RECURSIVE generator inorder_traversal; traph/lru_trie/node.py: left_node,
right_node, child_node) from the Python AST into Gallina: coq/theories/GenTrieI.v, regenerated on every run.
  * The nested functions are closures: each becomes a function whose captured variables (starting_node, starting_lru,
    comparison_path, pagination_path, pagination_lru) are ordinary parameters / variables in scope - Python reads them when the
    closure RUNS, and none of them is assigned after the closures' first use (checked: the only assignments to them precede
    `for item in inorder_traversal(starting_node, starting_lru)`).
  * inorder_traversal is a recursive generator: `for item in inorder_traversal(<node>, <lru>, <path>): yield item` is the
    recursive call, its items appended.  It becomes a fixpoint on fuel 1 + size of the store (every recursive call first reads
    one more node of the tree: GenTrieIFacts.v proves the fuel suffices on the files of every reachable state); running out of
    fuel yields None.  The items are triples (node object, lru, path).
  * paths: `int_to_base4` is the translated helper of GenHelpers2.v (a str of the digits '0'..'3' kept as bytes); `for op in p`
    walks its characters; `op == "1"` compares character codes; `comparison_path[: len(current_path)]` is firstn;
    `current_path >= p` is Python's string order = the lexicographic byte order Bytes.lex on these ASCII strings;
    `current_lru > pagination_lru` the bytes order.  A comparison / slice with None (never reached: comparison_path and
    pagination_lru are set whenever pagination_path is) raises: None.
  * left_node / right_node / child_node return a NEW node object read from the storage, or raise."""
import ast
import os
import sys

sys.path.insert(0, os.path.dirname(os.path.abspath(__file__)))
import gen_links as GL       # noqa: E402
import gen_trie as GT        # noqa: E402
import gen_triew as GW       # noqa: E402
import gen_tried as GD       # noqa: E402

REPO = os.environ.get("VERIF_REPO", "/repo")
Unsupported = GL.Unsupported

GL.COQT.update({"str": "bytes", "ostr": "option bytes", "triple:tnode:bytes:N": "(py_node * bytes * N)"})
ITEM = "(py_node * bytes * N)"


class FnI(GD.FnD):
    rec_name = None          # name of the recursive generator being translated

    def expr(self, e, env):
        if isinstance(e, ast.Constant) and isinstance(e.value, str):
            return ("[" + "; ".join("%d%%N" % ord(c) for c in e.value) + "]" if e.value else "(@nil N)"), "str"
        if isinstance(e, ast.Call) and isinstance(e.func, ast.Name) and e.func.id == "int_to_base4" and len(e.args) == 1:
            a, ta = self.expr(e.args[0], env)
            if ta != "N":
                raise Unsupported("int_to_base4 of %s" % ta)
            return "(GenHelpers2.py_int_to_base4 %s)" % a, "str"
        if isinstance(e, ast.Call) and isinstance(e.func, ast.Name) and e.func.id == "base4_append" and len(e.args) == 2:
            (a, ta), (b, tb) = [self.expr(x, env) for x in e.args]
            if (ta, tb) != ("N", "N"):
                raise Unsupported("base4_append arguments")
            return "(GenHelpers.py_base4_append %s %s)" % (a, b), "N"
        if isinstance(e, ast.Call) and isinstance(e.func, ast.Name) and e.func.id == "len" and len(e.args) == 1:
            a, ta = self.expr(e.args[0], env)
            if ta in ("str", "bytes"):
                return "(N.of_nat (length %s))" % a, "N"
        if isinstance(e, ast.IfExp):
            c, tc = self.expr(e.test, env)
            (a, ta), (b, tb) = self.expr(e.body, env), self.expr(e.orelse, env)
            if tc == "bool" and ta == tb:
                return "(if %s then %s else %s)" % (c, a, b), ta
        if isinstance(e, ast.Compare) and len(e.ops) == 1:
            a, ta = self.expr(e.left, env)
            b, tb = self.expr(e.comparators[0], env)
            op = e.ops[0]
            if ta == "str" and tb == "str" and isinstance(op, ast.Eq):
                return "(beq %s %s)" % (a, b), "bool"
            if ta == "str" and tb == "str" and isinstance(op, ast.GtE):
                return "(negb (blt %s %s))" % (a, b), "bool"
            if ta == "bytes" and tb == "bytes" and isinstance(op, ast.Gt):
                return "(blt %s %s)" % (b, a), "bool"
            if ta == "N" and tb == "N" and isinstance(op, ast.NotEq):
                return "(negb (N.eqb %s %s))" % (a, b), "bool"
            if ta == "N" and tb == "N" and isinstance(op, ast.Eq):
                return "(N.eqb %s %s)" % (a, b), "bool"
        if isinstance(e, ast.Subscript) and isinstance(e.slice, ast.Slice) and e.slice.lower is None and e.slice.step is None:
            a, ta = self.expr(e.value, env)
            b, tb = self.expr(e.slice.upper, env)
            if ta == "str" and tb == "N":
                return "(firstn (N.to_nat %s) %s)" % (b, a), "str"
        if isinstance(e, ast.BinOp) and isinstance(e.op, ast.Add):
            a, ta = self.expr(e.left, env)
            b, tb = self.expr(e.right, env)
            if ta == "bytes" and tb == "bytes":
                return "(%s ++ %s)" % (a, b), "bytes"
        return GD.FnD.expr(self, e, env)

    def block(self, stmts, env, k):
        if stmts:
            s, rest = stmts[0], stmts[1:]
            nxt = lambda env2=None: self.block(rest, env if env2 is None else env2, k)          # noqa: E731
            # for item in inorder_traversal(<new node>, <lru>, <path>): yield item
            if isinstance(s, ast.For) and isinstance(s.iter, ast.Call) and isinstance(s.iter.func, ast.Name) and s.iter.func.id == self.rec_name \
                    and len(s.body) == 1 and isinstance(s.target, ast.Name) and ast.unparse(s.body[0]) == "yield %s" % s.target.id and not s.orelse:
                a0 = s.iter.args[0]
                if not (isinstance(a0, ast.Call) and isinstance(a0.func, ast.Attribute) and isinstance(a0.func.value, ast.Name)
                        and env.get(a0.func.value.id) == "tnode" and a0.func.attr in ("left_node", "right_node", "child_node") and not a0.args):
                    raise Unsupported("first argument of the recursive call")
                (l, tl), (p, tp) = [self.expr(x, env) for x in s.iter.args[1:]]
                if (tl, tp) != ("bytes", "N") or len(s.iter.args) != 3 or s.iter.keywords:
                    raise Unsupported("arguments of the recursive call")
                return ("(match py_node_%s v_%s sg with\n | None => %s\n | Some (v__sub, sg) =>\n (match py_rec fuel' sg v__sub %s %s with\n | None => %s\n"
                        " | Some (v__items, sg) => (let v__out := v__out ++ v__items in\n %s) end) end)"
                        % (a0.func.attr, a0.func.value.id, self.fail(), l, p, self.fail(), nxt()))
            if isinstance(s, ast.Expr) and isinstance(s.value, ast.Yield) and isinstance(s.value.value, ast.Tuple) and len(s.value.value.elts) == 3:
                parts = [self.expr(x, env) for x in s.value.value.elts]
                if [t for _, t in parts] != ["tnode", "bytes", "N"]:
                    raise Unsupported("yield of %s" % [t for _, t in parts])
                return "(let v__out := v__out ++ [(%s, %s, %s)] in\n %s)" % (parts[0][0], parts[1][0], parts[2][0], nxt())
            if isinstance(s, ast.Return) and s.value is None and self.gen is not None:
                return "(Some (v__out, sg))"
            if isinstance(s, ast.If) and not s.orelse and self.rec_name is not None \
                    and not any(isinstance(n, ast.Return) for n in ast.walk(ast.Module(body=list(s.body), type_ignores=[]))):
                # an `if` without else inside the recursive generator: joined on (output, storage) so that what follows is not
                # duplicated (the body may raise: option)
                inner = self.block(list(s.body), dict(env), lambda e2: "(Some (v__out, sg))")
                test = self.cond(s.test, env, lambda e2: inner, lambda e2: "(Some (v__out, sg))")
                return "(match %s with\n | None => %s\n | Some (v__out, sg) => %s end)" % (test, self.fail(), nxt())
        return GD.FnD.block(self, stmts, env, k)

    def cond(self, t, env, kt, kf):
        # pagination_path is not None and not can_follow_path(path)
        if isinstance(t, ast.BoolOp) and isinstance(t.op, ast.And) and len(t.values) == 2 and ast.unparse(t.values[0]) == "pagination_path is not None" \
                and ast.unparse(t.values[1]).startswith("not can_follow_path(") and env.get("pagination_path") == "oN":
            a, ta = self.expr(t.values[1].operand.args[0], env)
            return ("(match v_pagination_path with\n | None => %s\n | Some _ => (match py_inorder_can_follow_path v_comparison_path %s with\n | None => %s\n"
                    " | Some v__c => (if (negb v__c)\n then %s\n else %s) end) end)" % (kf(dict(env)), a, self.fail(), kt(dict(env)), kf(dict(env))))
        # pagination_path is None or current_lru > pagination_lru
        if isinstance(t, ast.BoolOp) and isinstance(t.op, ast.Or) and len(t.values) == 2 and ast.unparse(t.values[0]) == "pagination_path is None" \
                and isinstance(t.values[1], ast.Compare) and isinstance(t.values[1].ops[0], ast.Gt) \
                and ast.unparse(t.values[1].comparators[0]) == "pagination_lru" and env.get("pagination_lru") == "obytes":
            a, ta = self.expr(t.values[1].left, env)
            return ("(match v_pagination_path with\n | None => %s\n | Some _ => (match v_pagination_lru with\n | None => %s\n"
                    " | Some v__pl => (if (blt v__pl %s)\n then %s\n else %s) end) end)" % (kt(dict(env)), self.fail(), a, kt(dict(env)), kf(dict(env))))
        if isinstance(t, ast.Name) and env.get(t.id) == "bool":
            return "(if v_%s\n then %s\n else %s)" % (t.id, kt(dict(env)), kf(dict(env)))
        return GD.FnD.cond(self, t, env, kt, kf)

    def forloop(self, s, env, nxt):
        # for op in p:  (the characters of a str), a body that reads nodes
        if isinstance(s.target, ast.Name) and isinstance(s.iter, ast.Name) and env.get(s.iter.id) == "str" and not s.orelse:
            names = sorted(x for x in self.mutated(s.body, env) if x != s.target.id)
            vars_ = ["sg"] + ["v_%s" % x for x in names]
            types = ["py_pm"] + [GL.COQT[env[x]] for x in names]
            pat, ty = "(" + ", ".join(vars_) + ")", "(" + " * ".join(types) + ")"
            saved = self.loop_k
            self.loop_k = True
            body = self.block(list(s.body), dict(env, **{s.target.id: "char"}),
                              lambda e2: "(Some (" + ", ".join(["sg"] + [self.coerce("v_%s" % x, e2[x], env[x]) for x in names]) + "))")
            self.loop_k = saved
            return ("(match fold_left (fun (st : option %s) (v_%s : N) =>\n match st with\n | None => None\n | Some %s => %s end)\n v_%s (Some %s) with\n"
                    " | None => %s\n | Some %s => %s end)" % (ty, s.target.id, pat, body, s.iter.id, pat, self.fail(), pat, nxt()))
        return GD.FnD.forloop(self, s, env, nxt)


class FnIChar(FnI):
    """inside `for op in p`: op is one character"""
    def expr(self, e, env):
        if isinstance(e, ast.Compare) and len(e.ops) == 1 and isinstance(e.ops[0], ast.Eq) and isinstance(e.left, ast.Name) \
                and env.get(e.left.id) == "char" and isinstance(e.comparators[0], ast.Constant) and isinstance(e.comparators[0].value, str) \
                and len(e.comparators[0].value) == 1:
            return "(N.eqb v_%s %d%%N)" % (e.left.id, ord(e.comparators[0].value)), "bool"
        return FnI.expr(self, e, env)


def main(out):
    T, _, TN, LT = GT.build()
    GW.register(T, TN, LT)
    T.out = []
    T.join_calls = True
    # ---- left_node / right_node / child_node: a new node object or a raise ----
    for side in ("left", "right", "child"):
        fn = TN[side + "_node"]
        want = ["if not self.has_%s():\n    raise LRUTrieNodeTraversalException('Node has no %s.')" % (side, {"left": "left sibling", "right": "right sibling", "child": "child"}[side]),
                "return LRUTrieNode(self.storage, block=self.%s())" % side]
        if [a.arg for a in fn.args.args] != ["self"] or [ast.unparse(x) for x in fn.body] != want:
            raise Unsupported("%s_node body: %s" % (side, [ast.unparse(x) for x in fn.body]))
        T.out.append("Definition py_node_%s_node (nd : py_node) (sg : py_pm) : option (py_node * py_pm) :=\n"
                     " (if (negb (py_node_has_%s nd)) then None else Some (py_node_init sg None (py_node_%s nd) None))." % (side, side, side))
    fn = LT["webentity_inorder_iter"]
    if [a.arg for a in fn.args.args] != ["self", "starting_node", "starting_lru", "pagination_path"] or [ast.unparse(d) for d in fn.args.defaults] != ["None"]:
        raise Unsupported("webentity_inorder_iter signature")
    body = [x for x in fn.body if not (isinstance(x, ast.Expr) and isinstance(x.value, ast.Constant))]
    kinds = [type(x).__name__ + (":" + x.name if isinstance(x, ast.FunctionDef) else "") for x in body]
    if kinds != ["Assign", "Assign", "Assign", "FunctionDef:follow_path", "If", "FunctionDef:can_follow_path", "FunctionDef:inorder_traversal", "For"]:
        raise Unsupported("webentity_inorder_iter structure: %s" % kinds)
    if [ast.unparse(x) for x in body[:3]] != ["starting_lru = lru_dirname(starting_lru)", "pagination_lru = None", "comparison_path = None"]:
        raise Unsupported("webentity_inorder_iter prologue")
    if ast.unparse(body[7]) != "for item in inorder_traversal(starting_node, starting_lru):\n    yield item":
        raise Unsupported("webentity_inorder_iter epilogue")
    want_if = "if pagination_path is not None:\n    comparison_path = int_to_base4(pagination_path) if pagination_path != 0 else ''\n    pagination_lru = follow_path(comparison_path)"
    if ast.unparse(body[4]) != want_if:
        raise Unsupported("webentity_inorder_iter resume block: %s" % ast.unparse(body[4]))
    # the captured variables are not assigned anywhere else
    for n in ast.walk(ast.Module(body=[body[3], body[5], body[6]], type_ignores=[])):
        if isinstance(n, (ast.Assign, ast.AugAssign)):
            for t in (n.targets if isinstance(n, ast.Assign) else [n.target]):
                for y in ast.walk(t):
                    if isinstance(y, ast.Name) and y.id in ("starting_node", "starting_lru", "comparison_path", "pagination_path", "pagination_lru"):
                        raise Unsupported("a closure assigns the captured variable %s" % y.id)
        if isinstance(n, (ast.Nonlocal, ast.Global)):
            raise Unsupported("nonlocal / global in a closure")
    # ---- follow_path(p) ----
    fp = body[3]
    if [a.arg for a in fp.args.args] != ["p"]:
        raise Unsupported("follow_path signature")
    f = FnIChar(T, fp, None, "tstore", True, "bytes")
    f.returns = ["sg"]
    f.has_sg = True
    f.rcoq = "option (py_pm * bytes)"
    fb = f.block(list(fp.body), {"p": "str", "starting_node": "tnode", "starting_lru": "bytes"},
                 lambda e2: (_ for _ in ()).throw(Unsupported("follow_path falls off its end")))
    T.out.append("Definition py_inorder_follow_path (sg : py_pm) (v_starting_node : py_node) (v_starting_lru : bytes) (v_p : bytes) : option (py_pm * bytes) :=\n %s." % fb)
    # ---- can_follow_path(current_path): reads comparison_path ----
    cf = body[5]
    if [a.arg for a in cf.args.args] != ["current_path"] or [ast.unparse(x) for x in cf.body] != [
            "if current_path == 0:\n    return True", "current_path = int_to_base4(current_path)", "p = comparison_path[:len(current_path)]",
            "return current_path >= p"]:
        raise Unsupported("can_follow_path body: %s" % [ast.unparse(x) for x in cf.body])
    T.out.append("(* comparison_path[: n] raises when comparison_path is None *)\n"
                 "Definition py_inorder_can_follow_path (v_comparison_path : option bytes) (v_current_path : N) : option bool :=\n"
                 " (if (N.eqb v_current_path 0%N) then Some true\n"
                 "  else (let v_current_path := (GenHelpers2.py_int_to_base4 v_current_path) in\n"
                 "  match v_comparison_path with\n  | None => None\n"
                 "  | Some v_comparison_path => (let v_p := (firstn (N.to_nat (N.of_nat (length v_current_path))) v_comparison_path) in\n"
                 "    Some (negb (blt v_current_path v_p))) end)).")
    # ---- inorder_traversal(node, lru, path=0): the recursive generator ----
    it = body[6]
    if [a.arg for a in it.args.args] != ["node", "lru", "path"] or [ast.unparse(d) for d in it.args.defaults] != ["0"]:
        raise Unsupported("inorder_traversal signature")
    f = FnI(T, it, None, "tstore", True, None, gen="triple:tnode:bytes:N")
    f.rec_name = "inorder_traversal"
    f.returns = []
    f.has_sg = True
    f.gen_sg = True
    ib = [x for x in it.body if not (isinstance(x, ast.Expr) and isinstance(x.value, ast.Constant))]
    env = {"node": "tnode", "lru": "bytes", "path": "N", "starting_node": "tnode", "starting_lru": "bytes",
           "pagination_path": "oN", "pagination_lru": "obytes", "comparison_path": "obytes"}
    rb = f.block(ib, env, lambda e2: "(Some (v__out, sg))")
    T.out.append(
        "Definition py_trie_webentity_inorder_iter (sg : py_pm) (v_starting_node : py_node) (v_starting_lru : bytes) (v_pagination_path : option N)\n"
        " : option (list %s * py_pm) :=\n"
        " (let v_starting_lru := (GenHelpers2.py_lru_dirname v_starting_lru) in\n"
        " (let v_pagination_lru := (@None bytes) in\n (let v_comparison_path := (@None bytes) in\n"
        " (match (match v_pagination_path with\n"
        "   | None => Some (sg, v_comparison_path, v_pagination_lru)\n"
        "   | Some v_pagination_path => (let v_comparison_path := (if (negb (N.eqb v_pagination_path 0%%N)) then (GenHelpers2.py_int_to_base4 v_pagination_path) else (@nil N)) in\n"
        "      match py_inorder_follow_path sg v_starting_node v_starting_lru v_comparison_path with\n"
        "      | None => None\n      | Some (sg, v__l) => Some (sg, Some v_comparison_path, Some v__l) end) end) with\n"
        " | None => None\n | Some (sg, v_comparison_path, v_pagination_lru) =>\n"
        " (fix py_rec (fuel : nat) (sg : py_pm) (v_node : py_node) (v_lru : bytes) (v_path : N) {struct fuel} : option (list %s * py_pm) :=\n"
        "  match fuel with\n  | O => None\n  | S fuel' =>\n  (let v__out := (@nil %s) in\n %s)\n  end)\n"
        " (S (length (pm_array sg))) sg v_starting_node v_starting_lru 0%%N end)))).\n" % (ITEM, ITEM, ITEM, rb))
    L = ["(* GENERATED by harness/gen_triei.py from %s/traph/lru_trie/{lru_trie,node}.py -- do not edit *)" % REPO,
         "From Coq Require Import List NArith Bool Arith.", "Import ListNotations.",
         "From Traph Require Import Bytes Consts Layout Codec GenStorage GenNode GenLinks GenTrie GenTrieW.",
         "From Traph Require GenHelpers GenHelpers2.", ""]
    text = "\n".join(L + T.out) + "\n"
    old = open(out).read() if os.path.exists(out) else None
    if old != text:
        with open(out, "w") as fh:
            fh.write(text)
    return 0


if __name__ == "__main__":
    try:
        sys.exit(main(sys.argv[1]))
    except Unsupported as e:
        print("gen_triei: UNSUPPORTED: %s" % e)
        sys.exit(3)
    except (KeyError, AttributeError, IndexError, TypeError) as e:
        print("gen_triei: UNSUPPORTED: unexpected source shape (%s: %s)" % (type(e).__name__, e))
        sys.exit(3)
