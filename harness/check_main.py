"""check_main.py — entry point behind /verif/check.

  check <id> [--tier quick|thorough] [--replay file]      one property
  check --setup                                          build everything once

Steps for a property: regenerate Consts.v / CallGraph.v from /repo, full `make`
(.vo, never -vos) under a lock, hygiene grep, `Print Assumptions` of the property's
theorems, build the extracted driver, run the corpus then the generated cases against
/repo's working tree, write evidence/<id>.json, print VIOLATION / KNOWN-FINDING lines."""
import fcntl
import glob
import json
import multiprocessing
import os
import re
import subprocess
import sys
import time

HERE = os.path.dirname(os.path.abspath(__file__))
ROOT = os.path.dirname(HERE)
COQ = os.path.join(ROOT, "coq")
TH = os.path.join(COQ, "theories")
sys.path.insert(0, HERE)
os.environ.setdefault("PYTHONHASHSEED", "0")

import props as P  # noqa: E402

BANNED = re.compile(r"\b(Admitted|admit|Axiom|Axioms|Parameter|Parameters|Conjecture|Hypothesis|Variable|Variables)\b|Unset\s+Guard|bypass_check|Admit\s+Obligations|-type-in-type|impredicative-set|Unset\s+Universe\s+Checking|Unset\s+Positivity")
ALLOWED_AXIOMS = []   # the development is meant to be closed under the global context


def log(*a):
    print(*a, file=sys.stderr, flush=True)


def sh(cmd, timeout, cwd=None, env=None):
    p = subprocess.run(cmd, shell=isinstance(cmd, str), cwd=cwd, env=env, stdout=subprocess.PIPE,
                       stderr=subprocess.STDOUT, timeout=timeout)
    return p.returncode, p.stdout.decode(errors="replace")


# ---- build --------------------------------------------------------------------------
def vfiles():
    out = []
    for ln in open(os.path.join(COQ, "_CoqProject")):
        ln = ln.strip()
        if ln.endswith(".v"):
            out.append(ln)
    return out


def build():
    """returns dict(ok, translator_errors, failed_files, log)"""
    res = {"translator_errors": [], "failed_files": [], "log": ""}
    lock = open(os.path.join(COQ, ".lock"), "w")
    fcntl.flock(lock, fcntl.LOCK_EX)
    try:
        env = dict(os.environ, PYTHONPATH="")
        for gen, out in (("gen_consts.py", "Consts.v"), ("gen_callgraph.py", "CallGraph.v"), ("gen_helpers.py", "GenHelpers.v"),
                         ("gen_helpers2.py", "GenHelpers2.v"), ("gen_helpers3.py", "GenHelpers3.v"), ("gen_storage.py", "GenStorage.v"),
                         ("gen_node.py", "GenNode.v"), ("gen_links.py", "GenLinks.v"), ("gen_trie.py", "GenTrie.v"),
                         ("gen_triew.py", "GenTrieW.v"), ("gen_tried.py", "GenTrieD.v"), ("gen_traph.py", "GenTraph.v"),
                         ("gen_traphw.py", "GenTraphW.v"), ("gen_traphl.py", "GenTraphL.v"), ("gen_traphp.py", "GenTraphP.v"),
                         ("gen_traphk.py", "GenTraphK.v"), ("gen_traphb.py", "GenTraphB.v"), ("gen_traphq.py", "GenTraphQ.v"), ("gen_traphm.py", "GenTraphM.v"), ("gen_traphn.py", "GenTraphN.v"), ("gen_traphx.py", "GenTraphX.v"), ("gen_triei.py", "GenTrieI.v"), ("gen_traphg.py", "GenTraphG.v"), ("gen_traphh.py", "GenTraphH.v"), ("gen_traphr.py", "GenTraphR.v"), ("gen_traphn2.py", "GenTraphN2.v"), ("gen_traphz.py", "GenTraphZ.v"), ("gen_traphv.py", "GenTraphV.v"), ("gen_traphi.py", "GenTraphI.v"), ("gen_triem.py", "GenTrieM.v")):
            g = os.path.join(HERE, gen)
            if not os.path.exists(g):
                continue
            rc, o = sh(["/venv/bin/python", g, os.path.join(TH, out)], 120, env=env)
            if rc != 0:
                res["translator_errors"].append("%s: %s" % (gen, o.strip()[-400:]))
                res.setdefault("translator_outputs", []).append("theories/" + out)
        if not os.path.exists(os.path.join(COQ, "Makefile")):
            sh("coq_makefile -f _CoqProject -o Makefile", 60, cwd=COQ)
        rc, o = sh("timeout 1500 make -k -j%d 2>&1 | tail -60" % min(16, os.cpu_count() or 4), 1600, cwd=COQ)
        res["log"] = o
        for v in vfiles():
            vo = os.path.join(COQ, v[:-2] + ".vo")
            src = os.path.join(COQ, v)
            if not os.path.exists(vo) or os.path.getmtime(vo) < os.path.getmtime(src):
                res["failed_files"].append(v)
        # extracted driver
        ml = os.path.join(ROOT, "ocaml", "model.ml")
        drv = os.path.join(ROOT, "ocaml", "driver")
        if os.path.exists(ml) and (not os.path.exists(drv) or os.path.getmtime(drv) < os.path.getmtime(ml)
                                   or os.path.getmtime(drv) < os.path.getmtime(os.path.join(ROOT, "ocaml", "driver.ml"))):
            rc, o = sh("ocamlfind ocamlopt -O2 -package str model.mli model.ml driver.ml -o driver 2>&1 | grep -v WARNING",
                       300, cwd=os.path.join(ROOT, "ocaml"))
            if not os.path.exists(drv):
                res["failed_files"].append("ocaml/driver")
                res["log"] += o
    finally:
        fcntl.flock(lock, fcntl.LOCK_UN)
        lock.close()
    res["ok"] = not res["translator_errors"] and not res["failed_files"]
    return res


def requires(vfile):
    """direct Traph dependencies of a .v file (theories-relative names)"""
    deps = []
    txt = open(os.path.join(COQ, vfile)).read()
    txt = re.sub(r"\(\*.*?\*\)", "", txt, flags=re.S)
    for m in re.finditer(r"From\s+Traph\s+Require\s+(?:Import\s+|Export\s+)?(.*?)\.(?:\s|$)", txt, flags=re.S):
        for name in m.group(1).split():
            f = "theories/" + name.replace(".", "/") + ".v"
            if os.path.exists(os.path.join(COQ, f)):
                deps.append(f)
    return deps


def cone(vfile, seen=None):
    seen = seen if seen is not None else []
    if vfile in seen:
        return seen
    seen.append(vfile)
    for d in requires(vfile):
        cone(d, seen)
    return seen


def hygiene(files):
    bad = []
    for f in files:
        txt = open(os.path.join(COQ, f)).read()
        txt = re.sub(r"\(\*.*?\*\)", "", txt, flags=re.S)
        for i, ln in enumerate(txt.split("\n")):
            m = BANNED.search(ln)
            if m and not re.search(r"Section|Context", ln):
                # Variable/Hypothesis are legal inside a Section only
                if m.group(1) in ("Variable", "Variables", "Hypothesis") and in_section(txt, i):
                    continue
                bad.append("%s:%d: %s" % (f, i + 1, ln.strip()[:80]))
    return bad


def in_section(txt, lineno):
    depth = 0
    for ln in txt.split("\n")[:lineno]:
        if re.match(r"\s*Section\s", ln):
            depth += 1
        elif re.match(r"\s*End\s", ln) and depth > 0:
            depth -= 1
    return depth > 0


def count_obligations(files):
    n = 0
    names = []
    for f in files:
        txt = open(os.path.join(COQ, f)).read()
        txt = re.sub(r"\(\*.*?\*\)", "", txt, flags=re.S)
        for m in re.finditer(r"^\s*(?:Local\s+|Global\s+)?(Theorem|Lemma|Corollary|Example|Fact|Remark|Proposition)\s+([A-Za-z0-9_']+)", txt, flags=re.M):
            n += 1
            names.append(m.group(2))
    return n, names


def assumptions(propfile):
    """compile the property file alone and collect what Print Assumptions says"""
    rc, o = sh("timeout 600 coqc -Q theories Traph %s" % propfile, 700, cwd=COQ)
    closed = len(re.findall(r"Closed under the global context", o))
    axioms = re.findall(r"^([A-Za-z0-9_.']+)\s*:", o, flags=re.M) if "Axioms:" in o else []
    return rc, closed, axioms, o


# ---- known findings -------------------------------------------------------------------
def known_findings():
    p = os.path.join(ROOT, "known_findings.json")
    return json.load(open(p)) if os.path.exists(p) else []


def match_known(prop, note):
    for k in known_findings():
        if k["property"] == prop and k["status"] == "known" and note.startswith(k["signature"]):
            return k
    return None


# ---- main -----------------------------------------------------------------------------
def write_replay(prop, seed, n, payload):
    d = os.path.join(ROOT, "replays")
    os.makedirs(d, exist_ok=True)
    path = os.path.join(d, "%s-%s-%d.json" % (prop, seed, n))
    with open(path, "w") as f:
        json.dump(payload, f, indent=1, default=lambda o: repr(o))
    return path


def main(argv):
    if "--setup" in argv:
        b = build()
        log(b["log"][-2000:])
        if not b["ok"]:
            log("setup: build incomplete:", b["translator_errors"], b["failed_files"])
        # setup succeeds as long as the driver exists; individual checks report broken proofs
        return 0 if os.path.exists(os.path.join(ROOT, "ocaml", "driver")) else 1
    prop = argv[0]
    tier = os.environ.get("VERIF_TIER", "quick")
    replay = None
    i = 1
    while i < len(argv):
        if argv[i] == "--tier":
            tier = argv[i + 1]; i += 2
        elif argv[i] == "--replay":
            replay = argv[i + 1]; i += 2
        else:
            i += 1
    seed = int(os.environ.get("VERIF_SEED", "20260930"))
    t0 = time.time()
    spec = P.PROPS[prop]
    violations = []      # (replay path, suffix)
    known_lines = []
    b = build()
    propfile = "theories/Props/%s.v" % prop
    propfiles = [propfile] if os.path.exists(os.path.join(COQ, propfile)) else []
    # further theorem files of the same property (Props/<id>b.v ...)
    registered = set(open(os.path.join(COQ, "_CoqProject")).read().split())
    for extra in sorted(glob.glob(os.path.join(COQ, "theories", "Props", prop + "?.v"))):
        if "theories/Props/" + os.path.basename(extra) in registered:       # files not in the project are not built by make
            propfiles.append("theories/Props/" + os.path.basename(extra))
    files = []
    for pf in propfiles:
        cone(pf, files)
    obligations, names = count_obligations(files)
    proof_problems = []
    # a translator that no longer accepts the source counts against the properties whose theorems depend on its output
    for e, outf in zip(b["translator_errors"], b.get("translator_outputs", [])):
        if outf in files or not files:
            proof_problems.append("translator: " + e)
    broken = [f for f in b["failed_files"] if f in files or f == "ocaml/driver"]
    if broken:
        proof_problems.append("does not compile: " + ", ".join(broken))
    if not files:
        proof_problems.append("no theorem file %s" % propfile)
    bad = hygiene(files)
    if bad:
        proof_problems.append("forbidden constructs: " + "; ".join(bad[:5]))
    closed, axioms = 0, []
    if files and not broken:
        closed, axioms, n_pa, n_thm = 0, [], 0, 0
        for pf in propfiles:
            rc, c1, a1, out = assumptions(pf)
            closed += c1
            axioms += a1
            if rc != 0:
                proof_problems.append("property file %s fails: %s" % (pf, out[-300:]))
            src = re.sub(r"\(\*.*?\*\)", "", open(os.path.join(COQ, pf)).read(), flags=re.S)
            n_pa += len(re.findall(r"^\s*Print\s+Assumptions\b", src, flags=re.M))
            n_thm += len(re.findall(r"^\s*(?:Theorem|Corollary)\s", src, flags=re.M))
        extra = [a for a in axioms if a not in ALLOWED_AXIOMS]
        if extra:
            proof_problems.append("theorems depend on axioms: " + ", ".join(extra))
        if closed < max(n_pa, spec.get("min_closed", 1)) or n_pa < n_thm:
            proof_problems.append("Print Assumptions: %d of %d commands report a closed theorem (%d theorems in the file)"
                                  % (closed, n_pa, n_thm))
    coqchk_summary = None
    if tier == "thorough" and files and not proof_problems:
        # independent re-check of the compiled property module and everything it depends on
        mods = " ".join("Traph.Props." + os.path.basename(pf)[:-2] for pf in propfiles)
        rc, o = sh("timeout 3000 coqchk -silent -o -Q theories Traph %s 2>&1 | tail -14" % mods, 3100, cwd=COQ)
        coqchk_summary = " ".join(o.split())
        if "Axioms: <none>" not in coqchk_summary or "type-in-type: <none>" not in coqchk_summary:
            proof_problems.append("coqchk does not report an axiom-free, check-complete context: " + coqchk_summary[-300:])
    discharged = obligations if not proof_problems else max(0, obligations - 1 - len(broken))

    # ---- correspondence + oracle on the implementation ----
    if not os.path.exists(os.path.join(ROOT, "ocaml", "driver")):
        cov = {"evaluations": 0, "distinct_nontrivial": 0, "samples": [], "rule": "model driver missing"}
        results = {"violations": [], "known": [], "cov": cov}
        proof_problems.append("model driver could not be built")
    else:
        runner = spec["runner"]
        results = runner(prop, tier, seed, replay)
    cov = results["cov"]

    n = 0
    for v in results["violations"]:
        n += 1
        path = write_replay(prop, seed, n, v)
        violations.append((path, "" if v.get("failing_input") else " no-failing-input-found"))
    for k in results["known"]:
        known_lines.append("KNOWN-FINDING: property=%s %s" % (prop, k))
    if proof_problems and not any(v.get("failing_input") for v in results["violations"]):
        n += 1
        path = write_replay(prop, seed, n, {"property": prop, "failing_input": False,
                                            "broken": proof_problems, "theorems": names[-8:],
                                            "note": "the proof obligations of this property no longer check against the regenerated "
                                                    "constants / call graph; the search on the implementation found no failing input"})
        violations.append((path, " no-failing-input-found"))

    evidence = {
        "property_id": prop, "tier": tier, "seed": seed, "level": "proof",
        "coverage": dict({
            "obligations": max(obligations, 1), "discharged": max(discharged, 0) if proof_problems else max(obligations, 1),
            "checker_cmd": "cd /verif/coq && make (coqc 8.16.1, full .vo) && coqc -Q theories Traph %s  # Print Assumptions" % " ".join(propfiles or [propfile]),
            "trusted_base": P.TRUSTED_BASE + spec.get("trusted", []),
            "theorems": [m for pf in propfiles for m in re.findall(
                r"^\s*(?:Theorem|Corollary)\s+([A-Za-z0-9_']+)", re.sub(r"\(\*.*?\*\)", "", open(os.path.join(COQ, pf)).read(), flags=re.S),
                flags=re.M)] or spec.get("theorems", []),
            "print_assumptions_closed": closed, "axioms": axioms, "coqchk": coqchk_summary,
            "proof_problems": proof_problems,
        }, **cov),
        "assumptions": spec.get("assumptions", []) + [
            "theorems quantify over well-formed requests (wf_op: LRUs non-empty and '|'-terminated, ids non-zero, distinct batch "
            "sources) and the rule family of test/config.py (domain, subdomain, path-N)",
            "the model is hand-written; its agreement with /repo is what this run's correspondence measures, not a theorem"],
        "wall_s": round(time.time() - t0, 2),
        "violations": len(violations),
    }
    os.makedirs(os.path.join(ROOT, "evidence"), exist_ok=True)
    with open(os.path.join(ROOT, "evidence", "%s.json" % prop), "w") as f:
        json.dump(evidence, f, indent=1, default=lambda o: repr(o))
    for ln in known_lines:
        print(ln)
    for path, suffix in violations:
        print("VIOLATION property=%s replay=%s%s" % (prop, path, suffix))
    if not violations:
        print("OK property=%s tier=%s obligations=%d evaluations=%d wall=%.1fs"
              % (prop, tier, obligations, cov.get("evaluations", 0), time.time() - t0))
    return 1 if violations else 0


if __name__ == "__main__":
    sys.exit(main(sys.argv[1:]))
