#!/venv/bin/python
"""Translate the walking / writing side of the trie (traph/lru_trie/lru_trie.py: LRUTrie.add_lru, add_page, follow_lru; traph/lru_trie/walk_history.py: LRUTrieWalkHistory.__init__, update_webentity,
add_webentity_creation_rule; traph/lru_trie/node.py: the flag and webentity accessors is_page, flag_as_page, is_crawled,
flag_as_crawled, has_webentity_creation_rule, can_have_child_webentities, flag_can_have_child_webentities, has_webentity,
webentity, set_child and the module helper unflag) from the Python AST into Gallina: coq/theories/GenTrieW.v, regenerated
on every run.  The statement translator is the one of gen_links.py / gen_trie.py (whose signature table is rebuilt here:
GenTrieW.v imports GenTrie.v), extended by:
  * `while i < l:` loops whose body adds 1 to i exactly once at its top level and assigns neither i nor l elsewhere:
    fuel 1 + (l - i)  (the termination argument; every other loop keeps the fuel 1 + size of the store);
  * `x += e` on local bytes / naturals; tuple results (`return node, history`, `node, history = self.add_lru(lru)`);
  * the walk history as a record py_hist (its fields are checked against __init__; `-1`, the position of "no webentity
    met", is None : option N; the prefix `""` of "no webentity met" is the empty byte string);
  * calls of translated methods of the trie itself (`self.__ensure_stem_from_siblings(node, stem)`, `self.add_lru(lru)`):
    None = the callee raised;
  * an `if` without `else` whose body only calls non-raising methods that change a local object (and write it) is joined
    without duplicating what follows;
  * flag(..) / unflag(..) / test(..) on the flags register of the node.
GenTrieWFacts.v proves the translated functions equal to the tree model (Tst.follow, Tst.ins + the write trace of
Traphw.insw) on the files of every reachable state."""
import ast
import os
import sys

sys.path.insert(0, os.path.dirname(os.path.abspath(__file__)))
import gen_links as GL       # noqa: E402
import gen_trie as GT        # noqa: E402

REPO = os.environ.get("VERIF_REPO", "/repo")
Unsupported = GL.Unsupported

GL.CONSTS.update({"LRU_TRIE_NODE_WEBENTITY": ("pos_we", "pos"), "LRU_TRIE_NODE_CHILD_BLOCK": ("pos_child", "pos")})

PREAMBLE = r"""(* unflag(data, register, pos): data[register] &= ~(1 << pos) *)
Definition py_unflag (data : list fval) (register pos : N) : list fval :=
 py_set_nth (N.to_nat register) (VNum (N.ldiff (py_get_num (N.to_nat register) data) (N.shiftl 1 pos))) data.
(* LRUTrieWalkHistory: webentity_position = -1 is None; webentity_prefix = "" is [] *)
Record py_hist := mk_hs { hs_lru : bytes; hs_webentity : option N; hs_webentity_prefix : bytes; hs_webentity_position : option N;
  hs_webentity_creation_rules : list N; hs_page_was_created : bool }.
Definition hs_set_lru (v : bytes) (h : py_hist) := mk_hs v (hs_webentity h) (hs_webentity_prefix h) (hs_webentity_position h) (hs_webentity_creation_rules h) (hs_page_was_created h).
Definition hs_set_webentity (v : option N) (h : py_hist) := mk_hs (hs_lru h) v (hs_webentity_prefix h) (hs_webentity_position h) (hs_webentity_creation_rules h) (hs_page_was_created h).
Definition hs_set_webentity_prefix (v : bytes) (h : py_hist) := mk_hs (hs_lru h) (hs_webentity h) v (hs_webentity_position h) (hs_webentity_creation_rules h) (hs_page_was_created h).
Definition hs_set_webentity_position (v : option N) (h : py_hist) := mk_hs (hs_lru h) (hs_webentity h) (hs_webentity_prefix h) v (hs_webentity_creation_rules h) (hs_page_was_created h).
Definition hs_set_webentity_creation_rules (v : list N) (h : py_hist) := mk_hs (hs_lru h) (hs_webentity h) (hs_webentity_prefix h) (hs_webentity_position h) v (hs_page_was_created h).
Definition hs_set_page_was_created (v : bool) (h : py_hist) := mk_hs (hs_lru h) (hs_webentity h) (hs_webentity_prefix h) (hs_webentity_position h) (hs_webentity_creation_rules h) v.
"""

HIST_INIT = [("lru", "lru", "v_lru"), ("webentity", "None", "None"), ("webentity_prefix", "''", "(@nil N)"),
             ("webentity_position", "-1", "None"), ("webentity_creation_rules", "[]", "(@nil N)"), ("page_was_created", "False", "false")]


def cls(tree, name):
    c = [n for n in tree.body if isinstance(n, ast.ClassDef) and n.name == name]
    if len(c) != 1:
        raise Unsupported("class %s" % name)
    return dict((n.name, n) for n in c[0].body if isinstance(n, ast.FunctionDef))


def trie_fn(T, LT, name, params, rtype, rcoq, decl=None, strip=None):
    """a method of LRUTrie: (sg, args) -> option (py_pm * result)"""
    fn = LT.get(name) or LT.get("_LRUTrie" + name)
    if fn is None:
        raise Unsupported("LRUTrie.%s not found" % name)
    if [a.arg for a in fn.args.args] != ["self"] + [p[0] for p in params] or fn.args.vararg or fn.args.kwarg or fn.args.kwonlyargs:
        raise Unsupported("%s signature" % name)
    ndef = len(fn.args.defaults)
    for (pn, ty, d), dnode in zip(params[len(params) - ndef:], fn.args.defaults):
        if d is None or ast.unparse(dnode) != {"false": "False", "true": "True"}.get(d, d):
            raise Unsupported("default of %s.%s" % (name, pn))
    if any(d is not None for pn, ty, d in params[: len(params) - ndef]):
        raise Unsupported("defaults of %s" % name)
    body_stmts = list(fn.body)
    if strip:
        body_stmts = strip(body_stmts)
    f = GL.Fn(T, fn, None, "tstore", True, rtype, decl=decl or {})
    f.returns = ["sg"]
    f.has_sg = True
    f.tnode_storage = "sg"
    f.rcoq = "option (py_pm * %s)" % rcoq
    body = f.block(body_stmts, dict((p[0], p[1]) for p in params),
                   lambda e2: (_ for _ in ()).throw(Unsupported("%s falls off its end" % name)))
    coq = "py_trie_" + name.strip("_")
    ps = "".join(" (v_%s : %s)" % (p[0], GL.COQT[p[1]]) for p in params)
    T.out.append("Definition %s (sg : py_pm)%s : option (py_pm * %s) :=\n %s." % (coq, ps, rcoq, body))
    T.sigs[("tstore", name)] = {"kind": "tfn", "params": params, "rtype": rtype, "coq": coq}


def register(T, TN, LT):
    """translate everything of GenTrieW.v into T.out and register the signatures (used by gen_tried.py as well)"""
    T.join_calls = True
    pn = os.path.join(REPO, "traph", "lru_trie", "node.py")
    ph = os.path.join(REPO, "traph", "lru_trie", "walk_history.py")
    tn, th = (ast.parse(open(p).read(), p) for p in (pn, ph))
    mod = dict((n.name, n) for n in tn.body if isinstance(n, ast.FunctionDef))
    if len(mod["unflag"].body) != 1 or ast.unparse(mod["unflag"].body[0]) != "data[register] &= ~(1 << pos)" \
            or [a.arg for a in mod["unflag"].args.args] != ["data", "register", "pos"]:
        raise Unsupported("unflag() body")
    if len(mod["flag"].body) != 1 or ast.unparse(mod["flag"].body[0]) != "data[register] |= 1 << pos":
        raise Unsupported("flag() body")
    if len(mod["test"].body) != 1 or ast.unparse(mod["test"].body[0]) != "return bool(data[register] >> pos & 1)":
        raise Unsupported("test() body")
    # ---- the walk history ----
    WH = cls(th, "LRUTrieWalkHistory")
    init = WH["__init__"]
    if [a.arg for a in init.args.args] != ["self", "lru"] or init.args.defaults:
        raise Unsupported("LRUTrieWalkHistory.__init__ signature")
    got = []
    for st in init.body:
        if not (isinstance(st, ast.Assign) and len(st.targets) == 1 and isinstance(st.targets[0], ast.Attribute)
                and isinstance(st.targets[0].value, ast.Name) and st.targets[0].value.id == "self"):
            raise Unsupported("LRUTrieWalkHistory.__init__ statement %s" % ast.unparse(st))
        got.append((st.targets[0].attr, ast.unparse(st.value)))
    if got != [(a, b) for a, b, _ in HIST_INIT] or set(a for a, _ in got) != set(GL.ATTRS["hist"][1]):
        raise Unsupported("LRUTrieWalkHistory.__init__ fields: %s" % got)
    T.out.append("Definition py_hist_init (v_lru : bytes) : py_hist :=\n mk_hs %s." % " ".join(c for _, _, c in HIST_INIT))
    T.sigs[("hist", "__init__")] = {"kind": "ctor"}
    T.method(WH, "hist", "update_webentity", [("weid", "oN", None), ("prefix", "bytes", None), ("position", "N", None)], "node", recv="hs")
    T.method(WH, "hist", "add_webentity_creation_rule", [("position", "N", None)], "node", recv="hs")
    # ---- flag and webentity accessors of LRUTrieNode ----
    for name in ("is_page", "is_crawled", "has_webentity_creation_rule", "can_have_child_webentities", "has_webentity"):
        T.method(TN, "tnode", name, [], "pure", "bool")
    for name in ("flag_as_page", "flag_as_crawled", "flag_can_have_child_webentities"):
        T.method(TN, "tnode", name, [], "node")
    T.method(TN, "tnode", "webentity", [], "pure", "oN")
    T.method(TN, "tnode", "set_child", [("block", "N", None)], "node?")
    # ---- LRUTrie ----
    trie_fn(T, LT, "__ensure_stem_from_siblings", [("node", "tnode", None), ("stem", "bytes", None)], "tnode", "py_node",
            decl={"sibling": "tnode"})
    ens = T.out.pop()           # already in GenTrie.v: must be the same text
    T.sigs[("tstore", "__ensure_stem_from_siblings")]["coq"] = "py_trie_ensure_stem_from_siblings"
    T0, _, _, _ = GT.build()
    if ens.split(":=", 1)[1] != [d for d in T0.out if d.startswith("Definition py_trie_ensure_stem_from_siblings ")][0].split(":=", 1)[1]:
        raise Unsupported("__ensure_stem_from_siblings translated differently by gen_trie and gen_triew")
    trie_fn(T, LT, "follow_lru", [("lru", "bytes", None)], "pair:otnode:hist", "(option py_node * py_hist)")
    trie_fn(T, LT, "add_lru", [("lru", "bytes", None), ("flag_can_have_child_webentities", "bool", "false")],
            "pair:tnode:hist", "(py_node * py_hist)", decl={"child": "tnode"})
    trie_fn(T, LT, "add_page", [("lru", "bytes", None), ("crawled", "bool", "false")], "pair:tnode:hist", "(py_node * py_hist)")



def main(out):
    T, _, TN, LT = GT.build()
    T.out = []
    L = ["(* GENERATED by harness/gen_triew.py from %s/traph/lru_trie/{lru_trie,node,walk_history}.py -- do not edit *)" % REPO,
         "From Coq Require Import List NArith Bool Arith.", "Import ListNotations.",
         "From Traph Require Import Bytes Consts Layout Codec GenStorage GenNode GenTrie.",
         "From Traph Require GenHelpers2.", "", PREAMBLE]
    register(T, TN, LT)
    text = "\n".join(L + T.out) + "\n"
    old = open(out).read() if os.path.exists(out) else None
    if old != text:
        with open(out, "w") as fh:
            fh.write(text)
    return 0


if __name__ == "__main__":
    try:
        sys.exit(main(sys.argv[1]))
    except Unsupported as e:
        print("gen_triew: UNSUPPORTED: %s" % e)
        sys.exit(3)
    except (KeyError, AttributeError, IndexError, TypeError) as e:
        print("gen_triew: UNSUPPORTED: unexpected source shape (%s: %s)" % (type(e).__name__, e))
        sys.exit(3)
