#!/venv/bin/python
"""Translate the pure prefix-variation helpers of /repo/traph/helpers.py into Gallina:
coq/theories/GenHelpers.v, regenerated on every run.  GenHelpersFacts.v then proves the
translated functions equal to the hand-written model (Helpers.v), so the C17 theorems
are re-checked against what the source says now.

Fail-closed translator for a small Python subset (what these functions use):
  statements : assignment to a name, `x.append(e)`, `x.pop(-1)`, `if` / `else`, `return`
  expressions: bytes literals, names, `[e]`, `a + b` on bytes, `a.startswith(b)`,
               `a.replace(b, c, 1)`, `a.split(b)`, `b.join(xs)`, list comprehension
               `[s for s in xs if s.startswith(b)]`, `xs[-1]`, `len(xs)`, comparisons
               `<= == `, `not e`, truthiness of bytes / optional bytes, calls to the
               other translated function, `None`, `p * 4 + n`.
Anything else raises Unsupported and the caller reports the property as no longer shown.
Imperative code is turned into nested let / if with the remaining statements duplicated
in both branches of an `if` (early returns)."""
import ast
import os
import sys

REPO = os.environ.get("VERIF_REPO", "/repo")


class Unsupported(Exception):
    pass


def coq_bytes(b):
    return "[" + "; ".join(str(x) for x in b) + "]%N" if b else "(@nil N)"


class Fn(object):
    def __init__(self, node, known):
        self.node = node
        self.known = known          # other translated functions: name -> return type
        self.types = {}

    # ---- expressions ----------------------------------------------------------------
    def typ(self, e):
        if isinstance(e, ast.Constant) and isinstance(e.value, bytes):
            return "bytes"
        if isinstance(e, ast.Constant) and e.value is None:
            return "obytes"
        if isinstance(e, ast.Constant) and isinstance(e.value, int):
            return "int"
        if isinstance(e, ast.Name):
            if e.id not in self.types:
                raise Unsupported("unknown variable %s" % e.id)
            return self.types[e.id]
        if isinstance(e, ast.List) and len(e.elts) == 1:
            return "lbytes"
        if isinstance(e, ast.ListComp):
            return "lbytes"
        if isinstance(e, ast.BinOp) and isinstance(e.op, ast.Add):
            t = self.typ(e.left)
            if t == "int":
                return "int"
            return "bytes"
        if isinstance(e, ast.BinOp) and isinstance(e.op, ast.Mult):
            return "int"
        if isinstance(e, ast.Call) and isinstance(e.func, ast.Attribute):
            m = e.func.attr
            if m == "replace":
                return "bytes"
            if m == "split":
                return "lbytes"
            if m == "join":
                return "bytes"
            if m == "startswith":
                return "bool"
        if isinstance(e, ast.Call) and isinstance(e.func, ast.Name):
            if e.func.id in self.known:
                return self.known[e.func.id]
            if e.func.id == "len":
                return "nat"
        if isinstance(e, ast.Subscript):
            return "bytes"
        if isinstance(e, (ast.Compare, ast.UnaryOp)):
            return "bool"
        raise Unsupported("expression %s" % ast.dump(e)[:80])

    def as_bytes(self, e):
        """Coq term of type bytes; an optional is read through obytes_get (callers guard with truthiness)"""
        t = self.typ(e)
        c = self.expr(e)
        if t == "obytes":
            return "(obytes_get %s)" % c
        if t != "bytes":
            raise Unsupported("bytes expected: %s" % ast.dump(e)[:60])
        return c

    def expr(self, e):
        if isinstance(e, ast.Constant) and isinstance(e.value, bytes):
            return coq_bytes(e.value)
        if isinstance(e, ast.Constant) and e.value is None:
            return "(@None bytes)"
        if isinstance(e, ast.Constant) and isinstance(e.value, int) and not isinstance(e.value, bool):
            return "%d%%N" % e.value if e.value >= 0 else None
        if isinstance(e, ast.Name):
            return "v_" + e.id
        if isinstance(e, ast.List) and len(e.elts) == 1:
            return "[%s]" % self.as_bytes(e.elts[0])
        if isinstance(e, ast.ListComp):
            if len(e.generators) != 1 or e.generators[0].is_async or len(e.generators[0].ifs) != 1:
                raise Unsupported("list comprehension shape")
            g = e.generators[0]
            if not (isinstance(g.target, ast.Name) and isinstance(e.elt, ast.Name) and e.elt.id == g.target.id):
                raise Unsupported("list comprehension must be a filter")
            saved = dict(self.types)
            self.types[g.target.id] = "bytes"
            cond = self.truth(g.ifs[0])
            self.types = saved
            if self.typ(g.iter) != "lbytes":
                raise Unsupported("filter over a non-list")
            return "(filter (fun v_%s => %s) %s)" % (g.target.id, cond, self.expr(g.iter))
        if isinstance(e, ast.BinOp) and isinstance(e.op, ast.Add):
            if self.typ(e.left) == "int" or self.typ(e.right) == "int":
                return "(%s + %s)%%N" % (self.expr(e.left), self.expr(e.right))
            return "(%s ++ %s)" % (self.as_bytes(e.left), self.as_bytes(e.right))
        if isinstance(e, ast.BinOp) and isinstance(e.op, ast.Mult):
            return "(%s * %s)%%N" % (self.expr(e.left), self.expr(e.right))
        if isinstance(e, ast.Call) and isinstance(e.func, ast.Attribute):
            m, recv, args = e.func.attr, e.func.value, e.args
            if e.keywords:
                raise Unsupported("keyword arguments")
            if m == "startswith" and len(args) == 1:
                return "(starts_with %s %s)" % (self.as_bytes(args[0]), self.as_bytes(recv))
            if m == "replace" and len(args) == 3 and isinstance(args[2], ast.Constant) and args[2].value == 1:
                old = args[0]
                if not (isinstance(old, ast.Constant) and old.value) and not isinstance(old, ast.Name):
                    raise Unsupported("replace: pattern")
                return "(replace_first %s %s %s)" % (self.as_bytes(args[0]), self.as_bytes(args[1]), self.as_bytes(recv))
            if m == "split" and len(args) == 1 and isinstance(args[0], ast.Constant) and isinstance(args[0].value, bytes) \
                    and len(args[0].value) == 1:
                return "(split_on %d%%N %s)" % (args[0].value[0], self.as_bytes(recv))
            if m == "join" and len(args) == 1 and isinstance(recv, ast.Constant) and isinstance(recv.value, bytes) \
                    and len(recv.value) == 1:
                if self.typ(args[0]) != "lbytes":
                    raise Unsupported("join of a non-list")
                return "(join %d%%N %s)" % (recv.value[0], self.expr(args[0]))
            raise Unsupported("method %s" % m)
        if isinstance(e, ast.Call) and isinstance(e.func, ast.Name):
            if e.func.id in self.known and len(e.args) == 1 and not e.keywords:
                return "(py_%s %s)" % (e.func.id, self.as_bytes(e.args[0]))
            if e.func.id == "len" and len(e.args) == 1:
                if self.typ(e.args[0]) not in ("lbytes", "bytes"):
                    raise Unsupported("len of %s" % self.typ(e.args[0]))
                return "(length %s)" % self.expr(e.args[0])
            raise Unsupported("call %s" % e.func.id)
        if isinstance(e, ast.Subscript):
            idx = e.slice
            if isinstance(idx, ast.UnaryOp) and isinstance(idx.op, ast.USub) and isinstance(idx.operand, ast.Constant) \
                    and idx.operand.value == 1 and self.typ(e.value) == "lbytes":
                return "(last %s (@nil N))" % self.expr(e.value)
            raise Unsupported("subscript")
        raise Unsupported("expression %s" % ast.dump(e)[:80])

    def truth(self, e):
        """Python truth value of an expression, as a Coq bool"""
        if isinstance(e, ast.UnaryOp) and isinstance(e.op, ast.Not):
            return "(negb %s)" % self.truth(e.operand)
        if isinstance(e, ast.Compare) and len(e.ops) == 1:
            l, r, op = e.left, e.comparators[0], e.ops[0]
            tl, tr_ = self.typ(l), self.typ(r)
            if tl == "nat" and isinstance(r, ast.Constant) and isinstance(r.value, int):
                n = "%d%%nat" % r.value
                if isinstance(op, ast.LtE):
                    return "(Nat.leb %s %s)" % (self.expr(l), n)
                if isinstance(op, ast.Eq):
                    return "(Nat.eqb %s %s)" % (self.expr(l), n)
                raise Unsupported("comparison operator on len")
            if tl == "bytes" and tr_ == "bytes" and isinstance(op, ast.Eq):
                return "(beq %s %s)" % (self.expr(l), self.expr(r))
            raise Unsupported("comparison")
        t = self.typ(e)
        if t == "bool":
            return self.expr(e)
        if t == "bytes":
            return "(nonempty %s)" % self.expr(e)
        if t == "obytes":
            return "(otruth %s)" % self.expr(e)
        raise Unsupported("truth of %s" % t)

    # ---- statements -----------------------------------------------------------------
    def block(self, stmts, ret):
        if not stmts:
            if ret == "obytes":
                return "(@None bytes)"
            raise Unsupported("function may fall off its end")
        s, rest = stmts[0], stmts[1:]
        if isinstance(s, ast.Expr) and isinstance(s.value, ast.Constant) and isinstance(s.value.value, str):
            return self.block(rest, ret)                                   # docstring
        if isinstance(s, ast.Return):
            if s.value is None:
                raise Unsupported("bare return")
            t = self.typ(s.value)
            if ret == "obytes" and t == "bytes":
                return "(Some %s)" % self.expr(s.value)
            if t != ret:
                raise Unsupported("return type %s, expected %s" % (t, ret))
            return self.expr(s.value)
        if isinstance(s, ast.Assign) and len(s.targets) == 1 and isinstance(s.targets[0], ast.Name):
            name = s.targets[0].id
            t = self.typ(s.value)
            c = self.expr(s.value)
            saved = dict(self.types)
            self.types[name] = t
            body = self.block(rest, ret)
            self.types = saved
            return "(let v_%s := %s in\n %s)" % (name, c, body)
        if isinstance(s, ast.Expr) and isinstance(s.value, ast.Call) and isinstance(s.value.func, ast.Attribute) \
                and isinstance(s.value.func.value, ast.Name):
            name, m, args = s.value.func.value.id, s.value.func.attr, s.value.args
            if self.types.get(name) != "lbytes":
                raise Unsupported("mutation of a non-list")
            if m == "append" and len(args) == 1:
                new = "(v_%s ++ [%s])" % (name, self.as_bytes(args[0]))
            elif m == "pop" and len(args) == 1 and isinstance(args[0], ast.UnaryOp) and isinstance(args[0].op, ast.USub) \
                    and isinstance(args[0].operand, ast.Constant) and args[0].operand.value == 1:
                new = "(removelast v_%s)" % name
            else:
                raise Unsupported("list method %s" % m)
            return "(let v_%s := %s in\n %s)" % (name, new, self.block(rest, ret))
        if isinstance(s, ast.If):
            cond = self.truth(s.test)
            saved = dict(self.types)
            a = self.block(list(s.body) + rest, ret)
            self.types = dict(saved)
            b = self.block(list(s.orelse) + rest, ret)
            self.types = saved
            return "(if %s\n then %s\n else %s)" % (cond, a, b)
        raise Unsupported("statement %s" % type(s).__name__)

    def translate(self, ret):
        a = self.node.args
        if a.vararg or a.kwarg or a.kwonlyargs or a.defaults:
            raise Unsupported("signature of %s" % self.node.name)
        params = []
        for p in a.args:
            ann = p.annotation.id if isinstance(p.annotation, ast.Name) else None
            t = {"bytes": "bytes", "int": "int"}.get(ann)
            if t is None:
                raise Unsupported("parameter %s of %s is not annotated bytes/int" % (p.arg, self.node.name))
            self.types[p.arg] = t
            params.append("(v_%s : %s)" % (p.arg, "bytes" if t == "bytes" else "N"))
        body = self.block(list(self.node.body), ret)
        coq_ret = {"obytes": "option bytes", "lbytes": "list bytes", "int": "N", "bytes": "bytes"}[ret]
        return "Definition py_%s %s : %s :=\n %s." % (self.node.name, " ".join(params), coq_ret, body)


WANTED = [("https_variation", "obytes"), ("lru_variations", "lbytes"), ("base4_append", "int")]


def main(out):
    path = os.path.join(REPO, "traph", "helpers.py")
    tree = ast.parse(open(path).read(), path)
    fns = dict((n.name, n) for n in tree.body if isinstance(n, ast.FunctionDef))
    L = ["(* GENERATED by harness/gen_helpers.py from %s/traph/helpers.py -- do not edit *)" % REPO,
         "From Coq Require Import List NArith Bool Arith.", "Import ListNotations.",
         "From Traph Require Import Bytes.", "",
         "Definition nonempty (b : bytes) : bool := match b with [] => false | _ => true end.",
         "Definition otruth (o : option bytes) : bool := match o with Some (_ :: _) => true | _ => false end.",
         "Definition obytes_get (o : option bytes) : bytes := match o with Some b => b | None => [] end.", ""]
    known = {}
    for name, ret in WANTED:
        if name not in fns:
            raise Unsupported("function %s not found" % name)
        L.append(Fn(fns[name], dict(known)).translate(ret))
        L.append("")
        known[name] = ret
    text = "\n".join(L)
    old = open(out).read() if os.path.exists(out) else None
    if old != text:
        with open(out, "w") as f:
            f.write(text)
    return 0


if __name__ == "__main__":
    try:
        sys.exit(main(sys.argv[1]))
    except Unsupported as e:
        print("gen_helpers: UNSUPPORTED: %s" % e)
        sys.exit(3)
