#!/venv/bin/python
"""Regenerate /verif/MANIFEST.json from the table below (run by hand after editing)."""
import json
import os

ROOT = os.path.dirname(os.path.dirname(os.path.abspath(__file__)))
ids = [json.loads(l)["id"] for l in open(os.path.join(ROOT, "properties.jsonl"))]

NOTE_COMMON = ("Trusted: Coq 8.16.1 kernel (vm_compute used, no native_compute); no axioms (Print Assumptions of every property "
               "theorem must say 'Closed under the global context', checked on each run); the hand-written Gallina model, tied to "
               "/repo by the regenerated Consts.v/CallGraph.v and by the correspondence run (extraction with ExtrOcamlBasic only); "
               "Python semantics (bytes order, struct, re, dict order, file I/O) as modelled. ")

CLAIMED = {
    "C14": dict(
        text="Theorem C14_no_writer_reachable (Props/C14.v): on the call graph regenerated from /repo at every run, no read-only API "
             "entry point reaches (by name-resolved, arity-filtered call edges: an over-approximation) a function whose body mutates a "
             "store; finite graph, boolean closure check evaluated by vm_compute and lifted by a soundness lemma. In the model every "
             "query is a function traph -> answer (no state returned). Props/C14s.v, semantically, on the read requests translated from the source on "
             "every run (page links, link enumeration, webentity pages, potential prefix, both networks, page-link / neighbour queries, both "
             "paginated requests, hierarchy, metrics, most linked): for every history, whenever the translated request returns, the bytes of the "
             "trie store are those before the call (the link store is only read through positioned reads and not returned). "
             "The run also compares the bytes of both stores and the recorded "
             "storage writes before/after every read request on the real implementation (file and memory back-ends).",
        note=NOTE_COMMON + "Specific: the translator gen_callgraph.py (closed lists of read-only roots and of store-mutating primitives; "
             "getattr/eval dispatch rejected). Partial for: dispatch that the AST cannot see (none in the package today; the dynamic "
             "before/after comparison covers it by sampling).",
        technique="Coq proof over a call graph regenerated from source (reachability closure checked by vm_compute + soundness lemma); differential byte comparison around every query",
        ref="DESIGN.md section 6 C14"),
    "C17": dict(
        text="Theorems C17_head, C17_nodup, C17_shape, C17_closed (Props/C17.v, proofs in VarFacts.v) about the byte-level model of "
             "lru_variations/https_variation (startswith, replace-first, split, join as in the Python), for every LRU of the family "
             "(scheme, optional port, any hosts not ending in two www, arbitrary later stems incl. 's:http'/'h:' text): the prefix itself "
             "first, no duplicates, only the scheme stem and a trailing www host change, and expanding any member yields the same set. "
             "Correspondence: the real function and the extracted model are run on an exhaustive small grammar plus random LRUs; the four "
             "clauses are also checked directly on the implementation.",
        note=NOTE_COMMON + "Family restriction stated in the theorem: scheme and port bodies contain no ':'.",
        technique="Coq proof (closure of variation classes on a byte-level model) + model-vs-implementation differential run",
        ref="DESIGN.md section 6 C17"),
}
import sys
sys.path.insert(0, os.path.join(ROOT, "harness"))
try:
    import manifest_claims
    CLAIMED.update(manifest_claims.CLAIMED)
    PENDING = manifest_claims.PENDING
except ImportError:
    PENDING = {}

m = {
    "version": 1,
    "setup_cmd": "./setup.sh",
    "hooks": {
        "guard": "HYPHE_TRAPH_VERIF",
        "enable": "no source hooks: the harness instruments /repo by monkey-patching at run time (storage write recording, forced yields); HYPHE_TRAPH_VERIF is not read by /repo",
        "baseline_off_cmd": "cd /repo && /venv/bin/python -m pytest -ra -q -p no:cacheprovider --timeout=900 --continue-on-collection-errors",
        "source_commits": [],
        "add_only": True,
    },
    "engines": [{"name": "coq-model", "path": "coq/theories", "serves_properties": sorted(CLAIMED),
                 "kind_free_text": "Coq 8.16.1 development: executable Gallina model of traph + abstract specification + property theorems (Props/)"},
                {"name": "correspondence", "path": "harness", "serves_properties": sorted(CLAIMED),
                 "kind_free_text": "Python harness: runs generated request histories on the real implementation and on the OCaml-extracted model/specification, compares per facet, shrinks, writes replays and evidence"}],
    "checks": [],
    "notes": "Defects found and repaired in /repo (fix: commits) and the one known finding are listed in known_findings.json; see DESIGN.md section 7.",
    "not_applicable": [],
}
for i in ids:
    if i in CLAIMED:
        c = CLAIMED[i]
        m["checks"].append({
            "property_id": i,
            "quick_cmd": "./check %s --tier quick" % i,
            "thorough_cmd": "./check %s --tier thorough" % i,
            "evidence_file": "evidence/%s.json" % i,
            "replay_cmd_template": "./check %s --replay {path}" % i,
            "engine": "coq-model",
            "level_claimed": {"category": "proof", "text": c["text"], "design_ref": c["ref"]},
            "level_note": c["note"],
            "technique": c["technique"],
        })
    else:
        m["not_applicable"].append({"property_id": i, "reason": PENDING.get(
            i, "not claimed yet: the model, specification and correspondence harness for this property exist and run, but its Coq "
               "theorem is still being proved in this session (DESIGN.md section 10); it will be claimed when Props/%s.v compiles" % i)})
json.dump(m, open(os.path.join(ROOT, "MANIFEST.json"), "w"), indent=1)
print("claimed:", sorted(CLAIMED), "pending:", len(m["not_applicable"]))
