#!/venv/bin/python
"""Re-run every kept seeded change (seeded/<name>/patch.diff) against the checks, with other seeds than the one
used when it was recorded: how stable is the detection?  Works on a scratch checkout given by VERIF_REPO (never
/repo itself): apply, run the property's quick check, undo.  Prints one line per (change, seed)."""
import json, os, subprocess, sys

ROOT = os.path.dirname(os.path.dirname(os.path.abspath(__file__)))
repo = os.environ.get("VERIF_REPO")
if not repo or os.path.realpath(repo) == "/repo":
    sys.exit("set VERIF_REPO to a scratch checkout")
seeds = [int(x) for x in (sys.argv[1:] or ["11", "22"])]
names = sorted(os.listdir(os.path.join(ROOT, "seeded")))
if os.environ.get("VERIF_SWEEP_SHARD"):            # "i/n": this process takes every n-th change starting at i
    _i, _n = [int(x) for x in os.environ["VERIF_SWEEP_SHARD"].split("/")]
    names = names[_i::_n]
missed = []
for n in names:
    d = os.path.join(ROOT, "seeded", n)
    meta = json.load(open(os.path.join(d, "meta.json")))
    prop = meta.get("property") or n.split("-")[-1]
    prop = prop if prop.startswith("C") else n.split("-")[-1]
    if subprocess.run(["git", "-C", repo, "apply", os.path.join(d, "patch.diff")]).returncode != 0:
        print("%-8s patch does not apply" % n, flush=True)
        continue
    try:
        for sd in seeds:
            r = subprocess.run([os.path.join(ROOT, "check"), prop], env=dict(os.environ, VERIF_SEED=str(sd)),
                               capture_output=True, text=True, timeout=3000)
            v = [l for l in r.stdout.splitlines() if l.startswith("VIOLATION")]
            with_input = any("no-failing-input-found" not in l for l in v)
            print("%-8s %s seed=%d exit=%d violations=%d failing_input=%s" % (n, prop, sd, r.returncode, len(v), with_input), flush=True)
            if not with_input:
                missed.append((n, sd, bool(v)))
    finally:
        subprocess.run(["git", "-C", repo, "checkout", "--", "."])
print("SUMMARY: %d changes x %d seeds; without failing input: %r" % (len(names), len(seeds), missed))
