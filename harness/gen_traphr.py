#!/venv/bin/python
"""Translate the potential-prefix query and the removal of a creation rule (traph/traph.py: Traph.get_potential_prefix,
remove_webentity_creation_rule; traph/lru_trie/node.py: unflag_as_webentity_creation_rule) from the Python AST into Gallina:
coq/theories/GenTraphR.v, regenerated on every run.  Built on the translated follow_lru (GenTrieW.v), lru_node (GenTrie.v), the
rule application and RAM record of GenTraphP.v.
  * get_potential_prefix is the ladder of __add_page run on the history of follow_lru, without any write; it returns the prefix or
    `False` (the default rule found nothing): option bytes, None = False;
  * remove_webentity_creation_rule CHANGES the RAM rule table (`del d[k]`: py_rules_del; `d[k]` on a missing key raises): the RAM
    record is returned next to the storage; the compiled regex object is always truthy (`if not d[k]` never holds).
GenTraphRFacts.v proves them equal to the model's Traph.potential_prefix / remove_rule (C06)."""
import ast
import os
import sys

sys.path.insert(0, os.path.dirname(os.path.abspath(__file__)))
import gen_links as GL       # noqa: E402
import gen_trie as GT        # noqa: E402
import gen_triew as GW       # noqa: E402
import gen_traphp as GP      # noqa: E402

REPO = os.environ.get("VERIF_REPO", "/repo")
Unsupported = GL.Unsupported

PREAMBLE = r"""Fixpoint py_rules_del (k : bytes) (d : list (bytes * rulekind)) : list (bytes * rulekind) :=
  match d with
  | [] => []
  | (k', v) :: d' => if beq k k' then d' else (k', v) :: py_rules_del k d'
  end.
"""


class FnR(GP.FnP):
    def block(self, stmts, env, k):
        if stmts:
            s, rest = stmts[0], stmts[1:]
            nxt = lambda env2=None: self.block(rest, env if env2 is None else env2, k)          # noqa: E731
            u = ast.unparse(s)
            if isinstance(s, ast.Assign) and len(s.targets) == 1 and isinstance(s.targets[0], ast.Name) and isinstance(s.value, ast.Call) \
                    and ast.unparse(s.value.func) == "self.__encode" and len(s.value.args) == 1 and isinstance(s.value.args[0], ast.Name) \
                    and s.value.args[0].id == s.targets[0].id and env.get(s.targets[0].id) == "bytes":
                return nxt()
            if isinstance(s, ast.Return) and isinstance(s.value, ast.Constant) and s.value.value is False and self.rtype == "obytes":
                return self.ret("None", env)
            if u.startswith("if not self.webentity_creation_rules[rule_prefix]:\n    raise "):
                # d[k] raises on a missing key; a compiled regex is truthy
                return "(match py_rules_get v_rule_prefix (ram_rules rm) with\n | None => %s\n | Some _ => %s end)" % (self.fail(), nxt())
            if u == "del self.webentity_creation_rules[rule_prefix]":
                return "(let rm := mk_ram (py_rules_del v_rule_prefix (ram_rules rm)) (ram_dflt rm) in\n %s)" % nxt()
        return GP.FnP.block(self, stmts, env, k)


def main(out):
    T, _, TN, LT = GT.build()
    GW.register(T, TN, LT)
    T.sigs[("tstore", "lru_node")] = {"kind": "tfn", "params": [("lru", "bytes", None)], "rtype": "otnode", "coq": "py_trie_lru_node"}
    T.out = []
    T.method(TN, "tnode", "unflag_as_webentity_creation_rule", [], "node")
    p = os.path.join(REPO, "traph", "traph.py")
    tree = ast.parse(open(p).read(), p)
    c = [n for n in tree.body if isinstance(n, ast.ClassDef) and n.name == "Traph"]
    TR = dict((n.name, n) for n in c[0].body if isinstance(n, ast.FunctionDef))
    enc = TR.get("__encode")
    if enc is None or [ast.unparse(x) for x in enc.body] != ["if isinstance(string, bytes):\n    return string", "return string.encode(self.encoding)"]:
        raise Unsupported("Traph.__encode body")
    for name, first in (("__apply_webentity_creation_rule", "regexp = self.webentity_creation_rules[rule_prefix]"),
                        ("__apply_webentity_default_creation_rule", "regexp = self.default_webentity_creation_rule")):
        if [ast.unparse(x) for x in TR[name].body] != [first, "match = regexp.search(lru)", "if not match:\n    return None", "return match.group()"]:
            raise Unsupported("%s body" % name)
    ph = os.path.join(REPO, "traph", "lru_trie", "walk_history.py")
    WH = GW.cls(ast.parse(open(ph).read(), ph), "LRUTrieWalkHistory")
    want = ("for position in reversed(self.webentity_creation_rules):\n    if position >= 0:\n        prefix = self.lru[0:position]\n        yield prefix")
    if ast.unparse(WH["rules_to_apply"].body[0]) != want:
        raise Unsupported("rules_to_apply body")
    # ---- get_potential_prefix ----
    fn = TR["get_potential_prefix"]
    if [a.arg for a in fn.args.args] != ["self", "lru"]:
        raise Unsupported("get_potential_prefix signature")
    f = FnR(T, fn, None, "traph", True, "obytes")
    f.returns = ["sg"]
    f.has_sg = True
    f.tnode_storage = "sg"
    f.rcoq = "option (py_pm * option bytes)"
    body = [x for x in fn.body if not (isinstance(x, ast.Expr) and isinstance(x.value, ast.Constant))]
    txt = f.block(body, {"lru": "bytes"}, lambda e2: (_ for _ in ()).throw(Unsupported("get_potential_prefix falls off its end")))
    T.out.append("Definition py_traph_get_potential_prefix (rm : py_ram) (sg : py_pm) (v_lru : bytes) : option (py_pm * option bytes) :=\n %s." % txt)
    # ---- remove_webentity_creation_rule ----
    fn = TR["remove_webentity_creation_rule"]
    if [a.arg for a in fn.args.args] != ["self", "rule_prefix"]:
        raise Unsupported("remove_webentity_creation_rule signature")
    f = FnR(T, fn, None, "traph", True, "bool")
    f.returns = ["rm", "sg"]
    f.has_sg = True
    f.tnode_storage = "sg"
    f.rcoq = "option (py_ram * py_pm * bool)"
    body = [x for x in fn.body if not (isinstance(x, ast.Expr) and isinstance(x.value, ast.Constant))]
    txt = f.block(body, {"rule_prefix": "bytes"}, lambda e2: (_ for _ in ()).throw(Unsupported("remove_webentity_creation_rule falls off its end")))
    T.out.append("Definition py_traph_remove_webentity_creation_rule (rm : py_ram) (sg : py_pm) (v_rule_prefix : bytes) : option (py_ram * py_pm * bool) :=\n %s." % txt)
    L = ["(* GENERATED by harness/gen_traphr.py from %s/traph/traph.py, lru_trie/node.py -- do not edit *)" % REPO,
         "From Coq Require Import List NArith Bool Arith.", "Import ListNotations.",
         "From Traph Require Import Bytes Consts Layout Codec Rules GenStorage GenNode GenLinks GenTrie GenTrieW GenTraphW GenTraphP.", "", PREAMBLE]
    text = "\n".join(L + T.out) + "\n"
    old = open(out).read() if os.path.exists(out) else None
    if old != text:
        with open(out, "w") as fh:
            fh.write(text)
    return 0


if __name__ == "__main__":
    try:
        sys.exit(main(sys.argv[1]))
    except Unsupported as e:
        print("gen_traphr: UNSUPPORTED: %s" % e)
        sys.exit(3)
    except (KeyError, AttributeError, IndexError, TypeError) as e:
        print("gen_traphr: UNSUPPORTED: unexpected source shape (%s: %s)" % (type(e).__name__, e))
        sys.exit(3)
