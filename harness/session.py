"""session.py — one history executed on the implementation (dynamically, so that
later requests can aim at what exists) and then replayed on the model + specification."""
import itertools

import core as C
import gen as G
import impl as I


class Session(object):
    def __init__(self, rng, backend="f", record=False):
        self.rng = rng
        self.impl = I.Impl(backend, record=record)
        self.cmds = []       # (op, args)
        self.meta = []       # dict per command
        self.ians = []
        self.tr = G.Tracker()
        self.groups = []     # pagination sessions etc.: dict(kind=..., idx=[...], ...)

    def do(self, op, args, **meta):
        if getattr(self, "dead", False):
            # an earlier request did not return: the index object is no longer usable, stop issuing requests
            return I.Crash("skipped after a request that did not return")
        a = self._do(op, args, **meta)
        if isinstance(a, I.Crash) and str(a.detail).startswith("Timeout"):
            self.dead = True
        return a

    def _do(self, op, args, **meta):
        if getattr(self, "ro_check", False) and op not in C.WRITE_OPS and op not in (43, 44, 45):
            before = (self.impl.file_bytes("t"), self.impl.file_bytes("l"), len(self.impl.trace))
            a = self.impl.exec(op, args)
            after = (self.impl.file_bytes("t"), self.impl.file_bytes("l"), len(self.impl.trace))
            self.ro_queries = getattr(self, "ro_queries", 0) + 1
            if before != after:
                self.ro_violations = getattr(self, "ro_violations", [])
                self.ro_violations.append({"index": len(self.cmds), "op": op,
                                           "trie_changed": before[0] != after[0], "links_changed": before[1] != after[1],
                                           "writes_issued": after[2] - before[2]})
        else:
            t0 = len(self.impl.trace)
            a = self.impl.exec(op, args)
            if getattr(self, "traced", False) and op in C.WRITE_OPS and op not in (1, 13):
                meta = dict(meta, trace=[[1 if tg == "t" else 0, blk, data] for tg, blk, data in self.impl.trace[t0:]])
        if op in (1, 14):
            self.spec_off = False       # a (re)created index: the specification state is exact again
        if getattr(self, "spec_off", False):
            meta = dict(meta, nospec=True)
        self.cmds.append((op, args))
        self.meta.append(meta)
        self.ians.append(a)
        if op in C.WRITE_OPS:
            G.track(self.tr, op, args, a)
        return a

    def abandon(self, rng, partial=False, given=None, retry=None):
        """requests that are issued and then dropped (opcode 81).  partial=False: the writing requests among them never run a
        step (they must leave nothing behind), the queries are advanced a few steps.  partial=True: one writing request is
        also advanced some steps and dropped half-way; the specification state is then no longer consulted (the model
        still is), except that a rule installation dropped half-way and then re-issued and completed must end where the
        complete installation alone ends."""
        tr = self.tr
        specs = []
        for k in range(rng.randint(1, 3) if given is None else 0):
            r = rng.random()
            if r < 0.4:
                anchors = [x[0] for x in tr.rules]
                p = rng.choice(anchors) if anchors and rng.random() < 0.6 else G.pick_prefix(rng, tr)
                specs.append([1, p, rng.choice([0, 1, 2, 3])])
            elif r < 0.65:
                pool = [G.pick_lru(rng, tr) for _ in range(rng.randint(2, 4))]
                data, seen = [], set()
                for _ in range(rng.randint(1, 3)):
                    src = rng.choice(pool)
                    if src not in seen:
                        seen.add(src)
                        data.append([src, [rng.choice(pool) for _ in range(rng.choice([0, 1, 2, 3]))]])
                specs.append([0, data])
            elif r < 0.8 and tr.pref:
                w = rng.choice(tr.weids())
                specs.append([2, w, tr.prefixes_of(w)])
            elif r < 0.9 and tr.pref:
                w = rng.choice(tr.weids())
                specs.append([4, w, tr.prefixes_of(w)] + list(rng.choice([(0, 1, 0), (1, 1, 1), (0, 1, 1)])))
            else:
                specs.append([3, rng.randint(0, 1), rng.randint(0, 1)])
        writers = [k for k, sp in enumerate(specs) if sp[0] in (0, 1)]
        queries = [k for k, sp in enumerate(specs) if sp[0] not in (0, 1)]
        sched = [rng.choice(queries) for _ in range(rng.randint(0, 6))] if queries else []
        started = None
        if given is not None:
            specs, sched, started = given
            partial, writers = False, []
        if partial == "rule":
            writers = [k for k in writers if specs[k][0] == 1]
        if partial and writers:
            started = rng.choice(writers)
            for _ in range(rng.randint(1, 5)):
                sched.insert(rng.randint(0, len(sched)), started)
        self.notes = getattr(self, "notes", [])
        self.notes.append("abandoned_halfway" if started is not None else "abandoned_unstarted")
        a = self.do(81, [specs, sched], abandon=True)
        if started is None or C.is_err(a):
            return a
        sp = specs[started]
        if sp[0] == 1:
            # the first step of an installation makes the rule known (RAM and node flag): a later reopen re-supplies it
            tr.lrus.append(sp[1])
            tr.rules = [x for x in tr.rules if x[0] != sp[1]] + [(sp[1], sp[2])]
        if sp[0] == 0:
            for src, tg in sp[1]:
                tr.lrus += [src] + list(tg)
                tr.pages += [src] + list(tg)
        if a[started][0] == 0:
            was_off = getattr(self, "spec_off", False)
            self.spec_off = True
            if sp[0] == 1 and (partial == "rule" or rng.random() < 0.8 if retry is None else retry):
                # the same installation again, to its end
                if rng.random() < 0.5:
                    self.do(35, [])
                    self.do(36, [])
                self.do(11, [sp[1], sp[2]])
                self.spec_off = was_off
        return a

    def close(self):
        self.impl.close()

    # ---- composite observations ------------------------------------------------
    def paginate_pages(self, w, ps, k, crawled_only, clean, between=None, limit=200):
        idx, tok = [], None
        for step in range(limit):
            a = self.do(26, [w, ps, k, tok, crawled_only], clean=clean)
            idx.append(len(self.cmds) - 1)
            if C.is_err(a) or a[0] == 1 or a[4] is None:
                break
            tok = a[4]
            if between is not None:
                between(step)
        self.groups.append({"kind": "pages", "idx": idx, "k": k, "clean": clean,
                            "mutating": between is not None})

    def paginate_links(self, w, ps, internal, outbound, k, clean, limit=200):
        idx, tok = [], None
        for step in range(limit):
            a = self.do(31, [w, ps, internal, outbound, k, tok], clean=clean)
            idx.append(len(self.cmds) - 1)
            if C.is_err(a) or a[0] == 1 or a[3] is None:
                break
            tok = a[3]
        self.groups.append({"kind": "links", "idx": idx, "k": k, "clean": clean})

    def webentities(self):
        """current webentities and their prefix lists, as the implementation enumerates them"""
        a = self.do(36, [])
        wes = {}
        if not C.is_err(a):
            for lru, w in a:
                wes.setdefault(w, []).append(lru)
        return wes

    def observe(self, depth=1, focus=None):
        """a sweep of read requests over the current state. depth 0: cheap, 1: per-webentity, 2: everything.
        focus: set of query opcodes to issue (None = all); the random draws do not depend on it."""
        rng = self.rng
        real_do = self.do

        def do(op, args, **meta):
            if focus is None or op in focus or op == 36:
                return real_do(op, args, **meta)
            return None
        self_do_saved = self.do
        self.do = do
        try:
            self._observe(depth, focus)
        finally:
            self.do = self_do_saved

    def _observe(self, depth, focus):
        rng = self.rng
        self.do(35, [])
        self.do(38, [])
        self.do(42, [])
        self.do(45, [])
        self.do(39, [])
        self.do(48, [])
        wes = self.webentities()
        lrus = list(dict.fromkeys(self.tr.lrus))
        probes = rng.sample(lrus, min(len(lrus), 6)) if lrus else []
        probes += [G.gen_lru(rng) for _ in range(3)]
        if lrus:
            probes += [rng.choice(lrus) + b"p:zz|", rng.choice(G.stem_prefixes(rng.choice(lrus)))]
        for l in probes:
            self.do(20, [l])
            self.do(21, [l])
            self.do(22, [l])
            self.do(41, [l])
            self.do(47, [l])
            self.do(23, [l])
        pages = list(dict.fromkeys(self.tr.pages))
        for l in (rng.sample(pages, min(len(pages), 4)) if pages else []) + [G.gen_lru(rng)]:
            sw = rng.choice(list(itertools.product([0, 1], repeat=3)))
            self.do(33, [l, 1, 1, 1])
            self.do(33, [l] + list(sw))
            self.do(46, [l])
        if depth >= 1:
            self.do(37, [1])
            self.do(37, [0])
            ws = list(wes.keys())
            rng.shuffle(ws)
            for w in ws[: (len(ws) if depth >= 2 else 3)]:
                ps = list(wes[w])
                rng.shuffle(ps)
                self.do(24, [w, ps], clean=True)
                self.do(25, [w, ps], clean=True)
                self.do(28, [w, ps], clean=True)
                self.do(29, [w, ps], clean=True)
                sw = rng.choice([s for s in itertools.product([0, 1], repeat=3)])
                self.do(30, [w, ps] + list(sw), clean=True)
                self.do(30, [w, ps, 1, 1, 1], clean=True)
                self.do(32, [1, w, ps], clean=True)
                self.do(32, [0, w, ps], clean=True)
                self.do(27, [w, ps, rng.choice([1, 2, 3, 10]), rng.choice([None, None, 0, 1, 2])], clean=True)
                k1, co = rng.choice([1, 1, 2, 3, 5, None]), (rng.randint(0, 1) if rng.random() < 0.3 else 0)
                io, k2 = rng.choice([(1, 0), (0, 1), (1, 1)]), rng.choice([1, 1, 2, 3, None])
                if focus is None or 26 in focus:
                    self.paginate_pages(w, ps, k1, co, True)
                if focus is None or 31 in focus:
                    self.paginate_links(w, ps, io[0], io[1], k2, True)
            # a query with a prefix list that is not the webentity's own
            if lrus:
                ps = [G.pick_prefix(rng, self.tr) for _ in range(rng.randint(1, 2))]
                self.do(24, [1, ps], clean=False)
                self.do(29, [1, ps], clean=False)
                self.do(28, [1, ps], clean=False)
            out, auto = rng.randint(0, 1), rng.randint(0, 1)
            self.do(34, [out, auto, 0])
            self.do(34, [out, auto, 1])
            if depth >= 2:
                for o, au, sl in itertools.product([0, 1], repeat=3):
                    self.do(34, [o, au, sl])

    # ---- replay on the model and comparison ----------------------------------------
    def finish(self, bytes_facet=True):
        if bytes_facet:
            self.do(43, [])
            self.do(44, [])
        mans = C.run_driver([((op + 100) if "trace" in meta else op, args) for (op, args), meta in zip(self.cmds, self.meta)])
        self.mans = mans
        self.mtraces = {}
        mism = []
        for i, ((op, args), got, ms, meta) in enumerate(zip(self.cmds, self.ians, mans, self.meta)):
            if "trace" in meta:
                self.mtraces[i] = ms[1]
                ms = ms[0]
                mans[i] = ms
                if not C.eq(meta["trace"], self.mtraces[i]):
                    mism.append(C.Mismatch(i, op, "trace", meta["trace"], self.mtraces[i], "write trace differs"))
            model, spec = ms[0], ms[1]
            if not C.eq(C.canon(op, got), C.canon(op, model)):
                mism.append(C.Mismatch(i, op, "model", got, model))
            if meta.get("nospec"):
                continue
            note = C.spec_check(op, args, got, spec, meta.get("clean", False))
            if note:
                mism.append(C.Mismatch(i, op, "spec", got, spec, note))
        mism += self.self_consistency()
        for g in self.groups:
            if any(self.meta[i].get("nospec") for i in g["idx"]):
                continue
            note = self.group_check(g)
            if note:
                i = g["idx"][0]
                mism.append(C.Mismatch(i, self.cmds[i][0], "spec", "session " + repr(g["idx"]), "-", note))
        return mism

    def self_consistency(self):
        """the page count, the crawled-page count and the metrics against the page enumeration of the same moment (answers
        given with no write request in between): needs no specification state, so it also speaks after a dropped request"""
        out = []
        pages = None
        submitted = set()
        for i, ((op, args), got) in enumerate(zip(self.cmds, self.ians)):
            if op in (1, 14):
                submitted = set()
            elif op == 2:
                submitted.add(args[0])
            elif op == 3:
                submitted |= set(args[0])
            elif op == 4:
                submitted |= set(x for pr in args[0] for x in pr)
            elif op == 5 or op in (80, 81):
                for data in ([args[0]] if op == 5 else [sp[1] for sp in args[0] if sp[0] == 0]):
                    for src, tg in data:
                        submitted |= {src} | set(tg)
            if op in C.WRITE_OPS or op in (80, 81):
                pages = None
                continue
            if C.is_err(got) or got is None:
                continue
            if op == 35:
                pages = got
                if len(set(p[0] for p in got)) != len(got):
                    out.append(C.Mismatch(i, 35, "spec", got, "-", "a page is enumerated twice"))
                elif not set(p[0] for p in got) <= submitted:
                    out.append(C.Mismatch(i, 35, "spec", got, "-", "a page is enumerated that was never submitted"))
            elif op == 38 and pages is not None:
                want = [len(pages), sum(1 for p in pages if p[1]), got[2]]
                if got[:2] != want[:2]:
                    out.append(C.Mismatch(i, 38, "spec", got, want, "page counts differ from the page enumeration of the same moment"))
        return out

    def group_check(self, g):
        """pagination oracle: the chain of answers against the full sequence the specification dictates"""
        idx = g["idx"]
        answers = [self.ians[i] for i in idx]
        specs = [self.mans[i][1] for i in idx]
        if any(isinstance(a, I.Crash) for a in answers):
            return "a pagination call failed (token could not be resumed)"
        if any(a is I.REFUSED for a in answers):
            if all(C.eq(a, s) for a, s in zip(answers, specs) if a is I.REFUSED):
                return None
            return "pagination refused where the specification answers"
        if any(C.is_err(s) for s in specs):
            return "pagination answered where the specification refuses"
        k = g["k"]
        if not g["clean"]:
            return None
        for a in answers[:-1]:
            if a[0] != 0:
                return "done before the last answer"
        if answers[-1][0] != 1:
            return "token chain did not terminate"
        if g["kind"] == "pages":
            for a in answers[:-1]:
                if k is None or a[1] != k or len(a[3]) != k:
                    return "a non-final answer does not hold exactly the requested count"
            for a in answers:
                if a[2] != sum(1 for p in a[3] if p[1]):
                    return "count_crawled does not match the contents"
            got = [p for a in answers for p in a[3]]
            if not g.get("mutating"):
                want = specs[0]
                if not C.eq(got, want):
                    return "concatenated answers differ from the ordered page sequence of the webentity"
            else:
                lr = [p[0] for p in got]
                if len(set(lr)) != len(lr):
                    return "a page is repeated across answers"
                stable = set(p[0] for p in specs[0])
                for s in specs[1:]:
                    stable &= set(p[0] for p in s)
                if not stable <= set(lr):
                    return "a page present throughout was skipped"
                allp = set()
                for s in specs:
                    allp |= set(p[0] for p in s)
                if not set(lr) <= allp:
                    return "a page that never qualified was returned"
        else:
            for a in answers[:-1]:
                if k is None or a[1] != k:
                    return "a non-final answer does not cover exactly the requested number of source pages"
            for a in answers:
                if len(set(x[0] for x in a[2])) != a[1]:
                    return "count_sourcepages does not match the contents"
            got = C.srt([x for a in answers for x in a[2]])
            if not C.eq(got, C.srt(specs[0])):
                return "concatenated page links differ from the unpaginated answer"
        return None
