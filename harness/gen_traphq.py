#!/venv/bin/python
"""Translate the per-webentity link queries of the public API (traph/traph.py: Traph.get_webentity_pagelinks(_iter),
get_webentity_outlinks(_iter), get_webentity_inlinks(_iter); traph/lru_trie/lru_trie.py: LRUTrie.windup_lru_for_webentity)
from the Python AST into Gallina: coq/theories/GenTraphQ.v, regenerated on every run.  Built on the translated lru_node /
windup_lru / node_parents_iter (GenTrie.v), webentity_dfs_iter (GenTrieD.v), the link traversals (GenLinks.v) and the node
accessors of GenTraphL.v.
  * windup_lru_for_webentity consumes the generator node_parents_iter with an EARLY RETURN: the generator is inlined at the
    `for` by a source-to-source step (inline_generator: every `yield e` becomes `<target> = e; <body of the for>`, a leading
    `if c: return` of the generator guards the rest; the generator's local yielded is renamed to the loop target) - exactly
    the interleaving Python performs, so nothing beyond the returning ancestor is read; the result is translated like any
    other function.  warnings.warn(..) is dropped.
  * the three requests nest three loops: prefixes, the pages of webentity_dfs_iter, the stubs of a link list.  The items of
    webentity_dfs_iter are computed first and then folded through the body although the body READS the trie storage (target
    nodes, wind-ups): generator and body only read, every positioned read seeks before reading, so the order of the reads does
    not change any of them (the one trusted reordering of this file); `continue` ends one iteration.
  * generator requests get their sequential meaning (see gen_traph.py); `set()` is a list without repetition."""
import ast
import copy
import os
import sys

sys.path.insert(0, os.path.dirname(os.path.abspath(__file__)))
import gen_links as GL       # noqa: E402
import gen_trie as GT        # noqa: E402
import gen_triew as GW       # noqa: E402
import gen_tried as GD       # noqa: E402
import gen_traph as GA       # noqa: E402
import gen_traphl as GLL     # noqa: E402

REPO = os.environ.get("VERIF_REPO", "/repo")
Unsupported = GL.Unsupported


# ---------------------------------------------------------------------------------------------------------------------------
def inline_generator(fn, gens):
    """replace `for T in self.<g>(args): body` (top level of fn) by the body of generator g with `yield e` -> `T = e; body`"""
    fn = copy.deepcopy(fn)
    out = []
    for st in fn.body:
        if isinstance(st, ast.For) and isinstance(st.iter, ast.Call) and isinstance(st.iter.func, ast.Attribute) \
                and ast.unparse(st.iter.func.value) == "self" and st.iter.func.attr in gens and not st.orelse:
            g = copy.deepcopy(gens[st.iter.func.attr])
            if not isinstance(st.target, ast.Name) or st.iter.keywords:
                raise Unsupported("inlining: loop target / keywords")
            params = [a.arg for a in g.args.args][1:]
            if len(params) != len(st.iter.args) or not all(isinstance(a, ast.Name) for a in st.iter.args):
                raise Unsupported("inlining: arguments")
            for n in ast.walk(ast.Module(body=st.body, type_ignores=[])):
                if isinstance(n, (ast.Break, ast.Continue, ast.Yield)):
                    raise Unsupported("inlining: break / continue / yield in the loop body")
            ren = dict(zip(params, [a.id for a in st.iter.args]))
            # the generator's yielded local becomes the loop target
            ys = set()
            for n in ast.walk(g):
                if isinstance(n, ast.Yield):
                    if not isinstance(n.value, ast.Name):
                        raise Unsupported("inlining: yield of a non-name")
                    ys.add(n.value.id)
                if isinstance(n, ast.Return) and n.value is not None:
                    raise Unsupported("inlining: return with a value in a generator")
                if isinstance(n, (ast.Try, ast.With)):
                    raise Unsupported("inlining: try / with in a generator")
            if len(ys) != 1:
                raise Unsupported("inlining: yielded names %s" % sorted(ys))
            y = ys.pop()
            if y in ren:
                raise Unsupported("inlining: a parameter is yielded")
            ren[y] = st.target.id
            locs = set(n.id for n in ast.walk(g) if isinstance(n, ast.Name)) - set(ren) - {"self"}
            if locs:
                raise Unsupported("inlining: other locals of the generator %s" % sorted(locs))

            class R(ast.NodeTransformer):
                def visit_Name(self, n):
                    return ast.copy_location(ast.Name(id=ren.get(n.id, n.id), ctx=n.ctx), n)
            g = R().visit(g)

            def tr(stmts):
                res = []
                for i, s in enumerate(stmts):
                    if isinstance(s, ast.Expr) and isinstance(s.value, ast.Constant):
                        continue
                    if isinstance(s, ast.If) and not s.orelse and len(s.body) == 1 and isinstance(s.body[0], ast.Return):
                        rest = tr(stmts[i + 1:])
                        if rest:
                            res.append(ast.If(test=ast.UnaryOp(op=ast.Not(), operand=s.test), body=rest, orelse=[]))
                        return res
                    if isinstance(s, ast.Expr) and isinstance(s.value, ast.Yield):
                        res.extend(copy.deepcopy(st.body))
                    elif isinstance(s, ast.While):
                        res.append(ast.While(test=s.test, body=tr(s.body), orelse=[]))
                    elif isinstance(s, ast.If):
                        res.append(ast.If(test=s.test, body=tr(s.body), orelse=tr(s.orelse)))
                    elif isinstance(s, ast.Return):
                        raise Unsupported("inlining: return not of the form `if c: return` at the top of the generator")
                    else:
                        res.append(s)
                return res
            out.extend(tr(g.body))
        else:
            out.append(st)
    fn.body = out
    ast.fix_missing_locations(fn)
    return fn


# ---------------------------------------------------------------------------------------------------------------------------
class FnQ(GLL.FnL):
    def expr(self, e, env):
        if isinstance(e, ast.UnaryOp) and isinstance(e.op, ast.Not) and isinstance(e.operand, ast.UnaryOp) and isinstance(e.operand.op, ast.Not):
            return self.expr(e.operand.operand, env)           # not not c (from the inlining of `if not c: return`)
        if isinstance(e, ast.Compare) and len(e.ops) == 1 and isinstance(e.ops[0], (ast.Eq, ast.NotEq)):
            a, ta = self.expr(e.left, env)
            b, tb = self.expr(e.comparators[0], env)
            if ta == "oN" and tb == "N":
                t = "(oN_eqb %s (Some %s))" % (a, b)
                return (t if isinstance(e.ops[0], ast.Eq) else "(negb %s)" % t), "bool"
        if isinstance(e, ast.Compare) and len(e.ops) == 1 and isinstance(e.ops[0], ast.NotIn) and isinstance(e.comparators[0], ast.Name) \
                and env.get(e.comparators[0].id) == "oNset":
            a, ta = self.expr(e.left, env)
            return "(negb (existsb (oN_eqb %s) v_%s))" % (self.coerce(a, ta, "oN"), e.comparators[0].id), "bool"
        return GLL.FnL.expr(self, e, env)

    def block(self, stmts, env, k):
        if stmts:
            s, rest = stmts[0], stmts[1:]
            if isinstance(s, ast.Expr) and isinstance(s.value, ast.Call) and ast.unparse(s.value.func) == "warnings.warn":
                return self.block(rest, env, k)
            if isinstance(s, ast.Continue) and self.cont_k is not None:
                return self.cont_k(env)
        return GLL.FnL.block(self, stmts, env, k)

    def loop(self, s, env, nxt):
        # `while` with an early return (the inlined generator of windup_lru_for_webentity): the R + state encoding of gen_links.py
        return GL.Fn.loop(self, s, env, nxt)

    def qstate(self, body, env, outer):
        names, _ = self.fold_state(body, env)
        more = set(names)
        for n in ast.walk(ast.Module(body=list(body), type_ignores=[])):
            if isinstance(n, ast.Call) and isinstance(n.func, ast.Attribute) and isinstance(n.func.value, ast.Name) \
                    and env.get(n.func.value.id) in ("links3", "tnode", "oNset") and n.func.attr in ("append", "read", "add"):
                more.add(n.func.value.id)
        names = sorted(n for n in more if n in outer)
        vars_ = ["sg"] + ["v_%s" % n for n in names]
        types = ["py_pm"] + [GL.COQT[env[n]] for n in names]
        pat = "(" + ", ".join(vars_) + ")" if len(vars_) > 1 else "sg"
        ty = "(" + " * ".join(types) + ")" if len(types) > 1 else "py_pm"

        def pack(e2):
            out = ["sg"] + [self.coerce("v_%s" % n, e2[n], env[n]) for n in names]
            return "(Some %s)" % ("(" + ", ".join(out) + ")" if len(out) > 1 else "sg")
        return pat, ty, pack

    def fold(self, items, ity, bind, s, env1, env, nxt):
        for n in ast.walk(ast.Module(body=list(s.body), type_ignores=[])):
            if isinstance(n, (ast.Return, ast.Break, ast.Yield)) and not (isinstance(n, ast.Yield) and ast.unparse(n).startswith("(yield state")):
                if not isinstance(n, ast.Yield):
                    raise Unsupported("exit from a loop of a query")
        pat, ty, pack = self.qstate(s.body, env1, env)
        saved_k, saved_c = self.loop_k, self.cont_k
        self.loop_k, self.cont_k = True, pack
        try:
            body = self.block(list(s.body), env1, pack)
        finally:
            self.loop_k, self.cont_k = saved_k, saved_c
        return ("(match fold_left (fun (st : option %s) (v__it : %s) =>\n match st with\n | None => None\n | Some %s => (%s\n %s) end)\n"
                " %s (Some %s) with\n | None => %s\n | Some %s => %s end)" % (ty, ity, pat, bind, body, items, pat, self.fail(), pat, nxt()))

    def forloop(self, s, env, nxt):
        if s.orelse:
            raise Unsupported("for-else")
        it = s.iter
        if isinstance(s.target, ast.Name) and isinstance(it, ast.Name) and env.get(it.id) == "listB":
            return self.fold("v_%s" % it.id, "bytes", "let v_%s := v__it in" % s.target.id, s, dict(env, **{s.target.id: "bytes"}), env, nxt)
        if isinstance(it, ast.Call) and ast.unparse(it.func) == "self.lru_trie.webentity_dfs_iter" and isinstance(s.target, ast.Tuple) \
                and len(s.target.elts) == 2 and all(isinstance(x, ast.Name) for x in s.target.elts):
            sig = self.tr.sigs[("tstore", "webentity_dfs_iter")]
            args = self.args(it, sig, env)
            a, b = [x.id for x in s.target.elts]
            inner = self.fold("v__items", "(py_node * bytes)", "let '(v_%s, v_%s) := v__it in" % (a, b), s,
                              dict(env, **{a: "tnode", b: "bytes"}), env, nxt)
            return "(match %s sg%s with\n | None => %s\n | Some (v__items, sg) => %s end)" % (sig["coq"], "".join(" " + x for x in args), self.fail(), inner)
        if isinstance(it, ast.Call) and ast.unparse(it.func) in ("self.link_store.weighted_link_nodes_iter", "self.link_store.deduped_link_nodes_iter") \
                and len(it.args) == 1 and not it.keywords:
            b, tb = self.expr(it.args[0], env)
            if tb != "N":
                raise Unsupported("link list head of type %s" % tb)
            if it.func.attr == "weighted_link_nodes_iter":
                if not (isinstance(s.target, ast.Tuple) and len(s.target.elts) == 2):
                    raise Unsupported("target of the weighted loop")
                t1, t2 = [x.id for x in s.target.elts]
                inner = self.fold("v__stubs", "(option N * N)", "let '(v_%s, v_%s) := v__it in" % (t1, t2), s,
                                  dict(env, **{t1: "oN", t2: "N"}), env, nxt)
            else:
                if not isinstance(s.target, ast.Name):
                    raise Unsupported("target of the deduped loop")
                inner = self.fold("v__stubs", "(option N)", "let v_%s := v__it in" % s.target.id, s, dict(env, **{s.target.id: "oN"}), env, nxt)
            return "(match py_ls_%s sgl %s with\n | None => %s\n | Some v__stubs => %s end)" % (it.func.attr, b, self.fail(), inner)
        raise Unsupported("for shape in a query")


def main(out):
    T, _, TN, LT = GT.build()
    GW.register(T, TN, LT)
    GD.register(T, LT)
    T.sigs[("tstore", "lru_node")] = {"kind": "tfn", "params": [("lru", "bytes", None)], "rtype": "otnode", "coq": "py_trie_lru_node"}
    T.sigs[("tstore", "windup_lru")] = {"kind": "tfn", "params": [("block", "N", None)], "rtype": "bytes", "coq": "py_trie_windup_lru"}
    T.out = []
    T.join_calls = False
    for name, coq in (("has_outlinks", "bool"), ("has_inlinks", "bool"), ("outlinks", "N"), ("inlinks", "N")):
        T.method(TN, "tnode", name, [], "pure", coq)
    T.out = []            # those four are defined in GenTraphL.v
    # ---- windup_lru_for_webentity, its generator inlined ----
    fn = inline_generator(LT["windup_lru_for_webentity"], {"node_parents_iter": LT["node_parents_iter"]})
    if [a.arg for a in fn.args.args] != ["self", "node"]:
        raise Unsupported("windup_lru_for_webentity signature")
    f = FnQ(T, fn, None, "tstore", True, "oN", decl={"parent": "tnode"})
    f.returns = ["sg"]
    f.has_sg = True
    f.tnode_storage = "sg"
    f.rcoq = "option (py_pm * option N)"
    body = f.block(list(fn.body), {"node": "tnode"}, lambda e2: (_ for _ in ()).throw(Unsupported("windup_lru_for_webentity falls off its end")))
    T.out.append("(* source after inlining node_parents_iter at the for loop:\n%s *)" % ast.unparse(fn).replace("*)", "* )"))
    T.out.append("Definition py_trie_windup_lru_for_webentity (sg : py_pm) (v_node : py_node) : option (py_pm * option N) :=\n %s." % body)
    T.sigs[("tstore", "windup_lru_for_webentity")] = {"kind": "tfn", "params": [("node", "tnode", None)], "rtype": "oN",
                                                      "coq": "py_trie_windup_lru_for_webentity"}
    # ---- Traph ----
    p = os.path.join(REPO, "traph", "traph.py")
    tree = ast.parse(open(p).read(), p)
    c = [n for n in tree.body if isinstance(n, ast.ClassDef) and n.name == "Traph"]
    TR = dict((n.name, n) for n in c[0].body if isinstance(n, ast.FunctionDef))
    enc = TR.get("__encode")
    if enc is None or [ast.unparse(x) for x in enc.body] != ["if isinstance(string, bytes):\n    return string", "return string.encode(self.encoding)"]:
        raise Unsupported("Traph.__encode body")
    init_src = ast.unparse(TR["__init__"])
    if "self.lru_trie = LRUTrie(self.lru_trie_storage, encoding=encoding)" not in init_src \
            or "self.link_store = LinkStore(self.links_store_storage)" not in init_src:
        raise Unsupported("Traph.__init__: lru_trie / link_store")
    pi = os.path.join(REPO, "traph", "traph_iterator_state.py")
    ti = [ast.unparse(n) for n in ast.parse(open(pi).read(), pi).body if isinstance(n, (ast.ClassDef, ast.FunctionDef))]
    if len(ti) != 2 or ti[1] != "def run_iterator(iterator):\n    for state in iterator:\n        pass\n    return state.result" \
            or "def finalize(self, result):\n        self.done = True\n        self.result = result\n        return self" not in ti[0] \
            or "def should_yield(self, yield_frequency=1000):\n        self.n_iterations += 1\n        return not self.n_iterations % yield_frequency" not in ti[0]:
        raise Unsupported("traph_iterator_state.py")

    def qfn(name, params, rtype, rcoq, defaults, decl, wrapper):
        it = TR[name + "_iter"]
        if [a.arg for a in it.args.args] != ["self"] + [q[0] for q in params] or [ast.unparse(d) for d in it.args.defaults] != defaults:
            raise Unsupported("%s_iter signature" % name)
        f = FnQ(T, it, None, "traph", True, rtype, decl=decl)
        f.returns = ["sg"]
        f.has_sg = True
        f.tnode_storage = "sg"
        f.rcoq = "option (py_pm * %s)" % rcoq
        body = f.block(list(it.body), dict((q[0], q[1]) for q in params),
                       lambda e2: (_ for _ in ()).throw(Unsupported("%s_iter falls off its end without finalize" % name)))
        ps = "".join(" (v_%s : %s)" % (q[0], GL.COQT[q[1]]) for q in params)
        T.out.append("Definition py_traph_%s (sg sgl : py_pm)%s : option (py_pm * %s) :=\n %s." % (name, ps, rcoq, body))
        w = TR[name]
        if len(w.body) != 1 or ast.unparse(w.body[0]) != wrapper or [a.arg for a in w.args.args] != ["self"] + [q[0] for q in params] \
                or [ast.unparse(d) for d in w.args.defaults] != defaults:
            raise Unsupported("%s body: %s" % (name, ast.unparse(w.body[0])))
    qfn("get_webentity_pagelinks", [("weid", "N"), ("prefixes", "listB"), ("include_inbound", "bool"), ("include_internal", "bool"), ("include_outbound", "bool")],
        "links3", "list (bytes * bytes * N)", ["False", "True", "False"], {"pagelinks": "links3"},
        "return run_iterator(self.get_webentity_pagelinks_iter(weid, prefixes, include_inbound=include_inbound, include_internal=include_internal, include_outbound=include_outbound))")
    qfn("get_webentity_outlinks", [("weid", "N"), ("prefixes", "listB")], "oNset", "list (option N)", [], {},
        "return run_iterator(self.get_webentity_outlinks_iter(weid, prefixes))")
    qfn("get_webentity_inlinks", [("weid", "N"), ("prefixes", "listB")], "oNset", "list (option N)", [], {},
        "return run_iterator(self.get_webentity_inlinks_iter(weid, prefixes))")
    L = ["(* GENERATED by harness/gen_traphq.py from %s/traph/traph.py, lru_trie/lru_trie.py -- do not edit *)" % REPO,
         "From Coq Require Import List NArith Bool Arith.", "Import ListNotations.",
         "From Traph Require Import Bytes Consts Layout Codec GenStorage GenNode GenLinks GenTrie GenTrieW GenTrieD GenTraphL.", ""]
    text = "\n".join(L + T.out) + "\n"
    old = open(out).read() if os.path.exists(out) else None
    if old != text:
        with open(out, "w") as fh:
            fh.write(text)
    return 0


if __name__ == "__main__":
    try:
        sys.exit(main(sys.argv[1]))
    except Unsupported as e:
        print("gen_traphq: UNSUPPORTED: %s" % e)
        sys.exit(3)
    except (KeyError, AttributeError, IndexError, TypeError) as e:
        print("gen_traphq: UNSUPPORTED: unexpected source shape (%s: %s)" % (type(e).__name__, e))
        sys.exit(3)
