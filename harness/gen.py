"""gen.py — structured generators of LRUs and request histories.
Every random choice comes from the one random.Random handed in."""
import impl as I

SCHEMES = [b"http", b"http", b"http", b"https", b"https", b"ftp"]
TLDS = [b"com", b"com", b"org", b"fr"]
DOMS = [b"a", b"b", b"twitter", b"site", b"caf\xc3\xa9"]          # one non-ASCII (UTF-8) label: text arguments are encoded by the API
SUBS = [b"www", b"www", b"blog", b"m"]
SPECIAL_HOSTS = [b"localhost", b"1.2.3.4", b"[::1]", b"LocalHost", b"192.168.0.1"]
PATHS = [b"a", b"b", b"ab", b"c", b"a", b"x", b"men\xc3\xbc"]
CRIT_LENGTHS = [73, 74, 75, 76, 147, 148, 149, 150, 221, 222, 223, 300]


# stems that are proper prefixes of each other with the next byte on either side of '|' (0x7c),
# and long stems sharing their whole first block (74 bytes) and more
NESTED = [b"a~", b"a\x7f", b"a}", b"a\xc3\xa9", b"ab~", b"a\x80", b"a\xff\xff", b"a{", b"a!"]
LONG_FAMILY = [c * 80 + t for c in (b"x", b"~") for t in (b"a", b"b", b"", b"~")] + \
              [c * 150 + t for c in (b"x", b"~") for t in (b"a", b"", b"b")] + [b"x" * 72, b"x" * 71, b"~" * 72]


def weird_payload(rng, long_ok=True):
    r0 = rng.random()
    if r0 < 0.2:
        return rng.choice(NESTED)
    if r0 < 0.4 and long_ok:
        return rng.choice(LONG_FAMILY)
    r = rng.random()
    if r < 0.25 and long_ok:
        n = rng.choice(CRIT_LENGTHS) - 3   # so that "p:" + payload + "|" hits the critical length
        c = rng.choice([b"x", b"y", b"\x7f", b"~", b"\x00"])
        return c * max(n, 1)
    if r < 0.5:
        return bytes(rng.choice([0, 1, 0x7b, 0x7d, 0x7e, 0x7f, 0x80, 0xff, 0x41, 0x61]) for _ in range(rng.randint(1, 3)))
    if r < 0.75:
        return rng.choice([b"s:http", b"s:https", b"xs:http", b"h:www", b"h:a", b"s:http:", b"p:"])
    return rng.choice(PATHS) + rng.choice(PATHS)


WEIRD = 0.15   # share of path stems drawn from the unusual payloads (set per campaign)


def gen_lru(rng, weird=None, maxpath=3, long_ok=True):
    if weird is None:
        weird = WEIRD
    stems = [b"s:" + rng.choice(SCHEMES)]
    if rng.random() < 0.1:
        stems.append(b"t:" + rng.choice([b"80", b"8080"]))
    r = rng.random()
    if r < 0.08:
        stems.append(b"h:" + rng.choice(SPECIAL_HOSTS))
    elif r < 0.12:
        pass                                   # no host at all
    elif r < 0.17:
        stems.append(b"h:" + rng.choice(TLDS))  # a single host
    else:
        stems.append(b"h:" + rng.choice(TLDS))
        stems.append(b"h:" + rng.choice(DOMS))
        for _ in range(rng.choice([0, 0, 0, 1, 1, 2])):
            stems.append(b"h:" + rng.choice(SUBS))
    for _ in range(rng.randint(0, maxpath)):
        if rng.random() < weird:
            if rng.random() < 0.12:
                stems.append(b"")                       # the one-byte stem "|" (an empty path component: "...||")
            else:
                stems.append(b"p:" + weird_payload(rng, long_ok))
        else:
            stems.append(b"p:" + rng.choice(PATHS))
    if rng.random() < 0.1:
        stems.append(b"q:" + rng.choice([b"k=v", b"a"]))
    if rng.random() < 0.05:
        stems.append(b"f:" + rng.choice([b"top", b"a"]))
    return b"".join(s + b"|" for s in stems)


def stem_prefixes(lru):
    out, cur = [], b""
    for st in lru.split(b"|")[:-1]:
        cur += st + b"|"
        out.append(cur)
    return out


class Tracker(object):
    """what the generator remembers of the history, to aim later requests and queries"""

    def __init__(self):
        self.lrus = []       # every LRU mentioned
        self.pages = []
        self.pref = {}       # prefix -> weid, from the replies
        self.rules = []      # current (anchor, kind) in RAM
        self.dflt = 0
        self.last = 0

    def note_report(self, r):
        if isinstance(r, list) and len(r) == 2 and isinstance(r[1], list):
            for w, ps in r[1]:
                if isinstance(w, int):
                    self.last = max(self.last, w)
                    for p in ps:
                        self.pref[p] = w

    def weids(self):
        return sorted(set(self.pref.values()))

    def prefixes_of(self, w):
        return [p for p, x in self.pref.items() if x == w]


def pick_lru(rng, tr, fresh=0.5, **kw):
    if tr.lrus and rng.random() > fresh:
        l = rng.choice(tr.lrus)
        r = rng.random()
        if r < 0.2:                            # an extension of a known LRU
            return l + b"p:" + (weird_payload(rng) if rng.random() < WEIRD else rng.choice(PATHS)) + b"|"
        if r < 0.26 and l.count(b"|") > 2:     # a sibling of a known LRU (same parent, another last stem)
            parent = b"".join(x + b"|" for x in l.split(b"|")[:-2])
            return parent + b"p:" + (weird_payload(rng) if rng.random() < 2 * WEIRD else rng.choice(PATHS)) + b"|"
        if r < 0.3:                            # a stem-prefix of a known LRU
            return rng.choice(stem_prefixes(l))
        return l
    return gen_lru(rng, **kw)


def pick_prefix(rng, tr):
    """a plausible webentity prefix / rule anchor"""
    if tr.lrus and rng.random() < 0.8:
        return rng.choice(stem_prefixes(rng.choice(tr.lrus)))
    return gen_lru(rng, weird=0.05, maxpath=1)


def gen_write(rng, tr, mix):
    """returns (op, args) for one write request. mix: dict opname -> weight"""
    names = list(mix.keys())
    name = rng.choices(names, weights=[mix[n] for n in names])[0]
    if name == "add_page":
        return 2, [pick_lru(rng, tr), rng.randint(0, 1)]
    if name == "add_pages":
        return 3, [[pick_lru(rng, tr) for _ in range(rng.randint(1, 4))], rng.randint(0, 1)]
    if name == "add_links":
        pool = [pick_lru(rng, tr) for _ in range(rng.randint(1, 4))]
        links = []
        for _ in range(rng.randint(1, 6)):
            a, b = rng.choice(pool), rng.choice(pool)
            if rng.random() < 0.15:
                b = a                           # self link
            links.append([a, b])
        if rng.random() < 0.3:
            links.append(list(rng.choice(links)))   # repeated link
        return 4, [links]
    if name == "batch" and tr.pages and rng.random() < 0.35:
        # the stale-copy trap: a page cached early in the batch (as a target) gets new nodes hooked onto its
        # block later in the same batch (first child, or a sibling in its BST), and is then itself a source
        P = rng.choice(tr.pages)
        kids = [P + b"p:" + rng.choice(PATHS) + rng.choice([b"", b"1", b"z"]) + b"|" for _ in range(rng.randint(1, 2))]
        sib = b"".join(x + b"|" for x in P.split(b"|")[:-2]) + b"p:" + rng.choice(PATHS) + rng.choice([b"0", b"zz", b""]) + b"|"
        S0 = pick_lru(rng, tr)
        others = [S0, P] + kids + [sib]
        data = [[S0, [P] + ([rng.choice(others)] if rng.random() < 0.5 else [])]]
        data.append([rng.choice([sib, kids[0]]), [rng.choice(kids + [sib])]])
        if P not in [d[0] for d in data]:
            data.append([P, [rng.choice([S0, P, kids[0]])] if rng.random() < 0.8 else []])
        seen, out = set(), []
        for src, tg in data:
            if src not in seen:
                seen.add(src)
                out.append([src, tg])
        return 5, [out]
    if name == "add_links" and tr.pages and rng.random() < 0.3:
        P = rng.choice(tr.pages)
        kid = P + b"p:" + rng.choice(PATHS) + b"|"
        S0 = pick_lru(rng, tr)
        return 4, [[[S0, P], [kid, S0], [P, kid], [P, S0]][: rng.randint(2, 4)]]
    if name == "batch":
        pool = [pick_lru(rng, tr) for _ in range(rng.randint(2, 5))]
        data, seen = [], set()
        for _ in range(rng.randint(1, 3)):
            src = rng.choice(pool)
            if src in seen:
                continue
            seen.add(src)
            tg = [rng.choice(pool) for _ in range(rng.choice([0, 1, 2, 3, 3]))]
            data.append([src, tg])
        return 5, [data]
    if name == "create_we":
        return 6, [[pick_prefix(rng, tr) for _ in range(rng.choice([1, 1, 2]))]]
    if name == "delete_we":
        ws = tr.weids()
        if ws and rng.random() < 0.85:
            w = rng.choice(ws)
            ps = tr.prefixes_of(w)
            if rng.random() < 0.2 and len(ps) > 1:
                ps = ps[:-1]
            if rng.random() < 0.1:
                w = w + 1                        # wrong id: refusal stream
            elif rng.random() < 0.15 and ps:
                # a refused deletion whose list STARTS with attached prefixes: nothing of it may take effect
                others = [p for p in tr.pref if tr.pref[p] != w]
                ps = list(ps) + [rng.choice(others) if others and rng.random() < 0.6 else pick_prefix(rng, tr)]
            return 7, [w, ps]
        return 7, [rng.randint(1, 5), [pick_prefix(rng, tr)]]
    if name == "add_prefix":
        ws = tr.weids()
        w = rng.choice(ws) if ws and rng.random() < 0.8 else rng.randint(1, max(1, tr.last))
        p = rng.choice(list(tr.pref.keys())) if tr.pref and rng.random() < 0.2 else pick_prefix(rng, tr)
        return 8, [p, w]
    if name == "remove_prefix":
        if tr.pref and rng.random() < 0.8:
            p = rng.choice(list(tr.pref.keys()))
            w = tr.pref[p]
            r = rng.random()
            if r < 0.3:
                w = 0
            elif r < 0.4:
                w = w + 1
            return 9, [p, w]
        return 9, [pick_prefix(rng, tr), rng.choice([0, 1, 2])]
    if name == "move_prefix":
        ws = tr.weids()
        wt = rng.choice(ws) if ws else 1
        if tr.pref and rng.random() < 0.8:
            p = rng.choice(list(tr.pref.keys()))
            wsrc = tr.pref[p] if rng.random() < 0.6 else rng.choice([0, wt])
            return 10, [p, wt, wsrc]
        return 10, [pick_prefix(rng, tr), wt, 0]
    if name == "add_rule":
        return 11, [pick_prefix(rng, tr), rng.choice([0, 1, 2, 2, 3, 4, 5])]
    if name == "remove_rule":
        if tr.rules:
            return 12, [rng.choice(tr.rules)[0]]
        return 11, [pick_prefix(rng, tr), rng.choice([0, 1, 2, 3])]
    if name == "reopen":
        return 13, [tr.dflt, [[p, k] for p, k in tr.rules]]
    if name == "clear":
        r = rng.random()
        if r < 0.5:
            return 14, [None, None]
        d = rng.choice([0, 1])
        rs = [[pick_prefix(rng, tr), rng.choice([0, 1, 2, 3])] for _ in range(rng.randint(0, 2))]
        rs = [x for i, x in enumerate(rs) if x[0] not in [y[0] for y in rs[:i]]]
        return 14, [d, rs]
    raise KeyError(name)


DEFAULT_MIX = {"add_page": 30, "add_pages": 8, "add_links": 14, "batch": 8, "create_we": 8,
               "delete_we": 5, "add_prefix": 6, "remove_prefix": 5, "move_prefix": 4,
               "add_rule": 5, "remove_rule": 2, "reopen": 3, "clear": 1}


def track(tr, op, args, reply):
    """update the tracker after a write request answered `reply` by the implementation"""
    ok = not I.is_err(reply) if hasattr(I, "is_err") else True
    def note(l):
        tr.lrus.append(l)
    if op == 2:
        note(args[0]); tr.pages.append(args[0])
    elif op == 3:
        for l in args[0]:
            note(l); tr.pages.append(l)
    elif op == 4:
        for a, b in args[0]:
            note(a); note(b); tr.pages += [a, b]
    elif op == 5:
        for s, tg in args[0]:
            note(s); tr.pages.append(s)
            for t in tg:
                note(t); tr.pages.append(t)
    elif op == 6:
        for p in args[0]:
            note(p)
    elif op == 7:
        if reply == 1:
            for p in args[1]:
                tr.pref.pop(p, None)
    elif op == 8:
        note(args[0])
        if reply == 1:
            tr.pref[args[0]] = args[1]
    elif op == 9:
        note(args[0])
        if reply == 1:
            tr.pref.pop(args[0], None)
    elif op == 10:
        note(args[0])
        if reply == 1:
            tr.pref[args[0]] = args[1]
        # a move refused at the add stage has already removed the prefix: re-read below
    elif op == 11:
        note(args[0])
        tr.rules = [x for x in tr.rules if x[0] != args[0]] + [(args[0], args[1])]
    elif op == 12:
        tr.rules = [x for x in tr.rules if x[0] != args[0]]
    elif op == 1:
        tr.__init__()
        tr.dflt = args[0]
        tr.rules = [(p, k) for p, k in args[1]]
        for p, _ in tr.rules:
            note(p)
    elif op == 13:
        tr.dflt = args[0]
        tr.rules = [(p, k) for p, k in args[1]]
    elif op == 14:
        rules, dflt = tr.rules, tr.dflt
        tr.__init__()
        tr.dflt = args[0] if args[0] is not None else dflt
        tr.rules = [(p, k) for p, k in args[1]] if args[1] is not None else rules
        if args[1] is not None:
            for p, _ in tr.rules:
                note(p)
    tr.note_report(reply)
    if len(tr.lrus) > 400:
        del tr.lrus[:200]
