#!/venv/bin/python
"""Translate the indexation of a crawl batch (traph/traph.py: Traph.index_batch_crawl_iter / index_batch_crawl) from the Python
AST into Gallina: coq/theories/GenTraphB.v, regenerated on every run, with its SEQUENTIAL meaning (the request run to its end
without another request in between: `if state.should_yield(..): yield state` are scheduling points without effect then; the
interleavings are the subject of Sched.v and the schedule runs of C16).  Built on the translated Traph.__add_page (GenTraphP.v),
LinkStore.add_links (GenLinks.v) and the dict / multimap vocabulary of GenTraphK.v.
  * `data` (a dict source -> list of targets) is the list of its items in insertion order, its keys distinct;
  * `target_blocks = []` / `.append(node.block)`: a node object without block raises when the list is consumed by add_links
    (struct.pack of None): None for the whole request, at the append;
  * `source_node` is bound on both branches of `if source_page not in pages`; flag_as_crawled + write after a refresh when the
    cached object is not marked crawled.
GenTraphBFacts.v proves the translated request equal to the model's Traph.batch_crawl on every reachable state."""
import ast
import os
import sys

sys.path.insert(0, os.path.dirname(os.path.abspath(__file__)))
import gen_links as GL       # noqa: E402
import gen_trie as GT        # noqa: E402
import gen_triew as GW       # noqa: E402
import gen_traphk as GK      # noqa: E402

REPO = os.environ.get("VERIF_REPO", "/repo")
Unsupported = GL.Unsupported

GL.COQT.update({"batch": "list (bytes * list bytes)"})

OUTER = ["hd", "sg", "sgl", "v_report", "v_pages", "v_inlinks"]
OUTER_T = "(py_thdr * py_pm * py_pm * py_report * list (bytes * py_node) * list (bytes * list bytes))"
INNER = ["hd", "sg", "v_report", "v_pages", "v_inlinks", "v_target_blocks"]
INNER_T = "(py_thdr * py_pm * py_report * list (bytes * py_node) * list (bytes * list bytes) * list N)"


class FnB(GK.FnK):
    def block(self, stmts, env, k):
        if stmts:
            s, rest = stmts[0], stmts[1:]
            nxt = lambda env2=None: self.block(rest, env if env2 is None else env2, k)          # noqa: E731
            if isinstance(s, ast.Assign) and len(s.targets) == 1 and isinstance(s.targets[0], ast.Name):
                n, v = s.targets[0].id, s.value
                if isinstance(v, ast.List) and not v.elts and self.decl.get(n) == "listN":
                    return "(let v_%s := (@nil N) in\n %s)" % (n, nxt(dict(env, **{n: "listN"})))
            if isinstance(s, ast.Assign) and len(s.targets) == 1 and isinstance(s.targets[0], ast.Tuple) and isinstance(s.value, ast.Call) \
                    and ast.unparse(s.value.func) == "self.__add_page" and len(s.value.args) == 1 \
                    and [kw.arg for kw in s.value.keywords] == ["crawled"]:
                a = [x.id for x in s.targets[0].elts]
                l, tl = self.expr(s.value.args[0], env)
                b, tb = self.expr(s.value.keywords[0].value, env)
                return "(match py_traph_add_page_int rm hd sg %s %s with\n | None => %s\n | Some (hd, sg, (v_%s, v_%s)) => %s end)" % (
                    l, b, self.fail(), a[0], a[1], nxt(dict(env, **{a[0]: "tnode", a[1]: "report"})))
            if isinstance(s, ast.Expr) and isinstance(s.value, ast.Call) and isinstance(s.value.func, ast.Attribute) and s.value.func.attr == "append" \
                    and isinstance(s.value.func.value, ast.Name) and env.get(s.value.func.value.id) == "listN" and len(s.value.args) == 1:
                d = s.value.func.value.id
                a = s.value.args[0]
                if isinstance(a, ast.Attribute) and a.attr == "block" and isinstance(a.value, ast.Subscript) and isinstance(a.value.value, ast.Name) \
                        and env.get(a.value.value.id) == "ndict2":
                    kx, tk = self.expr(a.value.slice, env)
                    return ("(match py_dict_get %s v_%s with\n | None => %s\n | Some v__n => (match nd_block v__n with\n | None => %s\n"
                            " | Some v__b => (let v_%s := v_%s ++ [v__b] in\n %s) end) end)" % (kx, a.value.value.id, self.fail(), self.fail(), d, d, nxt()))
                x, tx = self.expr(a, env)
                if tx == "oN":
                    return "(match %s with\n | None => %s\n | Some v__b => (let v_%s := v_%s ++ [v__b] in\n %s) end)" % (x, self.fail(), d, d, nxt())
                raise Unsupported("append of %s to the block list" % tx)
            if isinstance(s, ast.If) and s.orelse and self.loop_k == "outer" and isinstance(s.test, ast.Compare) \
                    and isinstance(s.test.ops[0], ast.NotIn) and rest:
                # if source_page not in pages: <insert it> else: <take the recorded object, mark it crawled>: both branches bind
                # source_node; joined on (hd, sg, report, pages, source_node) so that what follows is not duplicated
                c, tc = self.expr(s.test, env)
                jn = ["hd", "sg", "v_report", "v_pages", "v_source_node"]
                pat = "(" + ", ".join(jn) + ")"

                def kj(e2):
                    if e2.get("source_node") != "tnode":
                        raise Unsupported("source_node not bound on a branch")
                    return "(Some %s)" % pat
                a = self.block(list(s.body), dict(env), kj)
                b = self.block(list(s.orelse), dict(env), kj)
                return "(match (if %s\n then %s\n else %s) with\n | None => %s\n | Some %s => %s end)" % (
                    c, a, b, self.fail(), pat, nxt(dict(env, **{"source_node": "tnode"})))
            if isinstance(s, ast.For) and not s.orelse and isinstance(s.iter, ast.Call) and ast.unparse(s.iter) == "data.items()" \
                    and env.get("data") == "batch" and isinstance(s.target, ast.Tuple) and len(s.target.elts) == 2 and self.loop_k is None:
                a, b = [x.id for x in s.target.elts]
                pat = "(" + ", ".join(OUTER) + ")"
                self.loop_k = "outer"
                body = self.block(list(s.body), dict(env, **{a: "bytes", b: "listB"}), lambda e2: "(Some %s)" % pat)
                self.loop_k = None
                return ("(match fold_left (fun (st : option %s) (v__it : (bytes * list bytes)) =>\n match st with\n | None => None\n | Some %s => (let '(v_%s, v_%s) := v__it in\n %s) end)\n"
                        " v_data (Some %s) with\n | None => %s\n | Some %s => %s end)" % (OUTER_T, pat, a, b, body, pat, self.fail(), pat, nxt()))
            if isinstance(s, ast.For) and not s.orelse and isinstance(s.iter, ast.Name) and env.get(s.iter.id) == "listB" \
                    and isinstance(s.target, ast.Name) and self.loop_k == "outer":
                pat = "(" + ", ".join(INNER) + ")"
                self.loop_k = "inner"
                body = self.block(list(s.body), dict(env, **{s.target.id: "bytes"}), lambda e2: "(Some %s)" % pat)
                self.loop_k = "outer"
                return ("(match fold_left (fun (st : option %s) (v_%s : bytes) =>\n match st with\n | None => None\n | Some %s => %s end)\n"
                        " v_%s (Some %s) with\n | None => %s\n | Some %s => %s end)" % (INNER_T, s.target.id, pat, body, s.iter.id, pat, self.fail(), pat, nxt()))
            if isinstance(s, ast.For) and not s.orelse and isinstance(s.iter, ast.Call) and isinstance(s.iter.func, ast.Attribute) \
                    and s.iter.func.attr == "items" and isinstance(s.iter.func.value, ast.Name) and env.get(s.iter.func.value.id) == "mmap" \
                    and self.loop_k is None:
                return GK.FnK.block(self, stmts, env, k)
        return GK.FnK.block(self, stmts, env, k)

    def cond(self, t, env, kt, kf):
        if isinstance(t, ast.Compare) and len(t.ops) == 1 and isinstance(t.ops[0], ast.NotIn):
            a, ta = self.expr(t, env)
            return "(if %s\n then %s\n else %s)" % (a, kt(dict(env)), kf(dict(env)))
        return GK.FnK.cond(self, t, env, kt, kf)


def main(out):
    T, _, TN, LT = GT.build()
    GW.register(T, TN, LT)
    T.out = []
    T.join_calls = False
    T.sigs[("tnode", "refresh")] = {"kind": "io", "params": [], "rtype": None, "coq": "py_node_refresh"}
    p = os.path.join(REPO, "traph", "traph.py")
    tree = ast.parse(open(p).read(), p)
    c = [n for n in tree.body if isinstance(n, ast.ClassDef) and n.name == "Traph"]
    TR = dict((n.name, n) for n in c[0].body if isinstance(n, ast.FunctionDef))
    enc = TR.get("__encode")
    if enc is None or [ast.unparse(x) for x in enc.body] != ["if isinstance(string, bytes):\n    return string", "return string.encode(self.encoding)"]:
        raise Unsupported("Traph.__encode body")
    pls = os.path.join(REPO, "traph", "link_store", "link_store.py")
    LS = GW.cls(ast.parse(open(pls).read(), pls), "LinkStore")
    for name, flag in (("add_outlinks", "True"), ("add_inlinks", "False")):
        fn = LS[name]
        if len(fn.body) != 1 or ast.unparse(fn.body[0]) != "return self.add_links(source_node, target_blocks, out=%s)" % flag:
            raise Unsupported("LinkStore.%s body" % name)
    pi = os.path.join(REPO, "traph", "traph_iterator_state.py")
    ti = ast.parse(open(pi).read(), pi)
    want_run = "def run_iterator(iterator):\n    for state in iterator:\n        pass\n    return state.result"
    got = [ast.unparse(n) for n in ti.body if isinstance(n, ast.FunctionDef)]
    if got != [want_run]:
        raise Unsupported("run_iterator")
    st = [ast.unparse(n) for n in ti.body if isinstance(n, ast.ClassDef)]
    if len(st) != 1 or "def should_yield(self, yield_frequency=1000):\n        self.n_iterations += 1\n        return not self.n_iterations % yield_frequency" not in st[0] \
            or "def finalize(self, result):\n        self.done = True\n        self.result = result\n        return self" not in st[0]:
        raise Unsupported("TraphIteratorState")
    fn = TR["index_batch_crawl"]
    if [a.arg for a in fn.args.args] != ["self", "data", "yield_frequency"] or len(fn.body) != 1 \
            or ast.unparse(fn.body[0]) != "return run_iterator(self.index_batch_crawl_iter(data, yield_frequency))":
        raise Unsupported("index_batch_crawl body")
    fn = TR["index_batch_crawl_iter"]
    if [a.arg for a in fn.args.args] != ["self", "data", "yield_frequency"] or fn.args.defaults:
        raise Unsupported("index_batch_crawl_iter signature")
    f = FnB(T, fn, None, "traph", True, "report", decl={"target_blocks": "listN"})
    f.returns = ["hd", "sg", "sgl"]
    f.has_sg = True
    f.tnode_storage = "sg"
    f.rcoq = "option (py_thdr * py_pm * py_pm * py_report)"
    body = f.block(list(fn.body), {"data": "batch", "yield_frequency": "N"},
                   lambda e2: (_ for _ in ()).throw(Unsupported("index_batch_crawl_iter falls off its end without finalize")))
    T.out.append("Definition py_traph_index_batch_crawl (rm : py_ram) (hd : py_thdr) (sg sgl : py_pm) (v_data : list (bytes * list bytes)) (v_yield_frequency : N) : option (py_thdr * py_pm * py_pm * py_report) :=\n %s." % body)
    L = ["(* GENERATED by harness/gen_traphb.py from %s/traph/traph.py -- do not edit *)" % REPO,
         "From Coq Require Import List NArith Bool Arith.", "Import ListNotations.",
         "From Traph Require Import Bytes Consts Layout Codec Rules GenStorage GenNode GenLinks GenTrie GenTrieW GenTraphW GenTraphP GenTraphK.", ""]
    text = "\n".join(L + T.out) + "\n"
    old = open(out).read() if os.path.exists(out) else None
    if old != text:
        with open(out, "w") as fh:
            fh.write(text)
    return 0


if __name__ == "__main__":
    try:
        sys.exit(main(sys.argv[1]))
    except Unsupported as e:
        print("gen_traphb: UNSUPPORTED: %s" % e)
        sys.exit(3)
    except (KeyError, AttributeError, IndexError, TypeError) as e:
        print("gen_traphb: UNSUPPORTED: unexpected source shape (%s: %s)" % (type(e).__name__, e))
        sys.exit(3)
