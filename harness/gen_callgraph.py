#!/venv/bin/python
"""Regenerate coq/theories/CallGraph.v from the current /repo source.

Vertices: every function / method of the `traph` package.  Edges: every call,
resolved BY NAME (an attribute call `x.m(...)` goes to every method or function named
`m` in the package; a plain call `f(...)` to every module-level function or class
constructor named `f`; `len(x)` to every `__len__`; `+=` to every `__iadd__`;
`for ... in x` / iteration is covered because generators are ordinary calls).
Writer vertices: bodies that touch a store (file write, bytearray mutation, opening a
file for writing, truncation, removal).  Read-only roots: the public read methods of
`Traph`, from a closed list - an unclassified public method makes the translator
fail (the property is then reported as no longer shown)."""
import ast
import os
import sys

REPO = os.environ.get("VERIF_REPO", "/repo")

WRITE_API = {
    "__init__", "add_page", "add_pages", "add_links", "index_batch_crawl", "index_batch_crawl_iter",
    "create_webentity", "delete_webentity", "add_prefix_to_webentity", "remove_prefix_from_webentity",
    "move_prefix_to_webentity", "move_prefix_to_webentity_from_webentity",
    "add_webentity_creation_rule", "add_webentity_creation_rule_iter", "remove_webentity_creation_rule",
    "clear", "close",
}
RO_API = {
    "retrieve_prefix", "get_potential_prefix", "retrieve_webentity", "get_webentity_by_prefix",
    "get_webentity_pages_iter", "get_webentity_pages", "paginate_webentity_pages",
    "get_webentity_crawled_pages_iter", "get_webentity_crawled_pages",
    "get_webentity_most_linked_pages_iter", "get_webentity_most_linked_pages",
    "get_webentity_parent_webentities", "get_webentity_child_webentities_iter", "get_webentity_child_webentities",
    "get_webentity_pagelinks_iter", "get_webentity_pagelinks", "paginate_webentity_pagelinks",
    "get_webentity_outlinks_iter", "get_webentity_outlinks", "get_webentity_outdegree",
    "get_webentity_inlinks_iter", "get_webentity_inlinks", "get_webentity_indegree", "get_webentity_degree",
    "get_page_links", "get_page_indegree", "get_page_outdegree", "get_page_degree",
    "get_webentities_links_slow_iter", "get_webentities_links_iter", "get_webentities_inlinks_iter",
    "get_webentities_outlinks_iter", "get_webentities_links", "get_webentities_links_slow",
    "get_webentities_inlinks", "get_webentities_outlinks", "expand_prefix",
    "links_iter", "pages_iter", "webentity_prefix_iter", "webentity_page_nodes_iter",
    "count_pages", "count_crawled_pages", "count_links", "links_metrics", "metrics",
}
MUTATING_ATTRS = {"write", "writelines", "truncate", "extend", "append", "insert", "pop", "remove", "clear",
                  "unlink", "rmdir", "rmtree", "rename", "replace_file", "flush_write"}
STORE_RECEIVERS = {"file", "array", "map", "lru_trie_file", "link_store_file"}


class Unsupported(Exception):
    pass


def receiver_name(node):
    """last attribute name of the receiver expression: self.file.write -> 'file'"""
    if isinstance(node, ast.Attribute):
        return node.attr
    if isinstance(node, ast.Name):
        return node.id
    if isinstance(node, ast.Subscript):
        return receiver_name(node.value)
    return None


def is_store_mutation(n):
    # self.file.write(..), self.array.extend(..), self.array[...] = .., del self.array[..], self.array = bytearray()
    if isinstance(n, ast.Call) and isinstance(n.func, ast.Attribute):
        if n.func.attr in MUTATING_ATTRS and receiver_name(n.func.value) in STORE_RECEIVERS:
            return True
        if n.func.attr in ("remove", "unlink", "rmdir", "rename", "truncate", "ftruncate", "rmtree") and \
                receiver_name(n.func.value) in ("os", "shutil", "path"):
            return True
    if isinstance(n, ast.Call) and isinstance(n.func, ast.Name) and n.func.id == "open":
        mode = None
        if len(n.args) >= 2:
            mode = n.args[1]
        for kw in n.keywords:
            if kw.arg == "mode":
                mode = kw.value
        if mode is None:
            return False
        if isinstance(mode, ast.Constant) and isinstance(mode.value, str):
            return any(c in mode.value for c in "wa+x")
        return True   # computed mode: assume it may write
    if isinstance(n, (ast.Assign, ast.AugAssign, ast.Delete)):
        targets = n.targets if isinstance(n, (ast.Assign, ast.Delete)) else [n.target]
        for t in targets:
            if isinstance(t, ast.Subscript) and receiver_name(t.value) in STORE_RECEIVERS:
                return True
            if isinstance(t, ast.Attribute) and t.attr == "array":
                return True
    return False


def arity_ok(call, fdef, is_method):
    """can this call site bind the parameters of fdef?  (a call that cannot raises TypeError
    before the body runs, so dropping the edge is sound)"""
    if any(isinstance(a, ast.Starred) for a in call.args) or any(k.arg is None for k in call.keywords):
        return True
    a = fdef.args
    params = [x.arg for x in a.posonlyargs + a.args]
    if is_method and params:
        params = params[1:]          # self
    ndefaults = len(a.defaults)
    required = params[: len(params) - ndefaults] if ndefaults <= len(params) else []
    npos = len(call.args)
    kws = [k.arg for k in call.keywords]
    if a.vararg is None and npos > len(params):
        return False
    if a.kwarg is None:
        allowed = set(params) | set(x.arg for x in a.kwonlyargs)
        if any(k not in allowed for k in kws):
            return False
    bound = set(params[:npos]) | set(kws)
    if any(r not in bound for r in required):
        return False
    for x, d in zip(a.kwonlyargs, a.kw_defaults):
        if d is None and x.arg not in kws:
            return False
    return True


def main(out):
    funcs = {}        # qualified name -> ast node
    by_name = {}      # bare name -> [qualified]
    classes = {}      # class name -> qualified __init__ (or None)
    toplevel = set()  # module-level functions
    pkg = os.path.join(REPO, "traph")
    for dp, dn, fn in os.walk(pkg):
        for f in sorted(fn):
            if not f.endswith(".py"):
                continue
            path = os.path.join(dp, f)
            mod = os.path.relpath(path, REPO)[:-3].replace(os.sep, ".")
            tree = ast.parse(open(path).read(), path)
            for node in tree.body:
                if isinstance(node, (ast.FunctionDef, ast.AsyncFunctionDef)):
                    q = "%s.%s" % (mod, node.name)
                    funcs[q] = node
                    toplevel.add(q)
                    by_name.setdefault(node.name, []).append(q)
                elif isinstance(node, ast.ClassDef):
                    classes.setdefault(node.name, [])
                    for item in node.body:
                        if isinstance(item, (ast.FunctionDef, ast.AsyncFunctionDef)):
                            q = "%s.%s.%s" % (mod, node.name, item.name)
                            funcs[q] = item
                            by_name.setdefault(item.name, []).append(q)
                            if item.name == "__init__":
                                classes[node.name].append(q)
    traph_methods = [q for q in funcs if q.startswith("traph.traph.Traph.")]
    roots = []
    for q in traph_methods:
        name = q.rsplit(".", 1)[1]
        if name.startswith("_Traph__") or (name.startswith("__") and not name.endswith("__")):
            continue   # private helpers are reached through the public methods
        if name in RO_API:
            roots.append(q)
        elif name in WRITE_API or (name.startswith("__") and name.endswith("__")):
            continue
        else:
            raise Unsupported("public method Traph.%s is not classified read-only / writing" % name)
    missing = [n for n in RO_API if "traph.traph.Traph.%s" % n not in funcs]
    # (a removed read method is fine: nothing to check for it)
    names = sorted(funcs)
    idx = dict((q, i) for i, q in enumerate(names))
    edges = set()
    writers = set()
    for q, node in funcs.items():
        for n in ast.walk(node):
            if is_store_mutation(n):
                writers.add(idx[q])
            if isinstance(n, ast.Call):
                targets = []
                if isinstance(n.func, ast.Attribute):
                    targets += by_name.get(n.func.attr, [])
                    # private name mangling: self.__x -> method __x
                elif isinstance(n.func, ast.Name):
                    nm = n.func.id
                    targets += [t for t in by_name.get(nm, []) if t in toplevel]
                    targets += classes.get(nm, [])
                    if nm == "len":
                        targets += by_name.get("__len__", [])
                    if nm in ("getattr", "setattr", "eval", "exec", "__import__"):
                        raise Unsupported("%s uses %s(): dynamic dispatch is outside the call-graph abstraction" % (q, nm))
                for t in targets:
                    if arity_ok(n, funcs[t], is_method=(t not in toplevel)):
                        edges.add((idx[q], idx[t]))
            if isinstance(n, ast.AugAssign):
                for t in by_name.get("__iadd__", []):
                    edges.add((idx[q], idx[t]))
    L = []
    A = L.append
    A("(* GENERATED by harness/gen_callgraph.py from %s -- do not edit *)" % REPO)
    A("From Coq Require Import List NArith.")
    A("Import ListNotations.")
    A("Open Scope N_scope.")
    A("")
    A("(* vertices (index: qualified name)")
    for q in names:
        A("   %3d %s%s" % (idx[q], q, "   [writer]" if idx[q] in writers else ""))
    A("*)")
    A("Definition cg_size : N := %d." % len(names))
    A("Definition cg_edges : list (N * N) := [%s]." % "; ".join("(%d, %d)" % e for e in sorted(edges)))
    A("Definition cg_writers : list N := [%s]." % "; ".join(str(w) for w in sorted(writers)))
    A("Definition cg_ro_roots : list N := [%s]." % "; ".join(str(idx[r]) for r in sorted(roots)))
    text = "\n".join(L) + "\n"
    old = open(out).read() if os.path.exists(out) else None
    if old != text:
        with open(out, "w") as f:
            f.write(text)
    return 0


if __name__ == "__main__":
    try:
        sys.exit(main(sys.argv[1]))
    except Unsupported as e:
        print("gen_callgraph: UNSUPPORTED: %s" % e)
        sys.exit(3)
