#!/venv/bin/python
"""harvest.py - build the corpus of minimized failing histories from the kept seeded changes.
For every /verif/seeded/<name> whose property is checked by the history runner: apply the change to a scratch checkout
(VERIF_REPO, never /repo itself), run the property's quick check, take the first replay with a failing input (script, metas,
groups - already shrunk by the check) and write it to corpus_new/<property>/<name>.json; undo the change.  The files are then
reviewed and moved to /verif/corpus/<property>/, which every later check of that property runs FIRST (props.corpus_jobs): a change
of the same kind is then found whatever the random seed.  Not a registered check."""
import glob, json, os, subprocess, sys

ROOT = os.path.dirname(os.path.dirname(os.path.abspath(__file__)))
HIST = {"C01", "C02", "C03", "C04", "C05", "C06", "C07", "C08", "C09", "C10", "C12", "C13", "C19", "C20"}
repo = os.environ.get("VERIF_REPO")
if not repo or os.path.realpath(repo) == "/repo":
    sys.exit("set VERIF_REPO to a scratch checkout")
names = sorted(os.listdir(os.path.join(ROOT, "seeded")))
if os.environ.get("VERIF_SWEEP_SHARD"):
    _i, _n = [int(x) for x in os.environ["VERIF_SWEEP_SHARD"].split("/")]
    names = names[_i::_n]
for n in names:
    d = os.path.join(ROOT, "seeded", n)
    meta = json.load(open(os.path.join(d, "meta.json")))
    prop = meta.get("property") or n.split("-")[-1]
    prop = prop if prop.startswith("C") else n.split("-")[-1]
    if prop not in HIST:
        continue
    if subprocess.run(["git", "-C", repo, "apply", os.path.join(d, "patch.diff")]).returncode != 0:
        print("%-8s patch does not apply" % n, flush=True)
        continue
    try:
        for f in glob.glob(os.path.join(ROOT, "replays", prop + "-*.json")):
            os.remove(f)
        r = subprocess.run([os.path.join(ROOT, "check"), prop], capture_output=True, text=True, timeout=3000)
        got = None
        for f in sorted(glob.glob(os.path.join(ROOT, "replays", prop + "-*.json"))):
            j = json.load(open(f))
            if j.get("failing_input") and isinstance(j.get("script"), list) and j["script"] and len(j["script"]) <= 400:
                got = {"script": j["script"], "metas": j.get("metas"), "groups": j.get("groups"),
                       "origin": "seeded/%s: %s" % (n, j.get("what"))}
                break
        if got:
            dst = os.path.join(ROOT, "corpus_new", prop)
            os.makedirs(dst, exist_ok=True)
            json.dump(got, open(os.path.join(dst, n + ".json"), "w"))
        print("%-8s %s exit=%d corpus=%s len=%s" % (n, prop, r.returncode, bool(got), len(got["script"]) if got else "-"), flush=True)
    finally:
        subprocess.run(["git", "-C", repo, "checkout", "--", "."])
