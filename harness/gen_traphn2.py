#!/venv/bin/python
"""Translate the memory-light webentity network request (traph/traph.py: Traph.get_webentities_links_slow(_iter)) from the Python
AST into Gallina: coq/theories/GenTraphN2.v, regenerated on every run.  Same vocabulary as gen_traphn.py (nested graph dict,
block -> webentity dict); a target that is not yet in the dict is read and wound up to its webentity
(windup_lru_for_webentity of GenTraphQ.v) and then remembered; `if x is None:` / `if not x: continue` on optional ids.  The items of
dfs_with_webentity_iter are computed first (the body only reads: see gen_traphq.py)."""
import ast
import os
import sys

sys.path.insert(0, os.path.dirname(os.path.abspath(__file__)))
import gen_links as GL       # noqa: E402
import gen_trie as GT        # noqa: E402
import gen_triew as GW       # noqa: E402
import gen_tried as GD       # noqa: E402
import gen_traphn as GN      # noqa: E402

REPO = os.environ.get("VERIF_REPO", "/repo")
Unsupported = GL.Unsupported


class FnN2(GN.FnN):
    def cond(self, t, env, kt, kf):
        if isinstance(t, ast.Compare) and len(t.ops) == 1 and isinstance(t.ops[0], ast.Is) and isinstance(t.left, ast.Name) \
                and isinstance(t.comparators[0], ast.Constant) and t.comparators[0].value is None and env.get(t.left.id) == "oN":
            n = t.left.id
            return "(match v_%s with\n | None => %s\n | Some v_%s => %s end)" % (n, kt(dict(env)), n, kf(dict(env, **{n: "N"})))
        if isinstance(t, ast.BoolOp) and isinstance(t.op, ast.Or):
            parts = [self.expr(v, env) for v in t.values]
            if all(ty == "bool" for _, ty in parts):
                return "(if (%s)\n then %s\n else %s)" % (" || ".join(a for a, _ in parts), kt(dict(env)), kf(dict(env)))
        return GN.FnN.cond(self, t, env, kt, kf)

    def block(self, stmts, env, k):
        if stmts:
            s, rest = stmts[0], stmts[1:]
            nxt = lambda env2=None: self.block(rest, env if env2 is None else env2, k)          # noqa: E731
            if isinstance(s, ast.Assign) and len(s.targets) == 1 and isinstance(s.targets[0], ast.Name):
                n, v = s.targets[0].id, s.value
                if ast.unparse(v) == "self.lru_trie.node()":
                    return "(let '(v__n, sg) := py_node_init sg None None None in\n let v_%s := v__n in\n %s)" % (n, nxt(dict(env, **{n: "tnode"})))
                if isinstance(v, ast.Call) and ast.unparse(v.func) == "self.lru_trie.windup_lru_for_webentity" and len(v.args) == 1:
                    a, ta = self.expr(v.args[0], env)
                    if ta != "tnode":
                        raise Unsupported("windup_lru_for_webentity of %s" % ta)
                    return "(match py_trie_windup_lru_for_webentity sg %s with\n | None => %s\n | Some (sg, v_%s) => %s end)" % (a, self.fail(), n, nxt(dict(env, **{n: "oN"})))
            if isinstance(s, ast.Expr) and isinstance(s.value, ast.Call) and isinstance(s.value.func, ast.Attribute) and isinstance(s.value.func.value, ast.Name) \
                    and env.get(s.value.func.value.id) == "tnode" and s.value.func.attr == "read" and len(s.value.args) == 1:
                o = s.value.func.value.id
                a, ta = self.expr(s.value.args[0], env)
                return "(let '(v_%s, sg) := py_node_read_o v_%s sg %s in\n %s)" % (o, o, self.coerce(a, ta, "oN"), nxt())
        return GN.FnN.block(self, stmts, env, k)

    def qstate(self, body, env, outer):
        pat, ty, pack = GN.FnN.qstate(self, body, env, outer)
        if "v_target_node" in pat or outer.get("target_node") != "tnode":
            return pat, ty, pack
        reads = any(isinstance(n, ast.Call) and isinstance(n.func, ast.Attribute) and n.func.attr == "read" and isinstance(n.func.value, ast.Name)
                    and n.func.value.id == "target_node" for n in ast.walk(ast.Module(body=list(body), type_ignores=[])))
        if not reads:
            return pat, ty, pack
        base = [] if pat == "sg" else [x.strip() for x in pat.strip("()").split(",")][1:]
        allv = ["sg"] + sorted(set(base + ["v_target_node"]))
        types = ["py_pm"] + [GL.COQT[outer[v[2:]]] for v in allv[1:]]

        def pack2(e2):
            out = ["sg"] + [self.coerce(v, e2[v[2:]], outer[v[2:]]) for v in allv[1:]]
            return "(Some (%s))" % ", ".join(out)
        return "(" + ", ".join(allv) + ")", "(" + " * ".join(types) + ")", pack2


def main(out):
    T, _, TN, LT = GT.build()
    GW.register(T, TN, LT)
    GD.register(T, LT)
    T.out = []
    T.join_calls = False
    T.sigs[("tnode", "has_links")] = {"kind": "pure", "params": [("out", "bool", "true")], "rtype": "bool", "coq": "py_node_has_links"}
    T.sigs[("tnode", "links")] = {"kind": "pure", "params": [("out", "bool", "true")], "rtype": "N", "coq": "py_node_links"}
    p = os.path.join(REPO, "traph", "traph.py")
    tree = ast.parse(open(p).read(), p)
    c = [n for n in tree.body if isinstance(n, ast.ClassDef) and n.name == "Traph"]
    TR = dict((n.name, n) for n in c[0].body if isinstance(n, ast.FunctionDef))
    init_src = ast.unparse(TR["__init__"])
    if "self.lru_trie = LRUTrie(self.lru_trie_storage, encoding=encoding)" not in init_src \
            or "self.link_store = LinkStore(self.links_store_storage)" not in init_src:
        raise Unsupported("Traph.__init__: lru_trie / link_store")
    pi = os.path.join(REPO, "traph", "traph_iterator_state.py")
    ti = [ast.unparse(n) for n in ast.parse(open(pi).read(), pi).body if isinstance(n, (ast.ClassDef, ast.FunctionDef))]
    if len(ti) != 2 or ti[1] != "def run_iterator(iterator):\n    for state in iterator:\n        pass\n    return state.result" \
            or "def finalize(self, result):\n        self.done = True\n        self.result = result\n        return self" not in ti[0]:
        raise Unsupported("traph_iterator_state.py")
    it = TR["get_webentities_links_slow_iter"]
    if [a.arg for a in it.args.args] != ["self", "out", "include_auto"] or [ast.unparse(d) for d in it.args.defaults] != ["True", "False"]:
        raise Unsupported("get_webentities_links_slow_iter signature")
    w = TR["get_webentities_links_slow"]
    if len(w.body) != 1 or ast.unparse(w.body[0]) != "return run_iterator(self.get_webentities_links_slow_iter(out=out, include_auto=include_auto))":
        raise Unsupported("get_webentities_links_slow body")
    f = FnN2(T, it, None, "traph", True, "graph")
    f.returns = ["sg"]
    f.has_sg = True
    f.tnode_storage = "sg"
    f.rcoq = "option (py_pm * py_graph)"
    body = [x for x in it.body if not (isinstance(x, ast.Expr) and isinstance(x.value, ast.Constant))]
    txt = f.block(body, {"out": "bool", "include_auto": "bool"},
                  lambda e2: (_ for _ in ()).throw(Unsupported("get_webentities_links_slow_iter falls off its end")))
    T.out.append("Definition py_traph_get_webentities_links_slow (sg sgl : py_pm) (v_out : bool) (v_include_auto : bool) : option (py_pm * py_graph) :=\n %s." % txt)
    L = ["(* GENERATED by harness/gen_traphn2.py from %s/traph/traph.py -- do not edit *)" % REPO,
         "From Coq Require Import List NArith Bool Arith.", "Import ListNotations.",
         "From Traph Require Import Bytes Consts Layout Codec GenStorage GenNode GenLinks GenTrie GenTrieW GenTrieD GenTraphL GenTraphQ GenTraphN.", ""]
    text = "\n".join(L + T.out) + "\n"
    old = open(out).read() if os.path.exists(out) else None
    if old != text:
        with open(out, "w") as fh:
            fh.write(text)
    return 0


if __name__ == "__main__":
    try:
        sys.exit(main(sys.argv[1]))
    except Unsupported as e:
        print("gen_traphn2: UNSUPPORTED: %s" % e)
        sys.exit(3)
    except (KeyError, AttributeError, IndexError, TypeError) as e:
        print("gen_traphn2: UNSUPPORTED: unexpected source shape (%s: %s)" % (type(e).__name__, e))
        sys.exit(3)
