"""campaign.py — history campaigns: generate, run on both sides, classify mismatches
per property facet, shrink, serialise replays."""
import json
import os
import random
from collections import Counter

import core as C
import gen as G
import impl as I
import session as S

# which query opcodes feed which property (model-vs-implementation facet and oracle alike)
FACET_OPS = {
    "C01": {35, 38},
    "C02": {41, 42, 43, 47},
    "C03": {33, 37, 38, 46, 48},
    "C04": {20, 21, 23, 36},
    "C05": {24, 25},
    "C06": {22, 21},
    "C07": {34},
    "C08": {30, 32},
    "C09": {26, 61, 62},
    "C10": {31},
    "C12": set(),
    "C13": {28, 29},
    "C19": {45, 39, 64, 48},
    "C20": {27},
    "C17": {40},
    "C11": {35, 36, 38, 42, 45, 20, 21, 24, 33, 34, 37, 43, 44, 48},
    "C15": {35, 36, 38, 42, 45, 20, 21, 24, 33, 34, 37, 43, 44, 41, 39, 48},
}


def reply_parts(r):
    """split a write reply into the components different properties care about"""
    if isinstance(r, list) and len(r) == 2 and isinstance(r[1], list):
        return {"kind": "report", "n": r[0], "ids": [w for w, _ in r[1]],
                "created": [C.srt(ps) for _, ps in r[1]]}
    if r is I.REFUSED:
        return {"kind": "refused"}
    if isinstance(r, I.Crash):
        return {"kind": "crash"}
    return {"kind": "ok"}


def mismatch_props(m, cmds):
    """the set of properties a mismatch speaks about"""
    op = m.op
    props = set()
    if op in C.WRITE_OPS:
        a, b = reply_parts(m.got), reply_parts(m.want)
        if a["kind"] != b["kind"]:
            if "crash" in (a["kind"], b["kind"]):
                props |= {"C01", "C04", "C06", "C12"}
            else:
                props |= {"C04"}
        elif a["kind"] == "report":
            if a["n"] != b["n"]:
                props.add("C01")
            if a["created"] != b["created"]:
                props.add("C06")
            if a["ids"] != b["ids"]:
                props.add("C12")
        return props
    for p, ops in FACET_OPS.items():
        if op in ops:
            if op == 38:
                # counts: [pages, crawled, links]
                try:
                    g, w = m.got, m.want
                    if p == "C01" and g[:2] == w[:2]:
                        continue
                    if p == "C03" and g[2] == w[2]:
                        continue
                except Exception:
                    pass
            if op == 21 and p == "C06":
                continue
            props.add(p)
    return props


def ser_cmds(cmds):
    return ["%d %s" % (op, " ".join(I.fmt(a) for a in args)) for op, args in cmds]


def deser_cmds(lines):
    out = []
    for ln in lines:
        toks = ln.split()
        args, i = [], 1
        while i < len(toks):
            v, i = I.parse(toks, i)
            args.append(v)
        out.append((int(toks[0]), args))
    return out


def static_run(cmds, metas=None, groups=None, backend="f"):
    """replay a recorded command list on a fresh index and on the model; returns mismatches"""
    s = S.Session(random.Random(0), backend)
    try:
        for k, (op, args) in enumerate(cmds):
            s.do(op, args, **((metas[k] if metas else None) or {}))
        s.groups = groups or []
        return s, s.finish(bytes_facet=False)
    finally:
        s.close()


def shrink(cmds, metas, groups, prop, signature, budget=60, seconds=45):
    """greedy removal of write requests (and of queries) keeping a mismatch of the same
    kind (same property, same side, same note) alive; bounded in attempts and wall time"""
    import time
    deadline = time.time() + seconds

    def alive(cs, ms, gs):
        if time.time() > deadline:
            return None
        try:
            _, mm = static_run(cs, ms, gs)
        except Exception:
            return None
        for m in mm:
            if prop in mismatch_props(m, cs) and (m.side, m.note) == signature:
                return m
        for m in mm:
            if signature[0] == "spec" and m.side == "spec" and m.note == signature[1]:
                return m
        return None

    # 1. cut after the failing command
    best = alive(cmds, metas, groups)
    if best is None:
        return cmds, metas, groups, None
    keep = list(range(len(cmds)))
    # groups refer to indices: only shrink when there is no group, or drop group-free prefixes
    if groups:
        return cmds, metas, groups, best
    last = best.idx
    keep = [k for k in keep if k <= last]
    # 2. drop queries other than the failing one
    keep = [k for k in keep if cmds[k][0] in C.WRITE_OPS or k == last]
    cur = [cmds[k] for k in keep]
    curm = [metas[k] for k in keep]
    m = alive(cur, curm, [])
    if m is None:
        cut = [k for k in range(len(cmds)) if k <= last]
        return [cmds[k] for k in cut], [metas[k] for k in cut], [], best
    best = m
    # 3. remove writes one at a time, from the end
    i = len(cur) - 2
    while i >= 1 and budget > 0 and time.time() < deadline:
        trial = cur[:i] + cur[i + 1:]
        trialm = curm[:i] + curm[i + 1:]
        budget -= 1
        m = alive(trial, trialm, [])
        if m is not None:
            cur, curm, best = trial, trialm, m
        i -= 1
    return cur, curm, [], best


def history(seed, cfg):
    """one generated history. cfg: dict(nw, mix, focus, depth, backend, weird, observe_p)"""
    rng = random.Random(seed)
    G.WEIRD = cfg.get("weird", 0.15)
    s = S.Session(rng, cfg.get("backend", "f"))
    stats = Counter()
    try:
        rules = []
        if rng.random() < cfg.get("init_rules_p", 0.3):
            for _ in range(rng.randint(1, 2)):
                p = G.gen_lru(rng, weird=0, maxpath=0)
                if p not in [x[0] for x in rules]:
                    rules.append([p, rng.choice([2, 2, 3, 1])])
        s.do(1, [rng.choice([0, 0, 1]), rules])
        focus = cfg.get("focus")
        # dropped requests are drawn from a stream of their own (the main stream of a seed is unchanged by them)
        rng2 = random.Random(seed * 7919 + 13)
        ap = cfg.get("abandon_p", 0.05)
        for i in range(cfg.get("nw", 25)):
            if getattr(s, "dead", False):
                break
            op, args = G.gen_write(rng, s.tr, cfg.get("mix", G.DEFAULT_MIX))
            s.do(op, args)
            if rng2.random() < ap:
                # a writer dropped half-way switches the specification oracle off: only late in the history, except for a
                # rule installation that is re-issued at once
                part = rng2.random() < 0.3
                s.abandon(rng2, partial=(True if i >= cfg.get("nw", 25) - 3 else "rule") if part else False)
            if rng.random() < cfg.get("observe_p", 0.15):
                # a sweep in the middle of the history: mostly cheap, sometimes the full per-webentity sweep
                # (stale caches and stale node copies only show when queries and writes alternate)
                s.observe(1 if rng.random() < cfg.get("mid_deep_p", 0.4) else cfg.get("mid_depth", 0), focus)
        s.observe(cfg.get("depth", 1), focus)
        for fn in cfg.get("extra", []):
            fn(s, rng)
        mm = s.finish(bytes_facet=cfg.get("bytes", True))
        for (op, args), a in zip(s.cmds, s.ians):
            stats["op%d" % op] += 1
            if op in C.WRITE_OPS:
                stats["reply_" + reply_parts(a)["kind"]] += 1
                if reply_parts(a).get("created"):
                    stats["reply_with_creation"] += 1
            elif a is I.REFUSED:
                stats["query_refused"] += 1
            elif isinstance(a, I.Crash):
                stats["query_crash"] += 1
        longest = 0
        for l in s.tr.lrus:
            for st in l.split(b"|"):
                longest = max(longest, len(st) + 1)
        stats["hist_with_multiblock_stem"] += 1 if longest > 74 else 0
        for note in getattr(s, "notes", []):
            stats["scenario_" + note] += 1
        res = {"seed": seed, "ncmds": len(s.cmds), "stats": dict(stats), "mismatches": []}
        for m in mm:
            j = m.to_json()
            j["props"] = sorted(mismatch_props(m, s.cmds))
            res["mismatches"].append(j)
        if mm:
            res["script"] = ser_cmds(s.cmds)
            res["metas"] = s.meta
            res["groups"] = s.groups
        else:
            k = min(len(s.cmds), 12)
            res["sample"] = ser_cmds(s.cmds[:k])
        res["digest"] = hash(tuple(ser_cmds([c for c in s.cmds if c[0] in C.WRITE_OPS]))) & 0xFFFFFFFF
        res["nontrivial"] = sum(1 for c in s.cmds if c[0] in C.WRITE_OPS) >= 5
        return res
    finally:
        s.close()
