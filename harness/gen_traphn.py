#!/venv/bin/python
"""Translate the webentity network request of the public API (traph/traph.py: Traph.get_webentities_links(_iter) - the fast
variant - and traph/lru_trie/lru_trie.py: LRUTrie.dfs_with_webentity_iter) from the Python AST into Gallina:
coq/theories/GenTraphN.v, regenerated on every run.  Built on the translated node navigation (GenTrie.v), the has_links /
links accessors and the weighted link traversal (GenLinks.v).
  * dfs_with_webentity_iter: the explicit stack holds (block, inherited webentity) pairs; items are (node object, current
    webentity : optional id).
  * `graph = defaultdict(Counter)` has integer keys (webentity ids) on its first level and, on its second level, integer keys
    (target webentities) AND the two strings "pages_crawled" / "pages_uncrawled": it is the nested association list
    py_graph : list (N * list (py_gkey * N)) with py_gkey := GKPagesCrawled | GKPagesUncrawled | GKWe id, both levels in insertion
    order; `graph[a][k] += v` is py_graph_incr (creates the missing levels, like defaultdict / Counter).  The two statements
        crawled_status = "crawled" if node.is_crawled() else "uncrawled"
        graph[source_webentity]["pages_" + crawled_status] += 1
    are recognised textually.
  * `page_to_webentity = dict()` (block -> webentity) is an association list; `.get(k)` returns None for a missing key;
    `if not x: continue` on an optional id skips None and 0.
  * generator requests get their sequential meaning (see gen_traph.py): the known finding F10 is about this request
    INTERLEAVED with writers and is not visible here."""
import ast
import os
import sys

sys.path.insert(0, os.path.dirname(os.path.abspath(__file__)))
import gen_links as GL       # noqa: E402
import gen_trie as GT        # noqa: E402
import gen_triew as GW       # noqa: E402
import gen_tried as GD       # noqa: E402
import gen_traphq as GQ      # noqa: E402

REPO = os.environ.get("VERIF_REPO", "/repo")
Unsupported = GL.Unsupported

GL.COQT.update({"stackW": "list (option N * option N)", "pair:tnode:oN": "(py_node * option N)", "graph": "py_graph",
                "bwmap": "list (option N * N)", "ptrs": "list (N * N)"})

PREAMBLE = r"""Inductive py_gkey := GKPagesCrawled | GKPagesUncrawled | GKWe (w : N).
Definition py_gkey_eqb (a b : py_gkey) : bool :=
  match a, b with
  | GKPagesCrawled, GKPagesCrawled => true
  | GKPagesUncrawled, GKPagesUncrawled => true
  | GKWe x, GKWe y => N.eqb x y
  | _, _ => false
  end.
Definition py_graph := list (N * list (py_gkey * N)).
(* Counter: c[k] += v *)
Fixpoint py_gcounter_incr (k : py_gkey) (v : N) (c : list (py_gkey * N)) : list (py_gkey * N) :=
  match c with
  | [] => [(k, v)]
  | (k', n) :: c' => if py_gkey_eqb k k' then (k', N.add n v) :: c' else (k', n) :: py_gcounter_incr k v c'
  end.
(* defaultdict(Counter): g[a][k] += v *)
Fixpoint py_graph_incr (a : N) (k : py_gkey) (v : N) (g : py_graph) : py_graph :=
  match g with
  | [] => [(a, [(k, v)])]
  | (a', c) :: g' => if N.eqb a a' then (a', py_gcounter_incr k v c) :: g' else (a', c) :: py_graph_incr a k v g'
  end.
(* dict with block keys: d[k] = v, d.get(k) *)
Fixpoint py_bw_set (k : option N) (v : N) (d : list (option N * N)) : list (option N * N) :=
  match d with
  | [] => [(k, v)]
  | (k', v') :: d' => if oN_eqb k k' then (k', v) :: d' else (k', v') :: py_bw_set k v d'
  end.
Fixpoint py_bw_get (k : option N) (d : list (option N * N)) : option N :=
  match d with
  | [] => None
  | (k', v) :: d' => if oN_eqb k k' then Some v else py_bw_get k d'
  end.
"""

PAGES_STMTS = ["crawled_status = 'crawled' if node.is_crawled() else 'uncrawled'", "graph[source_webentity]['pages_' + crawled_status] += 1"]


class FnN(GQ.FnQ):
    def expr(self, e, env):
        if isinstance(e, ast.Tuple) and len(e.elts) == 2:
            parts = []
            for x in e.elts:
                if isinstance(x, ast.Constant) and x.value is None:
                    parts.append(("None", "oN"))
                else:
                    a, ta = self.expr(x, env)
                    parts.append((self.coerce(a, ta, "oN"), "oN") if ta in ("N", "oN") else (a, ta))
            if [t for _, t in parts] == ["oN", "oN"] and self.want_stack:
                return "(%s, %s)" % (parts[0][0], parts[1][0]), "pair:oN:oN"
        if isinstance(e, ast.Call) and isinstance(e.func, ast.Name) and e.func.id == "len" and len(e.args) == 1 \
                and isinstance(e.args[0], ast.Name) and env.get(e.args[0].id) == "stackW":
            return "(N.of_nat (length v_%s))" % e.args[0].id, "N"
        if isinstance(e, ast.Compare) and len(e.ops) == 1 and isinstance(e.ops[0], ast.Eq):
            a, ta = self.expr(e.left, env)
            b, tb = self.expr(e.comparators[0], env)
            if ta == "N" and tb == "N":
                return "(N.eqb %s %s)" % (a, b), "bool"
        return GQ.FnQ.expr(self, e, env)

    want_stack = False

    def cond(self, t, env, kt, kf):
        if isinstance(t, ast.UnaryOp) and isinstance(t.op, ast.Not) and isinstance(t.operand, ast.Name) and env.get(t.operand.id) == "oN":
            n = t.operand.id      # not x on an optional id: None or 0
            return "(match v_%s with\n | None => %s\n | Some v_%s => (if (N.eqb v_%s 0%%N)\n then %s\n else %s) end)" % (
                n, kt(dict(env)), n, n, kt(dict(env)), kf(dict(env, **{n: "N"})))
        return GQ.FnQ.cond(self, t, env, kt, kf)

    def block(self, stmts, env, k):
        if stmts:
            s, rest = stmts[0], stmts[1:]
            nxt = lambda env2=None: self.block(rest, env if env2 is None else env2, k)          # noqa: E731
            if [ast.unparse(x) for x in stmts[:2]] == PAGES_STMTS and env.get("graph") == "graph" and env.get("source_webentity") == "N":
                return ("(let v_graph := py_graph_incr v_source_webentity (if (py_node_is_crawled v_node) then GKPagesCrawled else GKPagesUncrawled) 1%%N v_graph in\n %s)"
                        % self.block(stmts[2:], env, k))
            if isinstance(s, ast.Assign) and len(s.targets) == 1 and isinstance(s.targets[0], ast.Name):
                n, v = s.targets[0].id, s.value
                if ast.unparse(v) == "defaultdict(Counter)":
                    return "(let v_%s := (@nil (N * list (py_gkey * N))) in\n %s)" % (n, nxt(dict(env, **{n: "graph"})))
                if ast.unparse(v) == "dict()":
                    return "(let v_%s := (@nil (option N * N)) in\n %s)" % (n, nxt(dict(env, **{n: "bwmap"})))
                if isinstance(v, ast.List) and not v.elts and self.decl.get(n) == "ptrs":
                    return "(let v_%s := (@nil (N * N)) in\n %s)" % (n, nxt(dict(env, **{n: "ptrs"})))
                if isinstance(v, ast.List) and len(v.elts) == 1 and isinstance(v.elts[0], ast.Tuple) and self.decl.get(n) == "stackW":
                    self.want_stack = True
                    a, ta = self.expr(v.elts[0], env)
                    self.want_stack = False
                    if ta != "pair:oN:oN":
                        raise Unsupported("stack entry %s" % ta)
                    return "(let v_%s := [%s] in\n %s)" % (n, a, nxt(dict(env, **{n: "stackW"})))
                if isinstance(v, ast.Call) and isinstance(v.func, ast.Attribute) and v.func.attr == "get" and isinstance(v.func.value, ast.Name) \
                        and env.get(v.func.value.id) == "bwmap" and len(v.args) == 1:
                    a, ta = self.expr(v.args[0], env)
                    return "(let v_%s := py_bw_get %s v_%s in\n %s)" % (n, self.coerce(a, ta, "oN"), v.func.value.id, nxt(dict(env, **{n: "oN"})))
                if ast.unparse(v) == "self.root().block":
                    return "(let '(v__n, sg) := py_node_init sg None (Some py_first_data_block) None in\n let v_%s := (nd_block v__n) in\n %s)" % (
                        n, nxt(dict(env, **{n: "oN"})))
            if isinstance(s, ast.Assign) and len(s.targets) == 1 and isinstance(s.targets[0], ast.Tuple) and isinstance(s.value, ast.Call) \
                    and isinstance(s.value.func, ast.Attribute) and s.value.func.attr == "pop" and isinstance(s.value.func.value, ast.Name) \
                    and env.get(s.value.func.value.id) == "stackW":
                st = s.value.func.value.id
                a, b = [x.id for x in s.targets[0].elts]
                return "(match py_pop v_%s with\n | None => %s\n | Some ((v_%s, v_%s), v_%s) => %s end)" % (
                    st, self.fail(), a, b, st, nxt(dict(env, **{a: "oN", b: "oN"})))
            if isinstance(s, ast.Assign) and len(s.targets) == 1 and isinstance(s.targets[0], ast.Subscript) \
                    and isinstance(s.targets[0].value, ast.Name) and env.get(s.targets[0].value.id) == "bwmap":
                kx, tk = self.expr(s.targets[0].slice, env)
                a, ta = self.expr(s.value, env)
                if ta != "N":
                    raise Unsupported("page_to_webentity value %s" % ta)
                d = s.targets[0].value.id
                return "(let v_%s := py_bw_set %s %s v_%s in\n %s)" % (d, self.coerce(kx, tk, "oN"), a, d, nxt())
            if isinstance(s, ast.AugAssign) and isinstance(s.op, ast.Add) and isinstance(s.target, ast.Subscript) \
                    and isinstance(s.target.value, ast.Subscript) and isinstance(s.target.value.value, ast.Name) \
                    and env.get(s.target.value.value.id) == "graph":
                a, ta = self.expr(s.target.value.slice, env)
                b, tb = self.expr(s.target.slice, env)
                v, tv = self.expr(s.value, env)
                if (ta, tb, tv) != ("N", "N", "N"):
                    raise Unsupported("graph[%s][%s] += %s" % (ta, tb, tv))
                g = s.target.value.value.id
                return "(let v_%s := py_graph_incr %s (GKWe %s) %s v_%s in\n %s)" % (g, a, b, v, g, nxt())
            if isinstance(s, ast.Expr) and isinstance(s.value, ast.Call) and isinstance(s.value.func, ast.Attribute) and s.value.func.attr == "append" \
                    and isinstance(s.value.func.value, ast.Name):
                d = s.value.func.value.id
                if env.get(d) == "stackW":
                    self.want_stack = True
                    a, ta = self.expr(s.value.args[0], env)
                    self.want_stack = False
                    if ta != "pair:oN:oN":
                        raise Unsupported("push of %s" % ta)
                    return "(let v_%s := v_%s ++ [%s] in\n %s)" % (d, d, a, nxt())
                if env.get(d) == "ptrs" and isinstance(s.value.args[0], ast.Tuple) and len(s.value.args[0].elts) == 2:
                    (a, ta), (b, tb) = [self.expr(x, env) for x in s.value.args[0].elts]
                    if (ta, tb) != ("N", "N"):
                        raise Unsupported("link pointer (%s, %s)" % (ta, tb))
                    return "(let v_%s := v_%s ++ [(%s, %s)] in\n %s)" % (d, d, a, b, nxt())
            if isinstance(s, ast.Expr) and isinstance(s.value, ast.Yield) and isinstance(s.value.value, ast.Tuple) and self.gen == "pair:tnode:oN":
                (a, ta), (b, tb) = [self.expr(x, env) for x in s.value.value.elts]
                if ta != "tnode" or tb not in ("oN", "N"):
                    raise Unsupported("yield of (%s, %s)" % (ta, tb))
                return "(let v__out := v__out ++ [(%s, %s)] in\n %s)" % (a, self.coerce(b, tb, "oN"), nxt())
            if isinstance(s, ast.If) and not s.orelse and len(s.body) == 1 and isinstance(s.body[0], ast.Expr) \
                    and isinstance(s.body[0].value, ast.Call) and isinstance(s.body[0].value.func, ast.Attribute) \
                    and s.body[0].value.func.attr == "append" and isinstance(s.body[0].value.func.value, ast.Name) \
                    and env.get(s.body[0].value.func.value.id) in ("stackW", "ptrs"):
                d = s.body[0].value.func.value.id
                c, tc = self.expr(s.test, env)
                body = self.block(list(s.body), dict(env), lambda e2: "v_%s" % d)
                return "(let v_%s := (if %s\n then %s\n else v_%s) in\n %s)" % (d, c, body, d, nxt())
            if isinstance(s, ast.If) and not s.orelse and len(s.body) == 1 and isinstance(s.body[0], ast.Assign) \
                    and isinstance(s.body[0].targets[0], ast.Name) and env.get(s.body[0].targets[0].id) == "oN":
                # if node.has_webentity(): current_webentity = node.webentity()   (joined)
                n = s.body[0].targets[0].id
                c, tc = self.expr(s.test, env)
                a, ta = self.expr(s.body[0].value, env)
                return "(let v_%s := (if %s then %s else v_%s) in\n %s)" % (n, c, self.coerce(a, ta, "oN"), n, nxt())
        return GQ.FnQ.block(self, stmts, env, k)

    def qstate(self, body, env, outer):
        pat, ty, pack = GQ.FnQ.qstate(self, body, env, outer)
        names = []
        for n in ast.walk(ast.Module(body=list(body), type_ignores=[])):
            if isinstance(n, ast.AugAssign) and isinstance(n.target, ast.Subscript):
                x = n.target
                while isinstance(x, ast.Subscript):
                    x = x.value
                if isinstance(x, ast.Name):
                    names.append(x.id)
            if isinstance(n, ast.Assign) and isinstance(n.targets[0], ast.Subscript) and isinstance(n.targets[0].value, ast.Name):
                names.append(n.targets[0].value.id)
            if isinstance(n, ast.Call) and isinstance(n.func, ast.Attribute) and n.func.attr == "append" and isinstance(n.func.value, ast.Name):
                names.append(n.func.value.id)
        names = sorted(set(x for x in names if outer.get(x) in ("graph", "bwmap", "ptrs")))
        base = [] if pat == "sg" else [x.strip() for x in pat.strip("()").split(",")][1:]
        allv = ["sg"] + sorted(set(base + ["v_%s" % x for x in names]))
        types = ["py_pm"] + [GL.COQT[outer[v[2:]]] for v in allv[1:]]
        pat2 = "(" + ", ".join(allv) + ")" if len(allv) > 1 else "sg"
        ty2 = "(" + " * ".join(types) + ")" if len(types) > 1 else "py_pm"

        def pack2(e2):
            out = ["sg"] + [self.coerce(v, e2[v[2:]], outer[v[2:]]) for v in allv[1:]]
            return "(Some %s)" % ("(" + ", ".join(out) + ")" if len(out) > 1 else "sg")
        return pat2, ty2, pack2

    def forloop(self, s, env, nxt):
        it = s.iter
        if isinstance(it, ast.Call) and ast.unparse(it.func) == "self.lru_trie.dfs_with_webentity_iter" and not it.args and not it.keywords \
                and isinstance(s.target, ast.Tuple) and len(s.target.elts) == 2 and not s.orelse:
            a, b = [x.id for x in s.target.elts]
            inner = self.fold("v__items", "(py_node * option N)", "let '(v_%s, v_%s) := v__it in" % (a, b), s,
                              dict(env, **{a: "tnode", b: "oN"}), env, nxt)
            return "(match py_trie_dfs_with_webentity_iter sg with\n | None => %s\n | Some (v__items, sg) => %s end)" % (self.fail(), inner)
        if isinstance(it, ast.Name) and env.get(it.id) == "ptrs" and isinstance(s.target, ast.Tuple) and len(s.target.elts) == 2 and not s.orelse:
            a, b = [x.id for x in s.target.elts]
            return self.fold("v_%s" % it.id, "(N * N)", "let '(v_%s, v_%s) := v__it in" % (a, b), s, dict(env, **{a: "N", b: "N"}), env, nxt)
        return GQ.FnQ.forloop(self, s, env, nxt)

    def loop(self, s, env, nxt):
        # the traversal loop of dfs_with_webentity_iter: the plain fuel loop of gen_tried.py
        return GD.FnD.loop(self, s, env, nxt)

    def mutated(self, body, env):
        names = set(GQ.FnQ.mutated(self, body, env))
        for n in ast.walk(ast.Module(body=list(body), type_ignores=[])):
            if isinstance(n, ast.Call) and isinstance(n.func, ast.Attribute) and isinstance(n.func.value, ast.Name) \
                    and env.get(n.func.value.id) == "stackW":
                names.add(n.func.value.id)
        return sorted(names)


def main(out):
    T, _, TN, LT = GT.build()
    GW.register(T, TN, LT)
    GD.register(T, LT)
    T.out = []
    T.join_calls = False
    # has_links / links with their `out` parameter: defined in GenLinks.v
    T.sigs[("tnode", "has_links")] = {"kind": "pure", "params": [("out", "bool", "true")], "rtype": "bool", "coq": "py_node_has_links"}
    T.sigs[("tnode", "links")] = {"kind": "pure", "params": [("out", "bool", "true")], "rtype": "N", "coq": "py_node_links"}
    # ---- dfs_with_webentity_iter ----
    fn = LT["dfs_with_webentity_iter"]
    if [a.arg for a in fn.args.args] != ["self"]:
        raise Unsupported("dfs_with_webentity_iter signature")
    f = FnN(T, fn, None, "tstore", True, None, gen="pair:tnode:oN", decl={"stack": "stackW", "current_webentity": "oN"})
    f.returns = []
    f.has_sg = True
    f.gen_sg = True
    body = f.block(list(fn.body), {}, lambda e2: "(Some (v__out, sg))")
    T.out.append("Definition py_trie_dfs_with_webentity_iter (sg : py_pm) : option (list (py_node * option N) * py_pm) :=\n"
                 " (let v__out := (@nil (py_node * option N)) in\n %s)." % body)
    # ---- Traph ----
    p = os.path.join(REPO, "traph", "traph.py")
    tree = ast.parse(open(p).read(), p)
    c = [n for n in tree.body if isinstance(n, ast.ClassDef) and n.name == "Traph"]
    TR = dict((n.name, n) for n in c[0].body if isinstance(n, ast.FunctionDef))
    init_src = ast.unparse(TR["__init__"])
    if "self.lru_trie = LRUTrie(self.lru_trie_storage, encoding=encoding)" not in init_src \
            or "self.link_store = LinkStore(self.links_store_storage)" not in init_src:
        raise Unsupported("Traph.__init__: lru_trie / link_store")
    pi = os.path.join(REPO, "traph", "traph_iterator_state.py")
    ti = [ast.unparse(n) for n in ast.parse(open(pi).read(), pi).body if isinstance(n, (ast.ClassDef, ast.FunctionDef))]
    if len(ti) != 2 or ti[1] != "def run_iterator(iterator):\n    for state in iterator:\n        pass\n    return state.result" \
            or "def finalize(self, result):\n        self.done = True\n        self.result = result\n        return self" not in ti[0]:
        raise Unsupported("traph_iterator_state.py")
    it = TR["get_webentities_links_iter"]
    if [a.arg for a in it.args.args] != ["self", "out", "include_auto"] or [ast.unparse(d) for d in it.args.defaults] != ["True", "False"]:
        raise Unsupported("get_webentities_links_iter signature")
    w = TR["get_webentities_links"]
    if len(w.body) != 1 or ast.unparse(w.body[0]) != "return run_iterator(self.get_webentities_links_iter(out=out, include_auto=include_auto))" \
            or [ast.unparse(d) for d in w.args.defaults] != ["True", "False"]:
        raise Unsupported("get_webentities_links body")
    f = FnN(T, it, None, "traph", True, "graph", decl={"link_pointers": "ptrs"})
    f.returns = ["sg"]
    f.has_sg = True
    f.tnode_storage = "sg"
    f.rcoq = "option (py_pm * py_graph)"
    body = f.block(list(it.body), {"out": "bool", "include_auto": "bool"},
                   lambda e2: (_ for _ in ()).throw(Unsupported("get_webentities_links_iter falls off its end")))
    T.out.append("Definition py_traph_get_webentities_links (sg sgl : py_pm) (v_out : bool) (v_include_auto : bool) : option (py_pm * py_graph) :=\n %s." % body)
    L = ["(* GENERATED by harness/gen_traphn.py from %s/traph/traph.py, lru_trie/lru_trie.py -- do not edit *)" % REPO,
         "From Coq Require Import List NArith Bool Arith.", "Import ListNotations.",
         "From Traph Require Import Bytes Consts Layout Codec GenStorage GenNode GenLinks GenTrie GenTrieW GenTrieD.", "", PREAMBLE]
    text = "\n".join(L + T.out) + "\n"
    old = open(out).read() if os.path.exists(out) else None
    if old != text:
        with open(out, "w") as fh:
            fh.write(text)
    return 0


if __name__ == "__main__":
    try:
        sys.exit(main(sys.argv[1]))
    except Unsupported as e:
        print("gen_traphn: UNSUPPORTED: %s" % e)
        sys.exit(3)
    except (KeyError, AttributeError, IndexError, TypeError) as e:
        print("gen_traphn: UNSUPPORTED: unexpected source shape (%s: %s)" % (type(e).__name__, e))
        sys.exit(3)
