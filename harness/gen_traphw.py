#!/venv/bin/python
"""Translate the explicit creation of a webentity (traph/traph.py: Traph.create_webentity, __add_prefixes,
__generated_web_entity_id; traph/lru_trie/header.py: LRUTrieHeader.pack, write, last_webentity_id,
increment_last_webentity_id; traph/lru_trie/node.py: LRUTrieNode.refresh, set_webentity) from the Python AST into Gallina:
coq/theories/GenTraphW.v, regenerated on every run.  Built on the translated LRUTrie.add_lru (GenTrieW.v).
  * The header object lives in RAM (`self.lru_trie.header`): it is the record py_thdr (its `data` list), threaded through
    the functions next to the trie storage `sg`; `header = self.lru_trie.header` makes `header` a second name of that object.
  * `valid_prefixes_index = {}` is an association list in insertion order; `d.update({k: [a, b]})` replaces the value of an
    existing key IN PLACE and appends a new key (py_dict_update) - what a Python dict does; `d.items()` / `d.keys()` follow
    that order.
  * `raise TraphException(..)` (some prefix is attached already): the function returns None; nothing is said about the
    storage then (the walk has already inserted the prefixes' LRUs: see the model's add_prefixes).
  * `prefixes = [self.__encode(prefix) for prefix in prefixes]` is the identity on byte strings (Traph.__encode is checked
    textually, see gen_traph.py).
  * the write report of create_webentity is reduced to the one entry it receives:
    `report.created_webentities[webentity_id] = valid_prefixes` (TraphWriteReport() starts empty: checked textually).
GenTraphWFacts.v proves that on the trie file and header of every reachable state the translated create_webentity returns the
model's reply and leaves the storage holding the model's next state, header counter included (C12, C04)."""
import ast
import os
import sys

sys.path.insert(0, os.path.dirname(os.path.abspath(__file__)))
import gen_links as GL       # noqa: E402
import gen_trie as GT        # noqa: E402
import gen_triew as GW       # noqa: E402
import gen_tried as GD       # noqa: E402
import gen_traph as GA       # noqa: E402

REPO = os.environ.get("VERIF_REPO", "/repo")
Unsupported = GL.Unsupported

GL.CONSTS.update({"LRU_TRIE_HEADER_FORMAT": ("header_format", "fmt"), "LRU_TRIE_HEADER_LAST_WEBENTITY_ID": ("hpos_last_we", "pos"),
                  "LRU_TRIE_NODE_WEBENTITY": ("pos_we", "pos")})
GL.COQT.update({"thdr": "py_thdr", "pdict": "list (bytes * (py_node * py_hist))", "ndict": "list (bytes * option py_node)"})
GL.ATTRS["thdr"] = ("th", {"data": "fvals"})

PREAMBLE = r"""(* LRUTrieHeader: the RAM copy of the header block *)
Record py_thdr := mk_th { th_data : list fval }.
Definition th_set_data (v : list fval) (h : py_thdr) := mk_th v.
(* dict.update({k: v}) on a dict kept as an association list in insertion order *)
Fixpoint py_dict_update {V : Type} (k : bytes) (v : V) (d : list (bytes * V)) : list (bytes * V) :=
  match d with
  | [] => [(k, v)]
  | (k', v') :: d' => if beq k k' then (k', v) :: d' else (k', v') :: py_dict_update k v d'
  end.
"""


class FnW(GA.FnT):
    """self.recv_type "traph": the RAM header object is the Coq variable hd, the trie storage sg"""
    alias = None

    def recv_of(self, name, env):
        if self.alias and name in self.alias:
            return self.alias[name], "thdr"
        return "v_%s" % name, env.get(name)

    def expr(self, e, env):
        if isinstance(e, ast.Call) and isinstance(e.func, ast.Attribute) and isinstance(e.func.value, ast.Name) \
                and self.alias and e.func.value.id in self.alias:
            sig = self.tr.sigs.get(("thdr", e.func.attr))
            if sig and sig["kind"] == "pure" and not e.args and not e.keywords:
                return "(%s %s)" % (sig["coq"], self.alias[e.func.value.id]), sig["rtype"]
        if isinstance(e, ast.Call) and isinstance(e.func, ast.Name) and e.func.id == "list" and len(e.args) == 1 \
                and isinstance(e.args[0], ast.Call) and isinstance(e.args[0].func, ast.Attribute) and e.args[0].func.attr == "keys" \
                and isinstance(e.args[0].func.value, ast.Name) and env.get(e.args[0].func.value.id) == "pdict":
            return "(map fst v_%s)" % e.args[0].func.value.id, "listB"
        if isinstance(e, ast.List) and not e.elts:
            return "(@nil bytes)", "listB"
        if isinstance(e, ast.Call) and isinstance(e.func, ast.Name) and e.func.id == "len" and len(e.args) == 1 \
                and isinstance(e.args[0], ast.Name) and env.get(e.args[0].id) == "listB":
            return "(N.of_nat (length v_%s))" % e.args[0].id, "N"
        if isinstance(e, ast.UnaryOp) and isinstance(e.op, ast.Not) and isinstance(e.operand, ast.Name) and env.get(e.operand.id) == "N":
            return "(N.eqb v_%s 0%%N)" % e.operand.id, "bool"          # an id given as False or 0
        if isinstance(e, ast.Compare) and len(e.ops) == 1 and isinstance(e.ops[0], (ast.Eq, ast.NotEq)):
            a, ta = self.expr(e.left, env)
            b, tb = self.expr(e.comparators[0], env)
            if ta == "oN" and tb == "N":
                t = "(oN_eqb %s (Some %s))" % (a, b)
                return (t if isinstance(e.ops[0], ast.Eq) else "(negb %s)" % t), "bool"
        if isinstance(e, ast.BoolOp) and isinstance(e.op, ast.Or):
            parts = [self.expr(v, env) for v in e.values]
            if all(t == "bool" for _, t in parts):
                return "(" + " || ".join(a for a, _ in parts) + ")", "bool"
        return GA.FnT.expr(self, e, env)

    def cond(self, t, env, kt, kf):
        if isinstance(t, ast.UnaryOp) and isinstance(t.op, ast.Not) and isinstance(t.operand, ast.Name) and env.get(t.operand.id) == "obytes":
            n = t.operand.id      # not data: None or empty
            return "(match v_%s with\n | None => %s\n | Some v_%s => (if (py_nonempty v_%s) then %s else %s) end)" % (
                n, kt(dict(env)), n, n, kf(dict(env, **{n: "bytes"})), kt(dict(env)))
        return GA.FnT.cond(self, t, env, kt, kf)

    def is_pure_call(self, c, env):
        if isinstance(c.func, ast.Name) and c.func.id == "list":
            return True
        return GA.FnT.is_pure_call(self, c, env)

    def block(self, stmts, env, k):
        if stmts:
            s, rest = stmts[0], stmts[1:]
            nxt = lambda env2=None: self.block(rest, env if env2 is None else env2, k)          # noqa: E731
            if isinstance(s, ast.Assign) and len(s.targets) == 1 and isinstance(s.targets[0], ast.Name):
                n, v = s.targets[0].id, s.value
                if ast.unparse(v) == "self.lru_trie.header":
                    self.alias = dict(self.alias or {}, **{n: "hd"})
                    return nxt()
                if isinstance(v, ast.Dict) and not v.keys and self.decl.get(n) == "pdict":
                    return "(let v_%s := (@nil (bytes * (py_node * py_hist))) in\n %s)" % (n, nxt(dict(env, **{n: "pdict"})))
                if isinstance(v, ast.Dict) and not v.keys and self.decl.get(n) == "ndict":
                    return "(let v_%s := (@nil (bytes * option py_node)) in\n %s)" % (n, nxt(dict(env, **{n: "ndict"})))
                if isinstance(v, ast.ListComp) and env.get(n) == "listB" and len(v.generators) == 1 \
                        and isinstance(v.generators[0].target, ast.Name) and ast.unparse(v.generators[0].iter) == n \
                        and not v.generators[0].ifs and ast.unparse(v.elt) == "self.__encode(%s)" % v.generators[0].target.id:
                    return nxt()            # [self.__encode(x) for x in xs]: the identity on byte strings
                if isinstance(v, ast.List) and not v.elts and self.decl.get(n) == "listB":
                    return "(let v_%s := (@nil bytes) in\n %s)" % (n, nxt(dict(env, **{n: "listB"})))
                if ast.unparse(v) == "[self.__encode(prefix) for prefix in %s]" % n and env.get(n) == "listB":
                    return nxt()            # the identity on byte strings
                if ast.unparse(v) == "TraphWriteReport()":
                    return nxt(dict(env, **{n: "report"}))
                if isinstance(v, ast.Call) and ast.unparse(v.func) == "self.__generated_web_entity_id" and not v.args and not v.keywords:
                    return "(match py_traph_generated_web_entity_id hd sg with\n | None => %s\n | Some (hd, sg, v_%s) => %s end)" % (
                        self.fail(), n, nxt(dict(env, **{n: "N"})))
            if isinstance(s, ast.If) and isinstance(s.test, ast.Call) and isinstance(s.test.func, ast.Attribute) \
                    and ast.unparse(s.test.func.value) == "self" and ("traph", s.test.func.attr) in self.tr.sigs and not s.orelse:
                # if self.<translated request returning a truth value>(..): ...
                call = self.wcall(s.test, env)
                return "(match %s with\n | None => %s\n | Some (hd, sg, v__b) => (if v__b\n then %s\n else %s) end)" % (
                    call, self.fail(), self.block(list(s.body) + rest, env, k), self.block(rest, env, k))
            if isinstance(s, ast.Return) and isinstance(s.value, ast.Call) and isinstance(s.value.func, ast.Attribute) \
                    and ast.unparse(s.value.func.value) == "self" and ("traph", s.value.func.attr) in self.tr.sigs:
                call = self.wcall(s.value, env)
                return "(match %s with\n | None => %s\n | Some (hd, sg, v__b) => %s end)" % (call, self.fail(), self.ret("v__b", env))
            if isinstance(s, ast.For) and isinstance(s.iter, ast.Call) and isinstance(s.iter.func, ast.Attribute) and s.iter.func.attr == "items" \
                    and isinstance(s.iter.func.value, ast.Name) and env.get(s.iter.func.value.id) == "ndict" and not s.orelse:
                # for prefix, node in d.items(): <writes through node>   (a None value raises at its first method call)
                tg = s.target
                if not (isinstance(tg, ast.Tuple) and len(tg.elts) == 2 and all(isinstance(x, ast.Name) for x in tg.elts)):
                    raise Unsupported("target of the loop over the dict")
                k_, n_ = tg.elts[0].id, tg.elts[1].id
                for x in ast.walk(ast.Module(body=list(s.body), type_ignores=[])):
                    if isinstance(x, (ast.Assign, ast.AugAssign, ast.Return, ast.Break, ast.Continue, ast.For, ast.While, ast.If)):
                        raise Unsupported("body of the loop over the dict")
                if not (s.body and isinstance(s.body[0], ast.Expr) and isinstance(s.body[0].value, ast.Call)
                        and isinstance(s.body[0].value.func, ast.Attribute) and ast.unparse(s.body[0].value.func.value) == n_):
                    raise Unsupported("first statement of the loop over the dict")
                env1 = dict(env, **{k_: "bytes", n_: "tnode"})
                saved = self.loop_k
                self.loop_k = True
                body = self.block(list(s.body), env1, lambda e2: "(Some sg)")
                self.loop_k = saved
                return ("(match fold_left (fun (st : option py_pm) (v__it : (bytes * option py_node)) =>\n match st with\n | None => None\n"
                        " | Some sg => (let '(v_%s, v__n) := v__it in\n match v__n with\n | None => None\n | Some v_%s => %s end) end)\n"
                        " v_%s (Some sg) with\n | None => %s\n | Some sg => %s end)"
                        % (k_, n_, body, s.iter.func.value.id, self.fail(), nxt()))
            if isinstance(s, ast.Assign) and len(s.targets) == 1 and isinstance(s.targets[0], ast.Tuple) and isinstance(s.value, ast.Call) \
                    and ast.unparse(s.value.func) == "self.__add_prefixes":
                a = [x.id for x in s.targets[0].elts]
                c = s.value
                if len(a) != 2 or len(c.args) != 1 or [kw.arg for kw in c.keywords] != ["use_best_case"]:
                    raise Unsupported("call of __add_prefixes")
                p, tp = self.expr(c.args[0], env)
                b, tb = self.expr(c.keywords[0].value, env)
                if (tp, tb) != ("listB", "bool"):
                    raise Unsupported("arguments of __add_prefixes")
                return "(match py_traph_add_prefixes hd sg %s %s with\n | None => %s\n | Some (hd, sg, (v_%s, v_%s)) => %s end)" % (
                    p, b, self.fail(), a[0], a[1], nxt(dict(env, **{a[0]: "oN", a[1]: "listB"})))
            if isinstance(s, ast.Assign) and ast.unparse(s.targets[0]) == "report.created_webentities[webentity_id]" \
                    and env.get("report") == "report" and isinstance(s.value, ast.Name):
                return nxt(dict(env, **{"report": "report:webentity_id:%s" % s.value.id}))
            if isinstance(s, ast.Return) and isinstance(s.value, ast.Name) and (env.get(s.value.id) or "").startswith("report:"):
                _, a, b = env[s.value.id].split(":")
                if (env.get(a), env.get(b)) != ("oN", "listB"):
                    raise Unsupported("report entry")
                return self.ret("(v_%s, v_%s)" % (a, b), env)
            if self.recv_type == "thdr" and ast.unparse(s) == "self.data = self.unpack(self.storage.read(0))":
                # unpack(None) raises (a file without header block)
                return ("(let '(sg, v__d) := py_pm_read sg (Some 0%%N) in\n match v__d with\n | None => %s\n | Some v__d => (let %s := th_set_data (unpack header_format v__d) %s in\n %s) end)"
                        % (self.fail(), self.recv, self.recv, nxt()))
            if self.recv_type == "thdr" and ast.unparse(s) == "self.data = [0, TRAPH_VERSION.encode()]":
                return "(let %s := th_set_data [VNum 0%%N; VBytes version_bytes] %s in\n %s)" % (self.recv, self.recv, nxt())
            if self.recv_type == "thdr" and ast.unparse(s) == "self.storage = storage":
                return nxt()
            if self.recv_type == "thdr" and ast.unparse(s) == "empty_data = struct.pack(LRU_TRIE_HEADER_FORMAT, *self.data)":
                return "(let v_empty_data := (pack header_format (th_data %s)) in\n %s)" % (self.recv, nxt(dict(env, empty_data="bytes")))
            if self.recv_type == "thdr" and isinstance(s, ast.Expr) and ast.unparse(s) in ("self.__ensure()", "self.read()"):
                coq = {"self.__ensure()": "py_thdr_ensure", "self.read()": "py_thdr_read"}[ast.unparse(s)]
                return "(match %s %s sg with\n | None => %s\n | Some (%s, sg) => %s end)" % (coq, self.recv, self.fail(), self.recv, nxt())
            if isinstance(s, ast.AugAssign) and isinstance(s.op, ast.Add) and ast.unparse(s.target.value if isinstance(s.target, ast.Subscript) else s.target) == "self.data" \
                    and isinstance(s.target, ast.Subscript) and self.recv_type == "thdr":
                i, ti = self.expr(s.target.slice, env)
                a, ta = self.expr(s.value, env)
                if (ti, ta) != ("pos", "N"):
                    raise Unsupported("header increment")
                return "(let %s := th_set_data (py_set_nth %s (VNum (N.add (py_get_num %s (th_data %s)) %s)) (th_data %s)) %s in\n %s)" % (
                    self.recv, i, i, self.recv, a, self.recv, self.recv, nxt())
            if isinstance(s, ast.For) and isinstance(s.iter, ast.Call) and isinstance(s.iter.func, ast.Attribute) and s.iter.func.attr == "items" \
                    and isinstance(s.iter.func.value, ast.Name) and env.get(s.iter.func.value.id) == "pdict" and not s.orelse:
                # for prefix, [node, history] in d.items(): <effects on the storage through node>
                tg = s.target
                if not (isinstance(tg, ast.Tuple) and len(tg.elts) == 2 and isinstance(tg.elts[0], ast.Name) and isinstance(tg.elts[1], ast.List)
                        and len(tg.elts[1].elts) == 2 and all(isinstance(x, ast.Name) for x in tg.elts[1].elts)):
                    raise Unsupported("target of the loop over the dict")
                k_, n_, h_ = tg.elts[0].id, tg.elts[1].elts[0].id, tg.elts[1].elts[1].id
                for x in ast.walk(ast.Module(body=list(s.body), type_ignores=[])):
                    if isinstance(x, (ast.Assign, ast.AugAssign, ast.Return, ast.Break, ast.Continue, ast.For, ast.While)):
                        raise Unsupported("body of the loop over the dict")
                env1 = dict(env, **{k_: "bytes", n_: "tnode", h_: "hist"})
                saved = self.loop_k
                self.loop_k = True
                body = self.block(list(s.body), env1, lambda e2: "(Some sg)")
                self.loop_k = saved
                return ("(match fold_left (fun (st : option py_pm) (v__it : (bytes * (py_node * py_hist))) =>\n match st with\n | None => None\n"
                        " | Some sg => (let '(v_%s, (v_%s, v_%s)) := v__it in\n %s) end)\n v_%s (Some sg) with\n | None => %s\n | Some sg => %s end)"
                        % (k_, n_, h_, body, s.iter.func.value.id, self.fail(), nxt()))
        return GA.FnT.block(self, stmts, env, k)

    def wcall(self, c, env):
        sig = self.tr.sigs[("traph", c.func.attr)]
        return "%s hd sg%s" % (sig["coq"], "".join(" " + x for x in self.args(c, sig, env)))

    def call_stmt(self, c, target, env, nxt):
        f = c.func
        if isinstance(f, ast.Attribute) and isinstance(f.value, ast.Name):
            o = f.value.id
            if env.get(o) == "ndict" and f.attr == "update" and len(c.args) == 1 and target is None and not c.keywords \
                    and isinstance(c.args[0], ast.Dict) and len(c.args[0].keys) == 1:
                k_, tk = self.expr(c.args[0].keys[0], env)
                a, ta = self.expr(c.args[0].values[0], env)
                if tk != "bytes" or ta not in ("tnode", "otnode"):
                    raise Unsupported("dict update with %s: %s" % (tk, ta))
                return "(let v_%s := py_dict_update %s %s v_%s in\n %s)" % (o, k_, self.coerce(a, ta, "otnode"), o, nxt())
            if self.alias and o in self.alias and target is None:
                sig = self.tr.sigs.get(("thdr", f.attr))
                if sig is None or c.args or c.keywords:
                    raise Unsupported("header method %s" % f.attr)
                hd = self.alias[o]
                if sig["kind"] == "node":
                    return "(let %s := %s %s in\n %s)" % (hd, sig["coq"], hd, nxt())
                if sig["kind"] == "io":
                    return "(let '(%s, sg) := %s %s sg in\n %s)" % (hd, sig["coq"], hd, nxt())
            if env.get(o) == "listB" and f.attr == "append" and len(c.args) == 1 and target is None and not c.keywords:
                a, ta = self.expr(c.args[0], env)
                if ta != "bytes":
                    raise Unsupported("append of %s" % ta)
                return "(let v_%s := v_%s ++ [%s] in\n %s)" % (o, o, a, nxt())
            if env.get(o) == "pdict" and f.attr == "update" and len(c.args) == 1 and target is None and not c.keywords \
                    and isinstance(c.args[0], ast.Dict) and len(c.args[0].keys) == 1 and isinstance(c.args[0].values[0], ast.List) \
                    and len(c.args[0].values[0].elts) == 2:
                k_, tk = self.expr(c.args[0].keys[0], env)
                (a, ta), (b, tb) = [self.expr(x, env) for x in c.args[0].values[0].elts]
                if (tk, ta, tb) != ("bytes", "tnode", "hist"):
                    raise Unsupported("dict update with %s: [%s, %s]" % (tk, ta, tb))
                return "(let v_%s := py_dict_update %s (%s, %s) v_%s in\n %s)" % (o, k_, a, b, o, nxt())
        # self.storage.write(data, block) as a statement (the header's write)
        if isinstance(f, ast.Attribute) and ast.unparse(f.value) == "self.storage" and f.attr == "write" and len(c.args) == 2 \
                and target is None and not c.keywords:
            a, ta = self.expr(c.args[0], env)
            b, tb = self.expr(c.args[1], env)
            if ta != "bytes":
                raise Unsupported("storage.write data")
            return "(let '(sg, v__) := py_pm_write sg %s %s in\n %s)" % (a, self.coerce(b, tb, "oN"), nxt())
        return GA.FnT.call_stmt(self, c, target, env, nxt)


def main(out):
    T, _, TN, LT = GT.build()
    GW.register(T, TN, LT)
    T.sigs[("tstore", "lru_node")] = {"kind": "tfn", "params": [("lru", "bytes", None)], "rtype": "otnode", "coq": "py_trie_lru_node"}
    T.out = []
    # ---- LRUTrieNode.refresh / set_webentity ----
    T.method(TN, "tnode", "refresh", [], "io")
    T.method(TN, "tnode", "set_webentity", [("weid", "N", None)], "node")
    # ---- LRUTrieHeader ----
    ph = os.path.join(REPO, "traph", "lru_trie", "header.py")
    th = ast.parse(open(ph).read(), ph)
    c = [n for n in th.body if isinstance(n, ast.ClassDef) and n.name == "LRUTrieHeader"]
    if len(c) != 1:
        raise Unsupported("class LRUTrieHeader")
    HD = dict((n.name, n) for n in c[0].body if isinstance(n, ast.FunctionDef))
    init = ast.unparse(HD["__init__"])
    if "self.data = [0, TRAPH_VERSION.encode()]" not in init or "self.storage = storage" not in init:
        raise Unsupported("LRUTrieHeader.__init__: %s" % init)

    def hmethod(name, kind, rtype=None):
        fn = HD[name]
        if [a.arg for a in fn.args.args] != ["self"] or fn.args.defaults:
            raise Unsupported("LRUTrieHeader.%s signature" % name)
        f = FnW(T, fn, "hd", "thdr", False, rtype)
        f.returns = []
        coq = "py_thdr_" + name
        if kind == "pure":
            body = f.block(list(fn.body), {}, lambda e2: (_ for _ in ()).throw(Unsupported("%s falls off its end" % name)))
            T.out.append("Definition %s (hd : py_thdr) : %s :=\n %s." % (coq, GL.COQT[rtype], body))
        elif kind == "node":
            body = f.block(list(fn.body), {}, lambda e2: "hd")
            T.out.append("Definition %s (hd : py_thdr) : py_thdr :=\n %s." % (coq, body))
        else:
            f.has_sg = True
            body = f.block(list(fn.body), {}, lambda e2: "(hd, sg)")
            T.out.append("Definition %s (hd : py_thdr) (sg : py_pm) : py_thdr * py_pm :=\n %s." % (coq, body))
        T.sigs[("thdr", name)] = {"kind": kind, "params": [], "rtype": rtype, "coq": coq}
    def hio(name, coqname, const_check=None):
        fn = HD.get(name) or HD.get("_LRUTrieHeader" + name)
        if fn is None:
            raise Unsupported("LRUTrieHeader.%s not found" % name)
        f = FnW(T, fn, "hd", "thdr", True, None)
        f.returns = []
        f.has_sg = True
        f.rcoq = "option (py_thdr * py_pm)"
        body = f.block(list(fn.body), {"storage": "storage"} if name == "__init__" else {}, lambda e2: "(Some (hd, sg))")
        T.out.append("Definition %s (hd : py_thdr) (sg : py_pm) : option (py_thdr * py_pm) :=\n %s." % (coqname, body))
    GL.CONSTS["LRU_TRIE_HEADER_BLOCKS"] = ("trie_header_blocks", "N")
    if "TRAPH_VERSION.encode()" not in init or [a.arg for a in HD["__init__"].args.args] != ["self", "storage"]:
        raise Unsupported("LRUTrieHeader.__init__ signature")
    hio("__ensure", "py_thdr_ensure")
    hio("read", "py_thdr_read")
    hio("__init__", "py_thdr_init_from")
    T.out.append("Definition py_thdr_init (sg : py_pm) : option (py_thdr * py_pm) := py_thdr_init_from (mk_th []) sg.")
    hmethod("pack", "pure", "bytes")
    hmethod("write", "io")
    hmethod("last_webentity_id", "pure", "N")
    hmethod("increment_last_webentity_id", "node")
    # ---- Traph ----
    p = os.path.join(REPO, "traph", "traph.py")
    tree = ast.parse(open(p).read(), p)
    c = [n for n in tree.body if isinstance(n, ast.ClassDef) and n.name == "Traph"]
    TR = dict((n.name, n) for n in c[0].body if isinstance(n, ast.FunctionDef))
    enc = TR.get("__encode")
    if enc is None or [ast.unparse(x) for x in enc.body] != ["if isinstance(string, bytes):\n    return string", "return string.encode(self.encoding)"]:
        raise Unsupported("Traph.__encode body")
    pr = os.path.join(REPO, "traph", "traph_write_report.py")
    rep = ast.unparse(ast.parse(open(pr).read(), pr))
    if "self.created_webentities = dict()" not in rep and "self.created_webentities = {}" not in rep:
        raise Unsupported("TraphWriteReport: created_webentities")
    if "self.header = LRUTrieHeader(storage)" not in ast.unparse(ast.parse(open(os.path.join(REPO, "traph", "lru_trie", "lru_trie.py")).read())):
        raise Unsupported("LRUTrie.__init__: header")

    def wfn(name, params, rtype, rcoq, decl=None, defaults=None):
        fn = TR[name]
        if [a.arg for a in fn.args.args] != ["self"] + [q[0] for q in params] or fn.args.vararg or fn.args.kwarg:
            raise Unsupported("%s signature" % name)
        if [ast.unparse(d) for d in fn.args.defaults] != (defaults or []):
            raise Unsupported("%s defaults" % name)
        f = FnW(T, fn, None, "traph", True, rtype, decl=decl or {})
        f.returns = ["hd", "sg"]
        f.has_sg = True
        f.tnode_storage = "sg"
        f.rcoq = "option (py_thdr * py_pm * %s)" % rcoq
        body = f.block(list(fn.body), dict((q[0], q[1]) for q in params),
                       lambda e2: (_ for _ in ()).throw(Unsupported("%s falls off its end" % name)))
        ps = "".join(" (v_%s : %s)" % (q[0], GL.COQT[q[1]]) for q in params)
        T.out.append("Definition py_traph_%s (hd : py_thdr) (sg : py_pm)%s : option (py_thdr * py_pm * %s) :=\n %s."
                     % (name.strip("_"), ps, rcoq, body))
    wfn("__generated_web_entity_id", [], "N", "N")
    wfn("__add_prefixes", [("prefixes", "listB", None), ("use_best_case", "bool", None)], "pair:oN:listB", "(option N * list bytes)",
        decl={"valid_prefixes_index": "pdict", "invalid_prefixes": "listB"}, defaults=["True"])
    wfn("create_webentity", [("prefixes", "listB", None)], "pair:oN:listB", "(option N * list bytes)")
    T.method(TN, "tnode", "unset_webentity", [], "node")

    def reg(name, params):
        T.sigs[("traph", name)] = {"kind": "wfn", "params": params, "rtype": "bool", "coq": "py_traph_" + name}
    # an id parameter whose default is False: False and 0 are the same number in Python (`not weid`, `== weid`)
    wfn("add_prefix_to_webentity", [("prefix", "bytes", None), ("weid", "N", None)], "bool", "bool")
    reg("add_prefix_to_webentity", [("prefix", "bytes", None), ("weid", "N", None)])
    wfn("remove_prefix_from_webentity", [("prefix", "bytes", None), ("weid", "N", None)], "bool", "bool", defaults=["False"])
    reg("remove_prefix_from_webentity", [("prefix", "bytes", None), ("weid", "N", "0%N")])
    wfn("move_prefix_to_webentity", [("prefix", "bytes", None), ("weid_target", "N", None), ("weid_source", "N", None)], "bool", "bool",
        defaults=["False"])
    wfn("delete_webentity", [("weid", "N", None), ("weid_prefixes", "listB", None), ("check_for_corruption", "bool", None)], "bool", "bool",
        decl={"prefix_index": "ndict"}, defaults=["True"])
    L = ["(* GENERATED by harness/gen_traphw.py from %s/traph/traph.py, lru_trie/header.py, lru_trie/node.py -- do not edit *)" % REPO,
         "From Coq Require Import List NArith Bool Arith.", "Import ListNotations.",
         "From Traph Require Import Bytes Consts Layout Codec GenStorage GenNode GenLinks GenTrie GenTrieW.", "", PREAMBLE]
    text = "\n".join(L + T.out) + "\n"
    old = open(out).read() if os.path.exists(out) else None
    if old != text:
        with open(out, "w") as fh:
            fh.write(text)
    return 0


if __name__ == "__main__":
    try:
        sys.exit(main(sys.argv[1]))
    except Unsupported as e:
        print("gen_traphw: UNSUPPORTED: %s" % e)
        sys.exit(3)
    except (KeyError, AttributeError, IndexError, TypeError) as e:
        print("gen_traphw: UNSUPPORTED: unexpected source shape (%s: %s)" % (type(e).__name__, e))
        sys.exit(3)
