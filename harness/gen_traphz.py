#!/venv/bin/python
"""Translate the installation of a webentity creation rule (traph/traph.py: Traph.add_webentity_creation_rule(_iter);
traph/lru_trie/node.py: flag_as_webentity_creation_rule) from the Python AST into Gallina: coq/theories/GenTraphZ.v, regenerated on
every run.  Built on the translated add_lru (GenTrieW.v), __add_page (GenTraphP.v) and node write (GenNode.v).

The request consumes the generator LRUTrie.dfs_iter with a `for` whose body WRITES the trie (`__add_page` may create webentities:
webentity fields rewritten, new nodes appended, the header counter incremented) while the generator is suspended at its `yield`.
Running the generator first (as the read-only queries do) would not be faithful, so dfs_iter is translated a second time here as a
higher-order function

    py_trie_dfs_iter_visit visit fuel acc sg starting_node starting_lru skip  :  option (A * py_pm)

in which every `yield e` CALLS the visitor with the accumulator, the storage as it is now and the item, and goes on with the
accumulator and the storage the visitor returns: exactly what Python does when a `for` without break / return consumes a
generator.  The generator's own locals (its node object, its stack) are not visible to the body; the body receives the SAME node
object the generator goes on using, so the translator checks that the body only calls `<target>.is_page()` on it (no mutation
through the alias).  Because the body may append blocks, the number of iterations is not bounded by the size of the store at the
start: the loop runs on an explicit fuel argument and running out of fuel is None (not a result), so a result for some fuel is the
result of the Python loop; GenTraphZFacts.v proves that a fuel exists and that the result is the model's.
  * `self.webentity_creation_rules[k] = re.compile(pattern, re.I)`: the RAM rule table is an association list (assignment keeps the
    place of an existing key: py_rules_set); compiling a pattern of Hyphe's rule family is the modelled primitive (its rule kind);
  * generator request: sequential meaning (see gen_traph.py)."""
import ast
import os
import sys

sys.path.insert(0, os.path.dirname(os.path.abspath(__file__)))
import gen_links as GL       # noqa: E402
import gen_trie as GT        # noqa: E402
import gen_triew as GW       # noqa: E402
import gen_tried as GD       # noqa: E402
import gen_traphr as GR      # noqa: E402

REPO = os.environ.get("VERIF_REPO", "/repo")
Unsupported = GL.Unsupported

GL.COQT.update({"rulekind": "rulekind"})

PREAMBLE = r"""Fixpoint py_rules_set (k : bytes) (v : rulekind) (d : list (bytes * rulekind)) : list (bytes * rulekind) :=
  match d with
  | [] => [(k, v)]
  | (k', v') :: d' => if beq k k' then (k', v) :: d' else (k', v') :: py_rules_set k v d'
  end.
"""


class FnDV(GD.FnD):
    """dfs_iter with a visitor called at every yield; v__out is the visitor's accumulator"""
    def fuel(self, s, env):
        return "v__fuel"

    def loop_state(self, body, env, exclude=()):
        names, pat, ty, pack = GD.FnD.loop_state(self, body, env, exclude)
        lt = "list (%s)" % GL.COQT[self.gen]
        if ty.count(lt) != 1:
            raise Unsupported("visitor: loop state %s" % ty)
        return names, pat, ty.replace(lt, "V__A"), pack

    def block(self, stmts, env, k):
        if stmts:
            s, rest = stmts[0], stmts[1:]
            if isinstance(s, ast.Expr) and isinstance(s.value, ast.Yield):
                v = s.value.value
                if not (isinstance(v, ast.Tuple) and len(v.elts) == 2 and self.gen == "pair:tnode:bytes"):
                    raise Unsupported("visitor: yield shape")
                (a, ta), (b, tb) = [self.expr(x, env) for x in v.elts]
                if (ta, tb) != ("tnode", "bytes"):
                    raise Unsupported("yield of (%s, %s)" % (ta, tb))
                return "(match v__visit v__out sg (%s, %s) with\n | None => None\n | Some (v__out, sg) => %s end)" % (a, b, self.block(rest, env, k))
            if isinstance(s, ast.If) and any(isinstance(n, ast.Yield) for n in ast.walk(s)):
                raise Unsupported("visitor: conditional yield")
        return GD.FnD.block(self, stmts, env, k)

    def loop(self, s, env, nxt):
        t = GD.FnD.loop(self, s, env, nxt)
        if t.count("| O => Some st\n") != 1:
            raise Unsupported("visitor: loop shape")
        return t.replace("| O => Some st\n", "| O => None\n")


class FnZ(GR.FnR):
    def cond(self, t, env, kt, kf):
        if isinstance(t, ast.UnaryOp) and isinstance(t.op, ast.Not) and isinstance(t.operand, ast.Name) and env.get(t.operand.id) == "tnode":
            # an LRUTrieNode object is always true (the class defines neither __bool__ nor __len__: checked in main)
            return kf(dict(env))
        return GR.FnR.cond(self, t, env, kt, kf)

    def block(self, stmts, env, k):
        if stmts:
            s, rest = stmts[0], stmts[1:]
            nxt = lambda env2=None: self.block(rest, env if env2 is None else env2, k)          # noqa: E731
            u = ast.unparse(s)
            if u == "self.webentity_creation_rules[rule_prefix] = re.compile(pattern, re.I)" and env.get("rule_prefix") == "bytes" \
                    and env.get("pattern") == "rulekind":
                return "(let rm := mk_ram (py_rules_set v_rule_prefix v_pattern (ram_rules rm)) (ram_dflt rm) in\n %s)" % nxt()
            if isinstance(s, ast.Assign) and len(s.targets) == 1 and isinstance(s.targets[0], ast.Tuple) and isinstance(s.value, ast.Call) \
                    and ast.unparse(s.value.func) == "self.__add_page" and len(s.value.args) == 1 and not s.value.keywords:
                # crawled defaults to False (checked in main)
                a = [x.id for x in s.targets[0].elts]
                if len(a) != 2:
                    raise Unsupported("call of __add_page")
                l, tl = self.expr(s.value.args[0], env)
                if tl != "bytes":
                    raise Unsupported("__add_page of %s" % tl)
                return "(match py_traph_add_page_int rm hd sg %s false with\n | None => %s\n | Some (hd, sg, (v_%s, v_%s)) => %s end)" % (
                    l, self.fail(), a[0], a[1], nxt(dict(env, **{a[0]: "tnode", a[1]: "report"})))
            if isinstance(s, ast.For) and isinstance(s.iter, ast.Call) and ast.unparse(s.iter.func) == "self.lru_trie.dfs_iter" and not s.orelse:
                it = s.iter
                if len(it.args) != 2 or it.keywords or not all(isinstance(x, ast.Name) for x in it.args) \
                        or not (isinstance(s.target, ast.Tuple) and len(s.target.elts) == 2 and all(isinstance(x, ast.Name) for x in s.target.elts)):
                    raise Unsupported("dfs_iter call shape")
                a0, a1 = [x.id for x in it.args]
                if env.get(a0) != "tnode" or env.get(a1) != "bytes" or env.get("report") != "report":
                    raise Unsupported("dfs_iter arguments")
                tn, tl = [x.id for x in s.target.elts]
                if tn in env or tl in env:
                    raise Unsupported("loop targets shadow locals")
                mod = ast.Module(body=list(s.body), type_ignores=[])
                for n in ast.walk(mod):
                    if isinstance(n, (ast.Break, ast.Return, ast.Continue)):
                        raise Unsupported("exit from the loop over dfs_iter")
                    if isinstance(n, ast.Name) and n.id in (tn, tl) and not isinstance(n.ctx, ast.Load):
                        raise Unsupported("loop target assigned in the body")
                # the yielded node object is the generator's own: the body may only ask it is_page()
                uses = sum(1 for n in ast.walk(mod) if isinstance(n, ast.Name) and n.id == tn)
                okuses = sum(1 for n in ast.walk(mod) if isinstance(n, ast.Call) and ast.unparse(n) == "%s.is_page()" % tn)
                if uses != okuses:
                    raise Unsupported("the loop body uses the generator's node object otherwise than through is_page()")
                for n in ast.walk(mod):
                    if isinstance(n, ast.Assign) and any("webentity_creation_rules" in ast.unparse(t) for t in n.targets):
                        raise Unsupported("the loop body changes the rule table")
                saved = self.loop_k
                self.loop_k = True
                try:
                    body = self.block(list(s.body), dict(env, **{tn: "tnode", tl: "bytes"}), lambda e2: "(Some ((hd, v_report), sg))")
                finally:
                    self.loop_k = saved
                return ("(match py_trie_dfs_iter_visit (fun (v__acc : (py_thdr * py_report)) (sg : py_pm) (v__it : (py_node * bytes)) =>\n"
                        " let '(hd, v_report) := v__acc in let '(v_%s, v_%s) := v__it in\n %s)\n v__fuel (hd, v_report) sg (Some v_%s) v_%s false with\n"
                        " | None => %s\n | Some ((hd, v_report), sg) => %s end)" % (tn, tl, body, a0, a1, self.fail(), nxt()))
        return GR.FnR.block(self, stmts, env, k)


def main(out):
    T, _, TN, LT = GT.build()
    GW.register(T, TN, LT)
    T.sigs[("tstore", "lru_node")] = {"kind": "tfn", "params": [("lru", "bytes", None)], "rtype": "otnode", "coq": "py_trie_lru_node"}
    T.out = []
    T.join_calls = True
    T.method(TN, "tnode", "flag_as_webentity_creation_rule", [], "node")
    if "__bool__" in TN or "__len__" in TN:
        raise Unsupported("LRUTrieNode defines its truth value")
    # ---- dfs_iter with a visitor ----
    fn = LT["dfs_iter"]
    params = [("starting_node", "otnode"), ("starting_lru", "bytes"), ("skip_childless_paths", "bool")]
    if [a.arg for a in fn.args.args] != ["self"] + [p[0] for p in params] or fn.args.vararg or fn.args.kwarg or fn.args.kwonlyargs \
            or [ast.unparse(d) for d in fn.args.defaults] != ["None", "b''", "False"]:
        raise Unsupported("dfs_iter signature")
    f = FnDV(T, fn, None, "tstore", True, None, gen="pair:tnode:bytes", decl={})
    f.returns = []
    f.has_sg = True
    f.gen_sg = True
    body = f.block(list(fn.body), dict(params), lambda e2: "(Some (v__out, sg))")
    T.out.append("Definition py_trie_dfs_iter_visit {V__A : Type} (v__visit : V__A -> py_pm -> (py_node * bytes) -> option (V__A * py_pm))\n"
                 " (v__fuel : nat) (v__out : V__A) (sg : py_pm) (v_starting_node : option py_node) (v_starting_lru : bytes)\n"
                 " (v_skip_childless_paths : bool) : option (V__A * py_pm) :=\n %s." % body)
    T.join_calls = False
    # ---- Traph ----
    p = os.path.join(REPO, "traph", "traph.py")
    tree = ast.parse(open(p).read(), p)
    c = [n for n in tree.body if isinstance(n, ast.ClassDef) and n.name == "Traph"]
    TR = dict((n.name, n) for n in c[0].body if isinstance(n, ast.FunctionDef))
    enc = TR.get("__encode")
    if enc is None or [ast.unparse(x) for x in enc.body] != ["if isinstance(string, bytes):\n    return string", "return string.encode(self.encoding)"]:
        raise Unsupported("Traph.__encode body")
    ap = TR["__add_page"]
    if [a.arg for a in ap.args.args] != ["self", "lru", "crawled"] or [ast.unparse(d) for d in ap.args.defaults] != ["False"]:
        raise Unsupported("__add_page signature")
    init_src = ast.unparse(TR["__init__"])
    if "self.lru_trie = LRUTrie(self.lru_trie_storage, encoding=encoding)" not in init_src:
        raise Unsupported("Traph.__init__: lru_trie")
    pi = os.path.join(REPO, "traph", "traph_iterator_state.py")
    ti = [ast.unparse(n) for n in ast.parse(open(pi).read(), pi).body if isinstance(n, (ast.ClassDef, ast.FunctionDef))]
    if len(ti) != 2 or ti[1] != "def run_iterator(iterator):\n    for state in iterator:\n        pass\n    return state.result" \
            or "def finalize(self, result):\n        self.done = True\n        self.result = result\n        return self" not in ti[0] \
            or "def should_yield(self, yield_frequency=1000):\n        self.n_iterations += 1\n        return not self.n_iterations % yield_frequency" not in ti[0]:
        raise Unsupported("traph_iterator_state.py")
    fn = TR["add_webentity_creation_rule_iter"]
    if [a.arg for a in fn.args.args] != ["self", "rule_prefix", "pattern", "write_in_trie"] or [ast.unparse(d) for d in fn.args.defaults] != ["True"]:
        raise Unsupported("add_webentity_creation_rule_iter signature")
    w = TR["add_webentity_creation_rule"]
    if [a.arg for a in w.args.args] != ["self", "rule_prefix", "pattern", "write_in_trie"] or [ast.unparse(d) for d in w.args.defaults] != ["True"] \
            or len(w.body) != 1 or ast.unparse(w.body[0]) != \
            "return run_iterator(self.add_webentity_creation_rule_iter(rule_prefix, pattern, write_in_trie=write_in_trie))":
        raise Unsupported("add_webentity_creation_rule body")
    f = FnZ(T, fn, None, "traph", True, "report")
    f.returns = ["rm", "hd", "sg"]
    f.has_sg = True
    f.tnode_storage = "sg"
    f.rcoq = "option (py_ram * py_thdr * py_pm * py_report)"
    stmts = [x for x in fn.body if not (isinstance(x, ast.Expr) and isinstance(x.value, ast.Constant))]
    txt = f.block(stmts, {"rule_prefix": "bytes", "pattern": "rulekind", "write_in_trie": "bool"},
                  lambda e2: (_ for _ in ()).throw(Unsupported("add_webentity_creation_rule_iter falls off its end")))
    T.out.append("Definition py_traph_add_webentity_creation_rule (v__fuel : nat) (rm : py_ram) (hd : py_thdr) (sg : py_pm) (v_rule_prefix : bytes)\n"
                 " (v_pattern : rulekind) (v_write_in_trie : bool) : option (py_ram * py_thdr * py_pm * py_report) :=\n %s." % txt)
    L = ["(* GENERATED by harness/gen_traphz.py from %s/traph/traph.py, lru_trie/lru_trie.py, lru_trie/node.py -- do not edit *)" % REPO,
         "From Coq Require Import List NArith Bool Arith.", "Import ListNotations.",
         "From Traph Require Import Bytes Consts Layout Codec Rules GenStorage GenNode GenLinks GenTrie GenTrieW GenTrieD GenTraphW GenTraphP.", "", PREAMBLE]
    text = "\n".join(L + T.out) + "\n"
    old = open(out).read() if os.path.exists(out) else None
    if old != text:
        with open(out, "w") as fh:
            fh.write(text)
    return 0


if __name__ == "__main__":
    try:
        sys.exit(main(sys.argv[1]))
    except Unsupported as e:
        print("gen_traphz: UNSUPPORTED: %s" % e)
        sys.exit(3)
    except (KeyError, AttributeError, IndexError, TypeError) as e:
        print("gen_traphz: UNSUPPORTED: unexpected source shape (%s: %s)" % (type(e).__name__, e))
        sys.exit(3)
