#!/venv/bin/python
"""The one-line delegations of the public API (traph/traph.py: Traph.pages_iter, webentity_prefix_iter, count_pages,
count_crawled_pages, get_webentities_inlinks(_iter), get_webentities_outlinks(_iter), move_prefix_to_webentity_from_webentity):
each body is checked, from the Python AST, to be exactly `return <the translated method>(<its own arguments / the constants>)`
and is emitted as a Gallina definition applying the translated callee (coq/theories/GenTraphV.v, regenerated on every run), so
that every theorem about the callee is, by unfolding, a theorem about the public name (GenTraphVFacts is not needed: the
definitions ARE the callee's).  A change of a constant (out=False -> out=True), of an argument order or of the callee is refused
or changes the generated file."""
import ast
import os
import sys

sys.path.insert(0, os.path.dirname(os.path.abspath(__file__)))
import gen_links as GL       # noqa: E402

REPO = os.environ.get("VERIF_REPO", "/repo")
Unsupported = GL.Unsupported

# name, parameters (with defaults), the exact return expression, the Gallina definition
SPECS = [
    ("pages_iter", [], [], "self.lru_trie.pages_iter()",
     "Definition py_traph_pages_iter (sg : py_pm) : option (list (py_node * bytes) * py_pm) := py_trie_pages_iter sg."),
    ("webentity_prefix_iter", [], [], "self.lru_trie.webentity_prefix_iter()",
     "Definition py_traph_webentity_prefix_iter (sg : py_pm) : option (list (py_node * bytes) * py_pm) := py_trie_webentity_prefix_iter sg."),
    ("count_pages", [], [], "self.lru_trie.count_pages()",
     "Definition py_traph_count_pages (sg : py_pm) : option (py_pm * N) := py_trie_count_pages sg."),
    ("count_crawled_pages", [], [], "self.lru_trie.count_crawled_pages()",
     "Definition py_traph_count_crawled_pages (sg : py_pm) : option (py_pm * N) := py_trie_count_crawled_pages sg."),
    ("get_webentities_inlinks_iter", ["include_auto"], ["False"], "self.get_webentities_links_iter(out=False, include_auto=include_auto)", None),
    ("get_webentities_outlinks_iter", ["include_auto"], ["False"], "self.get_webentities_links_iter(out=True, include_auto=include_auto)", None),
    ("get_webentities_inlinks", ["include_auto"], ["False"], "self.get_webentities_links(out=False, include_auto=include_auto)",
     "Definition py_traph_get_webentities_inlinks (sg sgl : py_pm) (v_include_auto : bool) : option (py_pm * py_graph) :=\n"
     " py_traph_get_webentities_links sg sgl false v_include_auto."),
    ("get_webentities_outlinks", ["include_auto"], ["False"], "self.get_webentities_links(out=True, include_auto=include_auto)",
     "Definition py_traph_get_webentities_outlinks (sg sgl : py_pm) (v_include_auto : bool) : option (py_pm * py_graph) :=\n"
     " py_traph_get_webentities_links sg sgl true v_include_auto."),
    ("move_prefix_to_webentity_from_webentity", ["prefix", "weid_target", "weid_source"], ["False"],
     "self.move_prefix_to_webentity(prefix, weid_target, weid_source)",
     "Definition py_traph_move_prefix_to_webentity_from_webentity (hd : py_thdr) (sg : py_pm) (v_prefix : bytes) (v_weid_target v_weid_source : N)\n"
     " : option (py_thdr * py_pm * bool) := py_traph_move_prefix_to_webentity hd sg v_prefix v_weid_target v_weid_source."),
]
# the callees' own signatures, as the other translators read them
CALLEES = {"get_webentities_links": (["out", "include_auto"], ["True", "False"]),
           "get_webentities_links_iter": (["out", "include_auto"], ["True", "False"]),
           "move_prefix_to_webentity": (["prefix", "weid_target", "weid_source"], ["False"])}


def main(out):
    p = os.path.join(REPO, "traph", "traph.py")
    tree = ast.parse(open(p).read(), p)
    c = [n for n in tree.body if isinstance(n, ast.ClassDef) and n.name == "Traph"]
    TR = dict((n.name, n) for n in c[0].body if isinstance(n, ast.FunctionDef))
    if "self.lru_trie = LRUTrie(self.lru_trie_storage, encoding=encoding)" not in ast.unparse(TR["__init__"]):
        raise Unsupported("Traph.__init__: lru_trie")
    for name, (ps, ds) in CALLEES.items():
        fn = TR[name]
        if [a.arg for a in fn.args.args] != ["self"] + ps or [ast.unparse(d) for d in fn.args.defaults] != ds or fn.args.vararg or fn.args.kwarg:
            raise Unsupported("%s signature" % name)
    defs = []
    for name, ps, ds, ret, coq in SPECS:
        fn = TR[name]
        if [a.arg for a in fn.args.args] != ["self"] + ps or [ast.unparse(d) for d in fn.args.defaults] != ds or fn.args.vararg or fn.args.kwarg \
                or fn.args.kwonlyargs or fn.decorator_list:
            raise Unsupported("%s signature" % name)
        body = [x for x in fn.body if not (isinstance(x, ast.Expr) and isinstance(x.value, ast.Constant))]
        if len(body) != 1 or not isinstance(body[0], ast.Return) or ast.unparse(body[0].value) != ret:
            raise Unsupported("%s body: %s" % (name, ast.unparse(body[0]) if body else ""))
        if coq:
            defs.append("(* %s: return %s *)\n%s" % (name, ret, coq))
    L = ["(* GENERATED by harness/gen_traphv.py from %s/traph/traph.py -- do not edit *)" % REPO,
         "From Coq Require Import List NArith Bool.", "Import ListNotations.",
         "From Traph Require Import Bytes GenStorage GenNode GenTrie GenTrieD GenTraphW GenTraphN.", ""]
    text = "\n".join(L + defs) + "\n"
    old = open(out).read() if os.path.exists(out) else None
    if old != text:
        with open(out, "w") as fh:
            fh.write(text)
    return 0


if __name__ == "__main__":
    try:
        sys.exit(main(sys.argv[1]))
    except Unsupported as e:
        print("gen_traphv: UNSUPPORTED: %s" % e)
        sys.exit(3)
    except (KeyError, AttributeError, IndexError, TypeError) as e:
        print("gen_traphv: UNSUPPORTED: unexpected source shape (%s: %s)" % (type(e).__name__, e))
        sys.exit(3)
