#!/venv/bin/python
"""Translate the submission of links (traph/traph.py: Traph.add_links; traph/link_store/link_store.py: LinkStore.add_outlinks,
add_inlinks) from the Python AST into Gallina: coq/theories/GenTraphK.v, regenerated on every run.  Built on the translated
Traph.__add_page (GenTraphP.v) and LinkStore.add_links (GenLinks.v).  Three pieces of state are threaded: the RAM header `hd`,
the trie storage `sg` and the link storage `sgl`; the RAM rules `rm` are read-only.
  * `pages = dict()` (LRU -> node object) and the two `defaultdict(list)` multimaps are association lists in insertion order:
    `k not in d`, `d[k] = v` (py_dict_update), `d[k]` (a missing key raises: None), `d[k].append(v)` on a defaultdict (py_mm_add:
    appends to the list of an existing key in place, adds a new key at the end), `d.items()` in that order;
  * `(pages[t].block for t in targets)` is the list of those blocks - a missing page or an object without block raises when the
    generator is consumed inside add_links: None for the whole request;
  * `store = self.link_store`; `store.add_outlinks(node, blocks)` / `add_inlinks` are LinkStore.add_links with out=True / False
    (their bodies are checked textually), on the link storage, the node being rewritten in the trie storage.
  * ALIASING: `pages` holds references to node objects, the translation copies of their values; the translator checks that a
    recorded object is only ever used through `.block` (never changed by any method) or after a `refresh()` that re-reads it.
GenTraphKFacts.v proves the translated add_links equal to the model's Traph.add_links on every reachable state (C03)."""
import ast
import os
import sys

sys.path.insert(0, os.path.dirname(os.path.abspath(__file__)))
import gen_links as GL       # noqa: E402
import gen_trie as GT        # noqa: E402
import gen_triew as GW       # noqa: E402
import gen_traphp as GP      # noqa: E402

REPO = os.environ.get("VERIF_REPO", "/repo")
Unsupported = GL.Unsupported

GL.COQT.update({"ndict2": "list (bytes * py_node)", "mmap": "list (bytes * list bytes)", "listPair": "list (bytes * bytes)"})

PREAMBLE = r"""Fixpoint py_dict_get {V : Type} (k : bytes) (d : list (bytes * V)) : option V :=
  match d with
  | [] => None
  | (k', v) :: d' => if beq k k' then Some v else py_dict_get k d'
  end.
Definition py_dict_mem {V : Type} (k : bytes) (d : list (bytes * V)) : bool :=
  match py_dict_get k d with Some _ => true | None => false end.
(* defaultdict(list): d[k].append(v) *)
Fixpoint py_mm_add (k v : bytes) (d : list (bytes * list bytes)) : list (bytes * list bytes) :=
  match d with
  | [] => [(k, [v])]
  | (k', vs) :: d' => if beq k k' then (k', vs ++ [v]) :: d' else (k', vs) :: py_mm_add k v d'
  end.
(* (pages[t].block for t in ts), consumed entirely: a missing key or a node without block raises *)
Fixpoint py_blocks_of (pages : list (bytes * py_node)) (ts : list bytes) : option (list N) :=
  match ts with
  | [] => Some []
  | t :: ts' =>
      match py_dict_get t pages with
      | None => None
      | Some n => match nd_block n, py_blocks_of pages ts' with
                  | Some b, Some r => Some (b :: r)
                  | _, _ => None
                  end
      end
  end.
"""

STATE = ["hd", "sg", "sgl", "v_report", "v_pages", "v_outlinks", "v_inlinks"]
STATE_T = "(py_thdr * py_pm * py_pm * py_report * list (bytes * py_node) * list (bytes * list bytes) * list (bytes * list bytes))"


class FnK(GP.FnP):
    def expr(self, e, env):
        if isinstance(e, ast.Compare) and len(e.ops) == 1 and isinstance(e.ops[0], ast.NotIn) and isinstance(e.comparators[0], ast.Name) \
                and env.get(e.comparators[0].id) == "ndict2":
            a, ta = self.expr(e.left, env)
            if ta != "bytes":
                raise Unsupported("key of type %s" % ta)
            return "(negb (py_dict_mem %s v_%s))" % (a, e.comparators[0].id), "bool"
        return GP.FnP.expr(self, e, env)

    def block(self, stmts, env, k):
        if stmts:
            s, rest = stmts[0], stmts[1:]
            nxt = lambda env2=None: self.block(rest, env if env2 is None else env2, k)          # noqa: E731
            if isinstance(s, ast.Assign) and len(s.targets) == 1 and isinstance(s.targets[0], ast.Name):
                n, v = s.targets[0].id, s.value
                if ast.unparse(v) == "self.link_store":
                    return nxt(dict(env, **{n: "lstore"}))
                if ast.unparse(v) == "defaultdict(list)":
                    return "(let v_%s := (@nil (bytes * list bytes)) in\n %s)" % (n, nxt(dict(env, **{n: "mmap"})))
                if ast.unparse(v) == "dict()":
                    return "(let v_%s := (@nil (bytes * py_node)) in\n %s)" % (n, nxt(dict(env, **{n: "ndict2"})))
                if isinstance(v, ast.Call) and ast.unparse(v.func) == "self.__encode" and len(v.args) == 1 and isinstance(v.args[0], ast.Name) \
                        and v.args[0].id == n and env.get(n) == "bytes":
                    return nxt()
                if isinstance(v, ast.Subscript) and isinstance(v.value, ast.Name) and env.get(v.value.id) == "ndict2":
                    # ALIASING: Python's dict holds a reference to the node object, the translation a copy of its value.  The copy is
                    # faithful only if what is read from the recorded object cannot have changed since it was recorded: accepted
                    # when the very next statement re-reads the object from the file (`<name>.refresh()`), or tests
                    # `<name>.is_crawled()` and refreshes inside (index_batch_crawl: the key is a source met for the first time as
                    # a source - the keys of `data` are distinct - so the recorded object has not been touched since __add_page
                    # returned it); elsewhere only `.block` of a recorded object is read, which no method changes
                    nx = ast.unparse(rest[0]) if rest else ""
                    if not (nx == "%s.refresh()" % n or nx.startswith("if not %s.is_crawled():\n    %s.refresh()" % (n, n))):
                        raise Unsupported("use of the recorded node object %s without refresh" % n)
                    kx, tk = self.expr(v.slice, env)
                    return "(match py_dict_get %s v_%s with\n | None => %s\n | Some v_%s => %s end)" % (kx, v.value.id, self.fail(), n, nxt(dict(env, **{n: "tnode"})))
                if isinstance(v, ast.GeneratorExp) and len(v.generators) == 1 and not v.generators[0].ifs \
                        and isinstance(v.generators[0].target, ast.Name) and isinstance(v.generators[0].iter, ast.Name) \
                        and env.get(v.generators[0].iter.id) == "listB" \
                        and ast.unparse(v.elt) == "pages[%s].block" % v.generators[0].target.id and env.get("pages") == "ndict2":
                    return "(match py_blocks_of v_pages v_%s with\n | None => %s\n | Some v_%s => %s end)" % (
                        v.generators[0].iter.id, self.fail(), n, nxt(dict(env, **{n: "listN"})))
            if isinstance(s, ast.Assign) and len(s.targets) == 1 and isinstance(s.targets[0], ast.Subscript) \
                    and isinstance(s.targets[0].value, ast.Name) and env.get(s.targets[0].value.id) == "ndict2":
                kx, tk = self.expr(s.targets[0].slice, env)
                a, ta = self.expr(s.value, env)
                if (tk, ta) != ("bytes", "tnode"):
                    raise Unsupported("pages[%s] = %s" % (tk, ta))
                d = s.targets[0].value.id
                return "(let v_%s := py_dict_update %s %s v_%s in\n %s)" % (d, kx, a, d, nxt())
            if isinstance(s, ast.Assign) and len(s.targets) == 1 and isinstance(s.targets[0], ast.Tuple) and isinstance(s.value, ast.Call) \
                    and ast.unparse(s.value.func) == "self.__add_page" and len(s.value.args) == 1 and not s.value.keywords:
                a = [x.id for x in s.targets[0].elts]
                l, tl = self.expr(s.value.args[0], env)
                return "(match py_traph_add_page_int rm hd sg %s false with\n | None => %s\n | Some (hd, sg, (v_%s, v_%s)) => %s end)" % (
                    l, self.fail(), a[0], a[1], nxt(dict(env, **{a[0]: "tnode", a[1]: "report"})))
            if isinstance(s, ast.Expr) and isinstance(s.value, ast.Call) and isinstance(s.value.func, ast.Attribute) and s.value.func.attr == "append" \
                    and isinstance(s.value.func.value, ast.Subscript) and isinstance(s.value.func.value.value, ast.Name) \
                    and env.get(s.value.func.value.value.id) == "mmap" and len(s.value.args) == 1:
                d = s.value.func.value.value.id
                kx, tk = self.expr(s.value.func.value.slice, env)
                a, ta = self.expr(s.value.args[0], env)
                if (tk, ta) != ("bytes", "bytes"):
                    raise Unsupported("multimap append")
                return "(let v_%s := py_mm_add %s %s v_%s in\n %s)" % (d, kx, a, d, nxt())
            if isinstance(s, ast.Expr) and isinstance(s.value, ast.Call) and isinstance(s.value.func, ast.Attribute) \
                    and isinstance(s.value.func.value, ast.Name) and env.get(s.value.func.value.id) == "lstore" \
                    and s.value.func.attr in ("add_outlinks", "add_inlinks") and len(s.value.args) == 2 and not s.value.keywords:
                nd_, tn = self.expr(s.value.args[0], env)
                bl, tb = self.expr(s.value.args[1], env)
                if (tn, tb) != ("tnode", "listN"):
                    raise Unsupported("arguments of %s" % s.value.func.attr)
                return "(match py_ls_add_links %s sg sgl %s %s with\n | None => %s\n | Some (%s, sg, sgl) => %s end)" % (
                    nd_, bl, "true" if s.value.func.attr == "add_outlinks" else "false", self.fail(), nd_, nxt())
            if isinstance(s, ast.For) and not s.orelse and isinstance(s.iter, ast.Name) and env.get(s.iter.id) == "listPair" \
                    and isinstance(s.target, ast.Tuple) and len(s.target.elts) == 2 and self.loop_k is None:
                a, b = [x.id for x in s.target.elts]
                pat = "(" + ", ".join(STATE) + ")"
                self.loop_k = True
                body = self.block(list(s.body), dict(env, **{a: "bytes", b: "bytes"}), lambda e2: "(Some %s)" % pat)
                self.loop_k = None
                return ("(match fold_left (fun (st : option %s) (v__it : (bytes * bytes)) =>\n match st with\n | None => None\n | Some %s => (let '(v_%s, v_%s) := v__it in\n %s) end)\n"
                        " v_%s (Some %s) with\n | None => %s\n | Some %s => %s end)" % (STATE_T, pat, a, b, body, s.iter.id, pat, self.fail(), pat, nxt()))
            if isinstance(s, ast.For) and not s.orelse and isinstance(s.iter, ast.Call) and isinstance(s.iter.func, ast.Attribute) \
                    and s.iter.func.attr == "items" and isinstance(s.iter.func.value, ast.Name) and env.get(s.iter.func.value.id) == "mmap" \
                    and isinstance(s.target, ast.Tuple) and len(s.target.elts) == 2 and self.loop_k is None:
                a, b = [x.id for x in s.target.elts]
                self.loop_k = True
                body = self.block(list(s.body), dict(env, **{a: "bytes", b: "listB"}), lambda e2: "(Some (sg, sgl))")
                self.loop_k = None
                return ("(match fold_left (fun (st : option (py_pm * py_pm)) (v__it : (bytes * list bytes)) =>\n match st with\n | None => None\n"
                        " | Some (sg, sgl) => (let '(v_%s, v_%s) := v__it in\n %s) end)\n v_%s (Some (sg, sgl)) with\n | None => %s\n | Some (sg, sgl) => %s end)"
                        % (a, b, body, s.iter.func.value.id, self.fail(), nxt()))
        return GP.FnP.block(self, stmts, env, k)


def main(out):
    T, _, TN, LT = GT.build()
    GW.register(T, TN, LT)
    T.out = []
    T.sigs[("tnode", "refresh")] = {"kind": "io", "params": [], "rtype": None, "coq": "py_node_refresh"}
    pls = os.path.join(REPO, "traph", "link_store", "link_store.py")
    LS = GW.cls(ast.parse(open(pls).read(), pls), "LinkStore")
    for name, flag in (("add_outlinks", "True"), ("add_inlinks", "False")):
        fn = LS[name]
        if [a.arg for a in fn.args.args] != ["self", "source_node", "target_blocks"] or len(fn.body) != 1 \
                or ast.unparse(fn.body[0]) != "return self.add_links(source_node, target_blocks, out=%s)" % flag:
            raise Unsupported("LinkStore.%s body" % name)
    p = os.path.join(REPO, "traph", "traph.py")
    tree = ast.parse(open(p).read(), p)
    c = [n for n in tree.body if isinstance(n, ast.ClassDef) and n.name == "Traph"]
    TR = dict((n.name, n) for n in c[0].body if isinstance(n, ast.FunctionDef))
    enc = TR.get("__encode")
    if enc is None or [ast.unparse(x) for x in enc.body] != ["if isinstance(string, bytes):\n    return string", "return string.encode(self.encoding)"]:
        raise Unsupported("Traph.__encode body")
    if "self.link_store = LinkStore(self.links_store_storage)" not in ast.unparse(TR["__init__"]):
        raise Unsupported("Traph.__init__: link_store")
    if "crawled=False" not in ast.unparse(TR["__add_page"].args):
        raise Unsupported("__add_page default")
    fn = TR["add_links"]
    if [a.arg for a in fn.args.args] != ["self", "links"] or fn.args.defaults:
        raise Unsupported("add_links signature")
    f = FnK(T, fn, None, "traph", True, "report")
    f.returns = ["hd", "sg", "sgl"]
    f.has_sg = True
    f.tnode_storage = "sg"
    f.rcoq = "option (py_thdr * py_pm * py_pm * py_report)"
    body = f.block(list(fn.body), {"links": "listPair"}, lambda e2: (_ for _ in ()).throw(Unsupported("add_links falls off its end")))
    T.out.append("Definition py_traph_add_links (rm : py_ram) (hd : py_thdr) (sg sgl : py_pm) (v_links : list (bytes * bytes)) : option (py_thdr * py_pm * py_pm * py_report) :=\n %s." % body)
    L = ["(* GENERATED by harness/gen_traphk.py from %s/traph/traph.py, link_store/link_store.py -- do not edit *)" % REPO,
         "From Coq Require Import List NArith Bool Arith.", "Import ListNotations.",
         "From Traph Require Import Bytes Consts Layout Codec Rules GenStorage GenNode GenLinks GenTrie GenTrieW GenTraphW GenTraphP.", "", PREAMBLE]
    text = "\n".join(L + T.out) + "\n"
    old = open(out).read() if os.path.exists(out) else None
    if old != text:
        with open(out, "w") as fh:
            fh.write(text)
    return 0


if __name__ == "__main__":
    try:
        sys.exit(main(sys.argv[1]))
    except Unsupported as e:
        print("gen_traphk: UNSUPPORTED: %s" % e)
        sys.exit(3)
    except (KeyError, AttributeError, IndexError, TypeError) as e:
        print("gen_traphk: UNSUPPORTED: unexpected source shape (%s: %s)" % (type(e).__name__, e))
        sys.exit(3)
