#!/venv/bin/python
"""Translate the traversals of the trie (traph/lru_trie/lru_trie.py: LRUTrie.dfs_iter, webentity_dfs_iter, pages_iter,
webentity_prefix_iter, nodes_iter, count_pages, count_crawled_pages) from the Python AST into Gallina:
coq/theories/GenTrieD.v, regenerated on every run.  The statement translator is the one of gen_links.py / gen_trie.py /
gen_triew.py (whose signature tables are rebuilt here: GenTrieD.v imports GenTrie.v and GenTrieW.v), extended by:
  * the explicit stack of the depth-first traversals: a Python list of tuples (block, lru) / (block, lru, level); `pop()`
    takes the LAST element (py_pop), `append` adds at the end; `while len(stack):`; `continue`;
  * generators of pairs (node, lru): the node object yielded is the value the (re-used, mutable) object has at that moment -
    every consumer in the library reads it before asking for the next item;
  * optional node / integer parameters with their `None` tests (`not starting_node`, `if starting_node:`,
    `max_depth is not None and level >= max_depth`);
  * `self.root().block` (a second root object is read just for its block), `self.storage.block_size`,
    `node.read(node.block + self.storage.block_size)` (None + int raises);
  * `for node, lru in self.dfs_iter(): if <test on node>: yield node, lru` as a filter of the generator's items;
    `for node in self.nodes_iter(): if <test>: nb += 1` as a fold.
Every loop keeps the fuel 1 + size of the store (GenTrieDFacts.v proves it suffices on the files of every reachable
state: a traversal pops every block at most once).  Everything outside these shapes fails closed."""
import ast
import os
import sys

sys.path.insert(0, os.path.dirname(os.path.abspath(__file__)))
import gen_links as GL       # noqa: E402
import gen_trie as GT        # noqa: E402
import gen_triew as GW       # noqa: E402

REPO = os.environ.get("VERIF_REPO", "/repo")
Unsupported = GL.Unsupported

GL.COQT.update({"stack2": "list (option N * bytes)", "stack3": "list (option N * bytes * N)",
                "pair:tnode:bytes": "(py_node * bytes)"})

PREAMBLE = r"""(* list.pop(): the last element *)
Definition py_pop {A : Type} (l : list A) : option (A * list A) :=
  match rev l with
  | [] => None
  | x :: r => Some (x, rev r)
  end.
"""


class FnD(GL.Fn):
    cont_k = None            # what `continue` means in the innermost loop

    # ---------- expressions ----------
    def expr(self, e, env):
        if isinstance(e, ast.UnaryOp) and isinstance(e.op, ast.Not) and isinstance(e.operand, ast.Name) \
                and env.get(e.operand.id) == "otnode":
            # truthiness of an optional node object (LRUTrieNode defines neither __bool__ nor __len__)
            return "(match v_%s with None => true | Some _ => false end)" % e.operand.id, "bool"
        if isinstance(e, ast.Attribute) and ast.unparse(e) == "self.storage.block_size":
            return "(pm_block_size sg)", "N"
        if isinstance(e, ast.Call) and isinstance(e.func, ast.Name) and e.func.id == "lru_dirname" and len(e.args) == 1 and not e.keywords:
            a, ta = self.expr(e.args[0], env)
            if ta != "bytes":
                raise Unsupported("lru_dirname of %s" % ta)
            return "(GenHelpers2.py_lru_dirname %s)" % a, "bytes"
        if isinstance(e, ast.Call) and isinstance(e.func, ast.Name) and e.func.id == "len" and len(e.args) == 1 \
                and isinstance(e.args[0], ast.Name) and env.get(e.args[0].id) in ("stack2", "stack3"):
            return "(N.of_nat (length v_%s))" % e.args[0].id, "N"
        if isinstance(e, ast.BoolOp) and isinstance(e.op, ast.Or):
            parts = [self.expr(v, env) for v in e.values]
            if any(t != "bool" for _, t in parts):
                raise Unsupported("or of non-booleans")
            return "(" + " || ".join(a for a, _ in parts) + ")", "bool"
        if isinstance(e, ast.Compare) and len(e.ops) == 1 and isinstance(e.ops[0], (ast.Eq, ast.NotEq, ast.GtE)):
            a, ta = GL.Fn.expr(self, e.left, env) if not isinstance(e.left, ast.Compare) else (None, None)
            b, tb = self.expr(e.comparators[0], env)
            if ta == "oN" and tb == "oN" and isinstance(e.ops[0], (ast.Eq, ast.NotEq)):
                t = "(oN_eqb %s %s)" % (a, b)
                return (t if isinstance(e.ops[0], ast.Eq) else "(negb %s)" % t), "bool"
            if ta == "N" and tb == "N" and isinstance(e.ops[0], ast.GtE):
                return "(N.leb %s %s)" % (b, a), "bool"
        if isinstance(e, ast.Tuple) and len(e.elts) == 3:
            parts = [self.expr(x, env) for x in e.elts]
            return "(%s)" % ", ".join(a for a, _ in parts), "triple:" + ":".join(t for _, t in parts)
        return GL.Fn.expr(self, e, env)

    def is_pure_call(self, c, env):
        if isinstance(c.func, ast.Name) and c.func.id == "lru_dirname":
            return True
        return GL.Fn.is_pure_call(self, c, env)

    # ---------- tests ----------
    def cond(self, t, env, kt, kf):
        if isinstance(t, ast.Name) and env.get(t.id) == "otnode":
            n = t.id
            return "(match v_%s with\n | None => %s\n | Some v_%s => %s end)" % (n, kf(dict(env)), n, kt(dict(env, **{n: "tnode"})))
        if isinstance(t, ast.BoolOp) and isinstance(t.op, ast.And) and len(t.values) == 2 and isinstance(t.values[0], ast.Compare) \
                and isinstance(t.values[0].ops[0], ast.IsNot) and isinstance(t.values[0].left, ast.Name) \
                and isinstance(t.values[0].comparators[0], ast.Constant) and t.values[0].comparators[0].value is None \
                and env.get(t.values[0].left.id) == "oN":
            # x is not None and <pure test using x>: the binding of x as a number is confined to the test
            n = t.values[0].left.id
            a, ta = self.expr(t.values[1], dict(env, **{n: "N"}))
            if ta != "bool":
                raise Unsupported("truth of %s" % ta)
            return "(if (match v_%s with None => false | Some v_%s => %s end)\n then %s\n else %s)" % (n, n, a, kt(dict(env)), kf(dict(env)))
        return GL.Fn.cond(self, t, env, kt, kf)

    # ---------- statements ----------
    def block(self, stmts, env, k):
        if stmts:
            s, rest = stmts[0], stmts[1:]
            nxt = lambda env2=None: self.block(rest, env if env2 is None else env2, k)          # noqa: E731
            if isinstance(s, ast.Continue):
                if self.cont_k is None:
                    raise Unsupported("continue outside a loop")
                return self.cont_k(env)
            if isinstance(s, ast.Expr) and isinstance(s.value, ast.Yield) and isinstance(s.value.value, ast.Tuple) \
                    and self.gen == "pair:tnode:bytes" and len(s.value.value.elts) == 2:
                (a, ta), (b, tb) = [self.expr(x, env) for x in s.value.value.elts]
                if (ta, tb) != ("tnode", "bytes"):
                    raise Unsupported("yield of (%s, %s)" % (ta, tb))
                return "(let v__out := v__out ++ [(%s, %s)] in\n %s)" % (a, b, nxt())
            if isinstance(s, ast.If) and not s.orelse and len(s.body) == 1 and isinstance(s.body[0], ast.Expr) \
                    and isinstance(s.body[0].value, ast.Yield) and self.gen == "pair:tnode:bytes":
                # if <test>: yield ..: joined on the output
                c, tc = self.expr(s.test, env)
                if tc != "bool":
                    raise Unsupported("truth of %s" % tc)
                body = self.block(list(s.body), dict(env), lambda e2: "v__out")
                return "(let v__out := (if %s\n then %s\n else v__out) in\n %s)" % (c, body, nxt())
            if isinstance(s, ast.If) and not s.orelse and self.only_appends(s.body, env):
                # if <test>: stack.append(..): joined on the stack
                n = sorted(self.stack_names(s.body, env))[0]
                c, tc = self.expr(s.test, env)
                if tc != "bool":
                    raise Unsupported("truth of %s" % tc)
                body = self.block(list(s.body), dict(env), lambda e2: "v_%s" % n)
                return "(let v_%s := (if %s\n then %s\n else v_%s) in\n %s)" % (n, c, body, n, nxt())
        return GL.Fn.block(self, stmts, env, k)

    def stack_names(self, body, env):
        """the stacks a block of statements appends to, if it does nothing else (appends and `if`s without else over such blocks);
        None otherwise"""
        names = set()
        for x in body:
            if isinstance(x, ast.Expr) and isinstance(x.value, ast.Call) and isinstance(x.value.func, ast.Attribute) \
                    and x.value.func.attr == "append" and isinstance(x.value.func.value, ast.Name) \
                    and env.get(x.value.func.value.id) in ("stack2", "stack3"):
                names.add(x.value.func.value.id)
            elif isinstance(x, ast.If) and not x.orelse:
                sub = self.stack_names(x.body, env)
                if sub is None:
                    return None
                names |= sub
            else:
                return None
        return names

    def only_appends(self, body, env):
        names = self.stack_names(body, env)
        return bool(body) and names is not None and len(names) == 1

    def assign(self, tg, v, env, nxt):
        # starting_from_root = not starting_node  etc. go through expr; special forms:
        if isinstance(tg, ast.Name) and ast.unparse(v) == "self.root().block":
            # a second root object, read only for its block
            return "(let '(v__n, sg) := py_node_init sg None (Some py_first_data_block) None in\n let v_%s := (nd_block v__n) in\n %s)" % (
                tg.id, nxt(dict(env, **{tg.id: "oN"})))
        if isinstance(tg, ast.Name) and isinstance(v, ast.List) and len(v.elts) == 1 and isinstance(v.elts[0], ast.Tuple):
            a, ta = self.expr(v.elts[0], env)
            ty = {"pair:oN:bytes": "stack2", "triple:oN:bytes:N": "stack3"}.get(ta)
            if ty is None:
                raise Unsupported("list of %s" % ta)
            return "(let v_%s := [%s] in\n %s)" % (tg.id, a, nxt(dict(env, **{tg.id: ty})))
        if isinstance(tg, ast.Tuple) and isinstance(v, ast.Call) and isinstance(v.func, ast.Attribute) and v.func.attr == "pop" \
                and not v.args and not v.keywords and isinstance(v.func.value, ast.Name) and env.get(v.func.value.id) in ("stack2", "stack3") \
                and all(isinstance(x, ast.Name) for x in tg.elts):
            st = v.func.value.id
            tys = {"stack2": ["oN", "bytes"], "stack3": ["oN", "bytes", "N"]}[env[st]]
            if len(tg.elts) != len(tys):
                raise Unsupported("pop target")
            names = [x.id for x in tg.elts]
            pat = "(%s)" % ", ".join("v_%s" % n for n in names)
            env2 = dict(env)
            for n, t in zip(names, tys):
                env2[n] = t
            return "(match py_pop v_%s with\n | None => %s\n | Some (%s, v_%s) => %s end)" % (st, self.fail(), pat, st, nxt(env2))
        if isinstance(tg, ast.Name) and isinstance(v, ast.Name) and env.get(v.id) == "tnode" and self.decl.get(tg.id) == "otnode":
            return "(let v_%s := (Some v_%s) in\n %s)" % (tg.id, v.id, nxt(dict(env, **{tg.id: "otnode"})))
        return GL.Fn.assign(self, tg, v, env, nxt)

    def call_stmt(self, c, target, env, nxt):
        f = c.func
        if isinstance(f, ast.Attribute) and f.attr == "append" and isinstance(f.value, ast.Name) and env.get(f.value.id) in ("stack2", "stack3") \
                and len(c.args) == 1 and not c.keywords and target is None:
            a, ta = self.expr(c.args[0], env)
            want = {"stack2": "pair:oN:bytes", "stack3": "triple:oN:bytes:N"}[env[f.value.id]]
            if ta != want:
                raise Unsupported("append of %s to a %s" % (ta, env[f.value.id]))
            return "(let v_%s := v_%s ++ [%s] in\n %s)" % (f.value.id, f.value.id, a, nxt())
        if isinstance(f, ast.Attribute) and f.attr == "read" and isinstance(f.value, ast.Name) and env.get(f.value.id) == "tnode" \
                and len(c.args) == 1 and isinstance(c.args[0], ast.BinOp) and isinstance(c.args[0].op, ast.Add) and target is None:
            # node.read(node.block + n): None + int raises
            a, ta = self.expr(c.args[0].left, env)
            b, tb = self.expr(c.args[0].right, env)
            o = f.value.id
            if ta == "oN" and tb == "N":
                return "(match %s with\n | None => %s\n | Some v__x => (let '(v_%s, sg) := py_node_read_o v_%s sg (Some (N.add v__x %s)) in\n %s) end)" % (
                    a, self.fail(), o, o, b, nxt())
        return GL.Fn.call_stmt(self, c, target, env, nxt)

    # ---------- loops ----------
    def mutated(self, body, env):
        names = set(GL.Fn.mutated(self, body, env))
        for n in ast.walk(ast.Module(body=list(body), type_ignores=[])):
            if isinstance(n, ast.Call) and isinstance(n.func, ast.Attribute) and isinstance(n.func.value, ast.Name) \
                    and env.get(n.func.value.id) in ("stack2", "stack3"):
                names.add(n.func.value.id)
        return sorted(names)

    def loop(self, s, env, nxt):
        if s.orelse or self.loop_k is not None:
            raise Unsupported("while shape")
        if any(isinstance(n, (ast.Return, ast.Break)) for n in ast.walk(ast.Module(body=list(s.body), type_ignores=[]))):
            raise Unsupported("early exit from a traversal loop")
        names, pat, ty, pack = self.loop_state(s.body, env)
        self.loop_k = True
        saved = self.cont_k
        self.cont_k = lambda env2: "(py_loop fuel' %s)" % pack(env2)
        body = self.block(list(s.body), dict(env), self.cont_k)
        self.cont_k = saved
        self.loop_k = None
        test, tt = self.expr(s.test, env)
        if tt == "N":
            test = "(negb (N.eqb %s 0%%N))" % test
        elif tt != "bool":
            raise Unsupported("while test")
        loop = ("(fix py_loop (fuel : nat) (st : %s) {struct fuel} : option %s :=\n match fuel with\n | O => Some st\n | S fuel' =>\n"
                " let '%s := st in\n if %s\n then %s\n else Some st\n end)" % (ty, ty, pat, test, body))
        return "(match %s %s %s with\n | None => None\n | Some %s => %s end)" % (loop, self.fuel(s, env), pat, pat, nxt())


ORIG_MUT_TYPES = None


def gen_fn(T, LT, name, params, item, decl=None, defaults=None):
    """a generator method of LRUTrie: (sg, args) -> option (list item * py_pm)"""
    fn = LT[name]
    if [a.arg for a in fn.args.args] != ["self"] + [p[0] for p in params] or fn.args.vararg or fn.args.kwarg or fn.args.kwonlyargs:
        raise Unsupported("%s signature" % name)
    ndef = len(fn.args.defaults)
    for (pn, ty, d), dnode in zip(params[len(params) - ndef:], fn.args.defaults):
        if d is None or ast.unparse(dnode) != (defaults or {}).get(pn):
            raise Unsupported("default of %s.%s" % (name, pn))
    if any(d is not None for pn, ty, d in params[: len(params) - ndef]):
        raise Unsupported("defaults of %s" % name)
    f = FnD(T, fn, None, "tstore", True, None, gen=item, decl=decl or {})
    f.returns = []
    f.has_sg = True
    f.gen_sg = True
    body = f.block(list(fn.body), dict((p[0], p[1]) for p in params), lambda e2: "(Some (v__out, sg))")
    coq = "py_trie_" + name
    ps = "".join(" (v_%s : %s)" % (p[0], GL.COQT[p[1]]) for p in params)
    T.out.append("Definition %s (sg : py_pm)%s : option (list %s * py_pm) :=\n (let v__out := (@nil %s) in\n %s)."
                 % (coq, ps, GL.COQT[item], GL.COQT[item], body))
    T.sigs[("tstore", name)] = {"kind": "gen", "params": params, "item": item, "coq": coq}


def filter_fn(T, LT, name, src, testm):
    """for node, lru in self.<src>(): if node.<testm>(): yield node, lru"""
    fn = LT[name]
    want = "for node, lru in self.%s():\n    if node.%s():\n        yield (node, lru)" % (src, testm)
    if [a.arg for a in fn.args.args] != ["self"] or len(fn.body) != 1 or ast.unparse(fn.body[0]) != want:
        raise Unsupported("%s body: %s" % (name, ast.unparse(fn.body[0]) if fn.body else ""))
    sig = T.sigs[("tnode", testm)]
    if sig["kind"] != "pure" or sig["rtype"] != "bool":
        raise Unsupported("%s test" % name)
    srcsig = T.sigs[("tstore", src)]
    dflt = " ".join(p[2] for p in srcsig["params"])
    T.out.append("Definition py_trie_%s (sg : py_pm) : option (list (py_node * bytes) * py_pm) :=\n"
                 " (match %s sg %s with\n | None => None\n | Some (v__items, sg) => Some (filter (fun '(v_node, v_lru) => %s v_node) v__items, sg) end)."
                 % (name, srcsig["coq"], dflt, sig["coq"]))


def count_fn(T, LT, name, tests):
    """nb = 0; for node in self.nodes_iter(): if <tests>: nb += 1; return nb"""
    fn = LT[name]
    test = " and ".join("node.%s()" % t for t in tests)
    want = ["nb = 0", "for node in self.nodes_iter():\n    if %s:\n        nb += 1" % test, "return nb"]
    if [a.arg for a in fn.args.args] != ["self"] or [ast.unparse(x) for x in fn.body] != want:
        raise Unsupported("%s body" % name)
    for t in tests:
        sig = T.sigs[("tnode", t)]
        if sig["kind"] != "pure" or sig["rtype"] != "bool":
            raise Unsupported("%s test" % name)
    cond = " && ".join("%s v_node" % T.sigs[("tnode", t)]["coq"] for t in tests)
    T.out.append("Definition py_trie_%s (sg : py_pm) : option (py_pm * N) :=\n"
                 " (match py_trie_nodes_iter sg with\n | None => None\n | Some (v__items, sg) =>\n"
                 " Some (sg, fold_left (fun (v_nb : N) (v_node : py_node) => if (%s) then (N.add v_nb 1%%N) else v_nb) v__items 0%%N) end)."
                 % (name, cond))


def register(T, LT):
    """translate everything of GenTrieD.v into T.out and register the signatures (used by gen_traph.py as well)"""
    gen_fn(T, LT, "nodes_iter", [], "tnode")
    gen_fn(T, LT, "dfs_iter", [("starting_node", "otnode", "None"), ("starting_lru", "bytes", "(@nil N)"), ("skip_childless_paths", "bool", "false")],
           "pair:tnode:bytes", defaults={"starting_node": "None", "starting_lru": "b''", "skip_childless_paths": "False"})
    gen_fn(T, LT, "webentity_dfs_iter", [("starting_node", "tnode", None), ("starting_lru", "bytes", None), ("max_depth", "oN", "None")],
           "pair:tnode:bytes", defaults={"max_depth": "None"})
    filter_fn(T, LT, "pages_iter", "dfs_iter", "is_page")
    filter_fn(T, LT, "webentity_prefix_iter", "dfs_iter", "has_webentity")
    count_fn(T, LT, "count_pages", ["is_page"])
    count_fn(T, LT, "count_crawled_pages", ["is_page", "is_crawled"])


def main(out):
    T, _, TN, LT = GT.build()
    GW.register(T, TN, LT)
    T.out = []
    T.join_calls = True
    L = ["(* GENERATED by harness/gen_tried.py from %s/traph/lru_trie/lru_trie.py -- do not edit *)" % REPO,
         "From Coq Require Import List NArith Bool Arith.", "Import ListNotations.",
         "From Traph Require Import Bytes Consts Layout Codec GenStorage GenNode GenLinks GenTrie GenTrieW.",
         "From Traph Require GenHelpers2.", "", PREAMBLE]
    register(T, LT)
    text = "\n".join(L + T.out) + "\n"
    old = open(out).read() if os.path.exists(out) else None
    if old != text:
        with open(out, "w") as fh:
            fh.write(text)
    return 0


if __name__ == "__main__":
    try:
        sys.exit(main(sys.argv[1]))
    except Unsupported as e:
        print("gen_tried: UNSUPPORTED: %s" % e)
        sys.exit(3)
    except (KeyError, AttributeError, IndexError, TypeError) as e:
        print("gen_tried: UNSUPPORTED: unexpected source shape (%s: %s)" % (type(e).__name__, e))
        sys.exit(3)
