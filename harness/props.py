"""props.py — per-property configuration: theorem names, generator emphasis, runner."""
import glob
import json
import multiprocessing
import os
import random
from collections import Counter

import campaign as K
import core as C
import gen as G
import impl as I

HERE = os.path.dirname(os.path.abspath(__file__))
ROOT = os.path.dirname(HERE)

TRUSTED_BASE = [
    "Coq 8.16.1 kernel (coqc; vm_compute used for constants, finite sweeps and examples; no native_compute)",
    "no axioms: every property theorem is 'Closed under the global context' (checked by Print Assumptions on each run)",
    "hand-written Gallina model of traph/ (coq/theories/{Bytes,Helpers,Rules,Tst,Traph,Codec}.v) tied to /repo by "
    "(a) regenerated Consts.v/CallGraph.v (harness/gen_consts.py, gen_callgraph.py: Python ast + import) and "
    "(b) the correspondence run of this check (extracted model vs the real implementation on the same scripts)",
    "extraction: ExtrOcamlBasic directives only (bool, option, list, prod, unit, sumbool); N/positive extracted as inductives; "
    "no Extract Constant / Extract Inductive of our own; OCaml 4.13 + ocaml/driver.ml line parser",
    "Python semantics assumed as modelled (bytes order, struct, re, dict/Counter order, file I/O) and checked only differentially",
]


def _worker(job):
    seed, cfg = job
    try:
        return K.history(seed, cfg)
    except Exception as e:  # a harness failure must not be mistaken for a pass
        import traceback
        return {"seed": seed, "error": "%s: %s" % (type(e).__name__, e), "trace": traceback.format_exc()[-800:],
                "mismatches": [], "stats": {}, "ncmds": 0, "digest": 0, "nontrivial": False}


def pool_map(fn, jobs):
    n = min(16, os.cpu_count() or 4, max(1, len(jobs)))
    if n <= 1:
        return [fn(j) for j in jobs]
    with multiprocessing.Pool(n) as pool:
        return pool.map(fn, jobs, chunksize=max(1, len(jobs) // (n * 4)))


def corpus_jobs(prop):
    return sorted(glob.glob(os.path.join(ROOT, "corpus", prop, "*.json")))


def run_corpus_case(path):
    j = json.load(open(path))
    cmds = K.deser_cmds(j["script"])
    s, mm = K.static_run(cmds, j.get("metas"), j.get("groups"))
    out = []
    for m in mm:
        d = m.to_json()
        d["props"] = sorted(K.mismatch_props(m, cmds))
        out.append(d)
    return {"seed": os.path.basename(path), "mismatches": out, "script": j["script"], "metas": j.get("metas"),
            "groups": j.get("groups"), "stats": {}, "ncmds": len(cmds), "digest": hash(path) & 0xFFFFFFFF,
            "nontrivial": True}


def classify(prop, results, seed, allow_shrink=True):
    """turn raw per-history results into violations / known findings"""
    import check_main as M
    violations, known = [], []
    seen_sig = set()
    errors = [r for r in results if r.get("error")]
    for r in errors[:1]:
        violations.append({"property": prop, "failing_input": False,
                           "broken": "harness error: " + r["error"], "trace": r.get("trace"), "seed": r["seed"]})
    for r in results:
        mine = [m for m in r["mismatches"] if prop in m["props"]]
        if not mine:
            continue
        spec_mm = [m for m in mine if m["against"] == "spec"]
        unknown_spec = []
        for m in spec_mm:
            k = M.match_known(prop, m["note"])
            if k:
                line = "%s (e.g. seed %s, command %d)" % (k["what"], r["seed"], m["index"])
                if k["signature"] not in seen_sig:
                    seen_sig.add(k["signature"])
                    known.append(line)
            else:
                unknown_spec.append(m)
        model_mm = [m for m in mine if m["against"] == "model"]
        if unknown_spec:
            m = unknown_spec[0]
            sig = ("spec", m["note"])
            if sig in seen_sig:
                continue
            seen_sig.add(sig)
            cmds = K.deser_cmds(r["script"])
            metas, groups = r.get("metas") or [{}] * len(cmds), r.get("groups") or []
            best = None
            if allow_shrink:
                try:
                    cmds, metas, groups, best = K.shrink(cmds, metas, groups, prop, sig)
                except Exception:
                    best = None
            violations.append({"property": prop, "failing_input": True, "seed": r["seed"],
                               "what": m["note"], "mismatch": (best.to_json() if best else m),
                               "script": K.ser_cmds(cmds), "metas": metas, "groups": groups,
                               "how_to_replay": "./check %s --replay <this file>" % prop})
        elif model_mm and not spec_mm:
            m = model_mm[0]
            sig = ("model", m["op"])
            if sig in seen_sig:
                continue
            seen_sig.add(sig)
            violations.append({"property": prop, "failing_input": False, "seed": r["seed"],
                               "broken": "correspondence: the implementation and the model disagree on command %d (opcode %d) "
                                         "of this script; the specification oracle found no input on which the property itself fails"
                                         % (m["index"], m["op"]),
                               "mismatch": m, "script": r["script"], "metas": r.get("metas"), "groups": r.get("groups")})
    return violations[:5], known


def coverage(results, rule):
    stats = Counter()
    for r in results:
        for k, v in r.get("stats", {}).items():
            stats[k] += v
    digests = set(r["digest"] for r in results if r.get("nontrivial"))
    samples = [r["sample"] for r in results if r.get("sample")][:2]
    if not samples:
        samples = [r.get("script", [])[:12] for r in results[:1]]
    return {
        "evaluations": len(results),
        "distinct_nontrivial": len(digests),
        "rule": rule,
        "samples": samples,
        "traces_validated_against_impl": sum(r.get("ncmds", 0) for r in results),
        "distribution": dict(sorted(stats.items())),
    }


def hist_runner(cfg_quick, cfg_thorough, n_quick, n_thorough, rule):
    def run(prop, tier, seed, replay):
        if replay:
            j = json.load(open(replay))
            r = run_corpus_case(replay)
            v, k = classify(prop, [r], seed, allow_shrink=False)
            return {"violations": v, "known": k, "cov": coverage([r], "replay of " + replay)}
        cfg = dict(cfg_thorough if tier == "thorough" else cfg_quick)
        n = n_thorough if tier == "thorough" else n_quick
        results = [run_corpus_case(p) for p in corpus_jobs(prop)]
        jobs = [(seed * 100003 + i, cfg) for i in range(n)]
        results += pool_map(_worker, jobs)
        v, k = classify(prop, results, seed)
        return {"violations": v, "known": k, "cov": coverage(results, rule)}
    return run


def mix(**kw):
    m = dict(G.DEFAULT_MIX)
    m.update(kw)
    return m


RULE = ("random request histories from one PRNG (seed, index): %d write requests drawn from the weighted mix of all 13 request kinds "
        "over a small LRU grammar (colliding prefixes, stems of the critical lengths 73..300, bytes around '|', 's:http'/'h:' text in paths), "
        "observation sweeps of the read requests of this property in between and at the end; executed on the real implementation, "
        "replayed on the extracted model and specification; a case is non-trivial when it has >= 5 write requests, distinct by the "
        "hash of its write requests")

PROPS = {}


def reg(pid, theorems, focus, nq=120, nt=4000, nw=25, depth=1, mixkw=None, extra=None, **more):
    cfgq = {"nw": nw, "focus": focus, "depth": depth, "mix": mix(**(mixkw or {})), "bytes": 43 in focus,
            "observe_p": 0.15}
    if extra:
        cfgq["extra"] = extra
    cfgt = dict(cfgq, nw=nw + 15, depth=2)
    PROPS[pid] = dict({"theorems": theorems, "runner": hist_runner(cfgq, cfgt, nq, nt, RULE % nw)}, **more)


reg("C01", ["C01_pages", "C01_counts", "C01_reports"], K.FACET_OPS["C01"])
reg("C02", ["C02_find", "C02_windup", "stem_roundtrip"], K.FACET_OPS["C02"])
reg("C03", ["C03_out", "C03_in", "C03_count"], K.FACET_OPS["C03"], mixkw={"add_links": 30, "batch": 20})
reg("C04", ["C04_resolve", "C04_prefmap"], K.FACET_OPS["C04"],
    mixkw={"create_we": 16, "delete_we": 10, "add_prefix": 12, "remove_prefix": 10, "move_prefix": 8})
reg("C05", ["C05_under"], K.FACET_OPS["C05"], mixkw={"create_we": 16, "add_prefix": 10})
reg("C06", ["C06_create"], K.FACET_OPS["C06"], mixkw={"add_rule": 14, "remove_rule": 4})
reg("C07", ["C07_net"], K.FACET_OPS["C07"], depth=2, nq=100, mixkw={"add_links": 30, "batch": 20, "create_we": 14})
reg("C08", ["C08_pagelinks"], K.FACET_OPS["C08"], mixkw={"add_links": 30, "batch": 20, "create_we": 14})
reg("C09", ["token_roundtrip", "ino_sorted", "C09_chunks"], K.FACET_OPS["C09"], mixkw={"add_page": 50, "add_pages": 20, "create_we": 14})
reg("C10", ["C10_chunks"], K.FACET_OPS["C10"], mixkw={"add_links": 35, "batch": 20, "create_we": 14})
reg("C12", ["C12_fresh"], set(), mixkw={"create_we": 16, "delete_we": 10, "add_rule": 10, "reopen": 10})
reg("C13", ["C13_parents", "C13_children"], K.FACET_OPS["C13"], mixkw={"create_we": 18, "add_prefix": 12, "move_prefix": 8, "add_rule": 10})
reg("C19", ["C19_trie_blocks", "C19_links"], K.FACET_OPS["C19"])
reg("C20", ["C20_topk"], K.FACET_OPS["C20"], mixkw={"add_links": 35, "batch": 20, "create_we": 14})


# ---- C14: queries never modify the index (dynamic facet next to the call-graph theorem) -------------
def _c14_worker(job):
    seed, cfg = job
    import session as S
    rng = random.Random(seed)
    s = S.Session(rng, cfg["backend"], record=True)
    try:
        s.do(1, [rng.choice([0, 1]), []])
        s.ro_check = True
        for i in range(cfg["nw"]):
            op, args = G.gen_write(rng, s.tr, G.DEFAULT_MIX)
            s.do(op, args)
            if rng.random() < 0.2:
                s.observe(1, None)
        s.observe(2, None)
        # calls that fail with the library's own error, unknown webentities, absent LRUs
        for _ in range(6):
            l = G.gen_lru(rng)
            for op, a in ((20, [l]), (21, [l]), (22, [l]), (23, [l]), (24, [99, [l]]), (27, [99, [l], 3, None]),
                          (28, [99, [l]]), (29, [99, [l]]), (30, [99, [l], 0, 0, 0]), (30, [99, [l], 1, 1, 1]),
                          (31, [99, [l], 0, 0, 1, None]), (32, [1, 99, [l]]), (33, [l, 1, 1, 1]),
                          (26, [99, [l], 2, None, 0])):
                s.do(op, a)
        v = getattr(s, "ro_violations", [])
        res = {"seed": seed, "ncmds": len(s.cmds), "queries": getattr(s, "ro_queries", 0), "ro_violations": v,
               "digest": hash(tuple(K.ser_cmds([c for c in s.cmds if c[0] in C.WRITE_OPS]))) & 0xFFFFFFFF,
               "nontrivial": True, "stats": dict(Counter("op%d" % c[0] for c in s.cmds)), "mismatches": []}
        if v:
            res["script"] = K.ser_cmds(s.cmds[: v[0]["index"] + 1])
        else:
            res["sample"] = K.ser_cmds(s.cmds[:10])
        return res
    except Exception as e:
        import traceback
        return {"seed": seed, "error": "%s: %s" % (type(e).__name__, e), "trace": traceback.format_exc()[-600:],
                "ncmds": 0, "ro_violations": [], "digest": 0, "nontrivial": False, "stats": {}, "mismatches": []}
    finally:
        s.close()


def c14_runner(prop, tier, seed, replay):
    n = 400 if tier == "thorough" else 24
    jobs = []
    for i in range(n):
        jobs.append((seed * 100003 + i, {"backend": "f" if i % 3 else "m", "nw": 30 if tier == "thorough" else 18}))
    results = pool_map(_c14_worker, jobs)
    violations = []
    for r in results:
        if r.get("error"):
            violations.append({"property": prop, "failing_input": False, "broken": "harness error: " + r["error"],
                               "trace": r.get("trace")})
            break
    for r in results:
        if r["ro_violations"]:
            v = r["ro_violations"][0]
            violations.append({"property": prop, "failing_input": True, "seed": r["seed"],
                               "what": "read request (opcode %d) changed the stores: %r" % (v["op"], v),
                               "script": r["script"], "failing_command": v["index"]})
            break
    cov = coverage(results, "random histories (file and memory back-ends); around EVERY read request (all query kinds, "
                            "successful, refused, unknown webentity, absent LRU) the bytes of both stores and the recorded "
                            "storage writes are compared before/after on the real implementation")
    cov["read_requests_checked"] = sum(r.get("queries", 0) for r in results)
    return {"violations": violations, "known": [], "cov": cov}


PROPS["C14"] = {"theorems": ["C14_no_writer_reachable"], "runner": c14_runner,
                "trusted": ["gen_callgraph.py: name-based call resolution with arity filtering (over-approximation); closed lists of "
                            "read-only API roots and of store-mutating primitives; getattr/eval dispatch rejected"],
                "assumptions": ["no dynamic dispatch through getattr/monkey-patching inside the package (rejected by the translator)"]}


# ---- C17: prefix variations (pure function; exhaustive small grammar + random) ----------------------
def c17_family(lru):
    """membership in the family of the property: scheme, optional port, contiguous hosts not ending in two www,
    then stems that do not start with 'h:'"""
    stems = lru.split(b"|")
    if not lru.endswith(b"|") or len(stems) < 2:
        return False
    stems = stems[:-1]
    if not stems[0].startswith(b"s:") or b":" in stems[0][2:]:
        return False
    i = 1
    if i < len(stems) and stems[i].startswith(b"t:"):
        if b":" in stems[i][2:]:
            return False
        i += 1
    hosts = []
    while i < len(stems) and stems[i].startswith(b"h:"):
        hosts.append(stems[i])
        i += 1
    if len(hosts) >= 2 and hosts[-1] == b"h:www" and hosts[-2] == b"h:www":
        return False
    return not any(s.startswith(b"h:") or s.startswith(b"s:") and False for s in stems[i:])


def c17_cases(tier, seed):
    import itertools
    rng = random.Random(seed)
    cases = []
    schemes = [b"http", b"https", b"ftp", b"httpx"]
    ports = [None, b"80"]
    hostsets = [[]]
    names = [b"com", b"a", b"www"]
    for n in (1, 2, 3):
        for combo in itertools.product(names, repeat=n):
            hostsets.append(list(combo))
    rests = [[], [b"p:x"], [b"p:s:http"], [b"p:s:https", b"q:h:a"], [b"p:h:www"], [b"p:xs:http", b"f:h:com"],
             [b"p:" + b"y" * 80], [b"p:\x7f\x00"]]
    for sc, po, hs, rs in itertools.product(schemes, ports, hostsets, rests):
        st = [b"s:" + sc] + ([b"t:" + po] if po else []) + [b"h:" + h for h in hs] + rs
        cases.append(b"".join(x + b"|" for x in st))
    n = 3000 if tier == "thorough" else 400
    for _ in range(n):
        cases.append(G.gen_lru(rng, weird=0.4))
    if tier != "thorough":
        rng.shuffle(cases)
        cases = cases[:1400]
    return cases


def c17_runner(prop, tier, seed, replay):
    cases = c17_cases(tier, seed)
    if replay:
        cases = [bytes.fromhex(x) for x in json.load(open(replay))["inputs"]]
    im = I.Impl("m")
    violations, stats = [], Counter()
    try:
        got = [im.exec(40, [l]) for l in cases]
        model = C.run_driver([(40, [l]) for l in cases])
        seen = set()
        for l, g, m in zip(cases, got, model):
            fam = c17_family(l)
            stats["family" if fam else "outside_family"] += 1
            stats["variations_%s" % (len(g) if isinstance(g, list) else "err")] += 1
            note = None
            if fam:
                if C.is_err(g):
                    note = "expansion failed: %s" % getattr(g, "detail", g)
                elif not g or g[0] != l:
                    note = "the prefix itself is not listed first"
                elif len(set(g)) != len(g):
                    note = "an entry is listed twice"
                else:
                    for v in g:
                        gv = im.exec(40, [v])
                        if C.is_err(gv) or set(gv) != set(g):
                            note = "not closed: expanding the member %r yields a different set" % v
                            break
                if note and note not in seen:
                    seen.add(note)
                    violations.append({"property": prop, "failing_input": True, "what": note, "inputs": [l.hex()],
                                       "lru": repr(l), "got": I.fmt(g)})
            if not C.eq(g, m[0]) and "corr" not in seen and not (fam and note):
                seen.add("corr")
                violations.append({"property": prop, "failing_input": False, "inputs": [l.hex()], "lru": repr(l),
                                   "broken": "correspondence: lru_variations differs between the implementation and the model",
                                   "implementation": I.fmt(g), "model": I.fmt(m[0])})
    finally:
        im.close()
    # a correspondence break with a failing input elsewhere: keep only the failing inputs first
    violations.sort(key=lambda v: 0 if v.get("failing_input") else 1)
    cov = {"evaluations": len(cases), "distinct_nontrivial": len(set(c for c in cases if c.count(b"|") >= 3)),
           "rule": "all LRUs of a small grammar (4 schemes x optional port x host lists of length 0..3 over {com,a,www} x 8 tails "
                   "including 's:http'/'h:' text, an 80-byte stem and bytes around '|') plus random LRUs of the history grammar; each is "
                   "expanded by the real lru_variations and by the model; for family members the four clauses are checked on the "
                   "implementation (closure by expanding every member). non-trivial: at least 3 stems",
           "samples": [repr(c) for c in cases[:6]], "traces_validated_against_impl": len(cases),
           "distribution": dict(stats), "exhaustive": tier == "thorough"}
    return {"violations": violations[:4], "known": [], "cov": cov}


PROPS["C17"] = {"theorems": ["C17_head", "C17_nodup", "C17_shape", "C17_closed"], "runner": c17_runner, "min_closed": 4,
                "assumptions": ["family: scheme and port bodies contain no ':' (otherwise the text 'h:' could start inside them)"]}
