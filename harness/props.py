"""props.py — per-property configuration: theorem names, generator emphasis, runner."""
import glob
import json
import multiprocessing
import os
import random
from collections import Counter

import campaign as K
import core as C
import gen as G
import impl as I

HERE = os.path.dirname(os.path.abspath(__file__))
ROOT = os.path.dirname(HERE)

TRUSTED_BASE = [
    "Coq 8.16.1 kernel (coqc; vm_compute used for constants, finite sweeps and examples; no native_compute)",
    "no axioms: every property theorem is 'Closed under the global context' (checked by Print Assumptions on each run)",
    "hand-written Gallina model of traph/ (coq/theories/{Bytes,Helpers,Rules,Tst,Traph,Codec}.v) tied to /repo by "
    "(a) regenerated Consts.v/CallGraph.v (harness/gen_consts.py, gen_callgraph.py: Python ast + import) and "
    "(b) the correspondence run of this check (extracted model vs the real implementation on the same scripts)",
    "translators from the Python AST to Gallina, run on every check (harness/gen_helpers.py, gen_helpers2.py, gen_storage.py, gen_node.py, "
    "gen_links.py, gen_trie.py, gen_triew.py, gen_tried.py, gen_triei.py, gen_traph*.py, gen_helpers3.py): the Python subset each "
    "accepts and the Gallina it emits for it (raises as None, loops on fuel, generator requests with their sequential meaning, dicts and sets "
    "as insertion-ordered association lists, regex search as the modelled matcher Rules.apply_rule, textual checks of __encode / "
    "TraphIteratorState / run_iterator / TraphWriteReport, heapq / int() / re.compile as modelled primitives, a generator whose consumer writes read "
    "as a visitor called at every yield, the head of Traph.__init__ / on-disk clear / close pinned by digest); the Gen*Facts.v files prove the "
    "translated functions equal to the model",
    "extraction: ExtrOcamlBasic directives only (bool, option, list, prod, unit, sumbool); N/positive extracted as inductives; "
    "no Extract Constant / Extract Inductive of our own; OCaml 4.13 + ocaml/driver.ml line parser",
    "Python semantics assumed as modelled (bytes order, struct, re, dict/Counter order, file I/O) and checked only differentially",
]


def _worker(job):
    seed, cfg = job
    try:
        return K.history(seed, cfg)
    except Exception as e:  # a harness failure must not be mistaken for a pass
        import traceback
        return {"seed": seed, "error": "%s: %s" % (type(e).__name__, e), "trace": traceback.format_exc()[-800:],
                "mismatches": [], "stats": {}, "ncmds": 0, "digest": 0, "nontrivial": False}


def pool_map(fn, jobs):
    n = min(16, os.cpu_count() or 4, max(1, len(jobs)))
    if n <= 1:
        res = [fn(j) for j in jobs]
    else:
        with multiprocessing.Pool(n) as pool:
            res = pool.map(fn, jobs, chunksize=max(1, len(jobs) // (n * 4)))
            pool.close()
            pool.join()             # let the workers exit normally (a coverage measurement of /repo flushes its data then)
    for r, j in zip(res, jobs):
        if isinstance(r, dict) and isinstance(j, tuple) and len(j) == 2:
            try:
                json.dumps(j[1])
                r["job"] = [j[0], j[1]]
            except TypeError:
                r["job"] = [j[0], None]
    return res


def replay_jobs(replay):
    """a replay file of the special runners carries the job (seed, configuration) that produced it"""
    j = json.load(open(replay))
    job = j.get("job")
    if job and job[1] is not None:
        return [(job[0], job[1])]
    return None


def corpus_jobs(prop):
    return sorted(glob.glob(os.path.join(ROOT, "corpus", prop, "*.json")))


def run_corpus_case(path):
    j = json.load(open(path))
    cmds = K.deser_cmds(j["script"])
    s, mm = K.static_run(cmds, j.get("metas"), j.get("groups"))
    out = []
    for m in mm:
        d = m.to_json()
        d["props"] = sorted(K.mismatch_props(m, cmds))
        out.append(d)
    return {"seed": os.path.basename(path), "mismatches": out, "script": j["script"], "metas": j.get("metas"),
            "groups": j.get("groups"), "stats": {}, "ncmds": len(cmds), "digest": hash(path) & 0xFFFFFFFF,
            "nontrivial": True}


def classify(prop, results, seed, allow_shrink=True):
    """turn raw per-history results into violations / known findings"""
    import check_main as M
    violations, known = [], []
    seen_sig = set()
    errors = [r for r in results if r.get("error")]
    for r in errors[:1]:
        violations.append({"property": prop, "failing_input": False,
                           "broken": "harness error: " + r["error"], "trace": r.get("trace"), "seed": r["seed"]})
    for r in results:
        mine = [m for m in r["mismatches"] if prop in m["props"]]
        if not mine:
            continue
        spec_mm = [m for m in mine if m["against"] == "spec"]
        unknown_spec = []
        for m in spec_mm:
            k = M.match_known(prop, m["note"])
            if k:
                line = "%s (e.g. seed %s, command %d)" % (k["what"], r["seed"], m["index"])
                if k["signature"] not in seen_sig:
                    seen_sig.add(k["signature"])
                    known.append(line)
            else:
                unknown_spec.append(m)
        model_mm = [m for m in mine if m["against"] == "model"]
        if unknown_spec:
            m = unknown_spec[0]
            sig = ("spec", m["note"])
            if sig in seen_sig:
                continue
            seen_sig.add(sig)
            cmds = K.deser_cmds(r["script"])
            metas, groups = r.get("metas") or [{}] * len(cmds), r.get("groups") or []
            best = None
            if allow_shrink and len(violations) < 2:
                try:
                    cmds, metas, groups, best = K.shrink(cmds, metas, groups, prop, sig)
                except Exception:
                    best = None
            violations.append({"property": prop, "failing_input": True, "seed": r["seed"], "job": r.get("job"),
                               "what": m["note"], "mismatch": (best.to_json() if best else m),
                               "script": K.ser_cmds(cmds), "metas": metas, "groups": groups,
                               "how_to_replay": "./check %s --replay <this file>" % prop})
        elif model_mm and not spec_mm:
            m = model_mm[0]
            sig = ("model", m["op"])
            if sig in seen_sig:
                continue
            seen_sig.add(sig)
            violations.append({"property": prop, "failing_input": False, "seed": r["seed"],
                               "broken": "correspondence: the implementation and the model disagree on command %d (opcode %d) "
                                         "of this script; the specification oracle found no input on which the property itself fails"
                                         % (m["index"], m["op"]),
                               "mismatch": m, "script": r["script"], "metas": r.get("metas"), "groups": r.get("groups")})
    # the violations that come with a failing input first: they are what a reader needs
    violations.sort(key=lambda v: 0 if v.get("failing_input") else 1)
    return violations[:5], known


def coverage(results, rule):
    stats = Counter()
    for r in results:
        for k, v in r.get("stats", {}).items():
            stats[k] += v
    digests = set(r["digest"] for r in results if r.get("nontrivial"))
    def short(cmds):
        return [c if len(c) <= 220 else c[:200] + "...(%d chars)" % len(c) for c in cmds]
    samples = [short(r["sample"]) for r in results if r.get("sample")][:2]
    if not samples:
        samples = [short(r.get("script", [])[:12]) for r in results[:1]]
    return {
        "evaluations": len(results),
        "distinct_nontrivial": len(digests),
        "rule": rule,
        "samples": samples,
        "traces_validated_against_impl": sum(r.get("ncmds", 0) for r in results),
        "distribution": dict(sorted(stats.items())),
    }


def helper_sweep(kinds):
    """pure helper functions: the real function and the model on the same generated inputs"""
    def run(prop, tier, seed):
        rng = random.Random(seed + 11)
        n = 3000 if tier == "thorough" else 400
        cmds = []
        for _ in range(n):
            k = rng.choice(kinds)
            if k == "token":
                i = rng.choice([0, 1, 2, 7, 10, 123, rng.randrange(10 ** 6)])
                path = rng.choice([0, 1, 2, 3, 6, 9, 27, rng.randrange(4 ** 12), rng.randrange(4 ** 40), 64, 63, 4095, 4096])
                cmds.append((61, [i, path]))
                tok = rng.choice([b"", b"#", b"1#", b"#1", b"12#ab#c", b"1#a b", b"x#1", b"3#-_Zz09", b"007#0", b"5#~"])
                cmds.append((62, [tok]))
                cmds.append((66, [rng.choice([0, 1, 5, 4 ** 31, 4 ** 32 - 1, 4 ** 33 + 7, rng.randrange(4 ** 45), 2 ** 64 - 1, 2 ** 64]),
                                  rng.choice([1, 2, 3])]))
            elif k == "rule":
                l = G.gen_lru(rng, weird=0.3)
                if rng.random() < 0.3:
                    l = l.replace(b"s:", rng.choice([b"S:", b"s:", b"xs:"]), 1).replace(b"h:", rng.choice([b"H:", b"h:"]), 1)
                cmds.append((63, [rng.choice([0, 1, 2, 3, 4, 5]), l]))
            elif k == "chunks":
                ln = rng.choice(G.CRIT_LENGTHS + [1, 2, 74 * 3, 74 * 4, 74 * 5, 74 * 4 + 1, rng.randint(1, 600)])
                cmds.append((64, [bytes(rng.randrange(256) for _ in range(ln)).replace(b"|", b"!") + b"|"]))
            else:
                l = G.gen_lru(rng, weird=0.3)
                if rng.random() < 0.3:
                    l = l + rng.choice([b"p:tail", b"", b"|", b"||"])
                cmds.append((60, [l]))
                cmds.append((65, [l]))
        im = I.Impl("m")
        viol = []
        try:
            got = [im.exec(op, args) for op, args in cmds]
            # chain: tokens built by the implementation parse back (on both sides)
            extra = [(62, [g]) for (op, args), g in zip(cmds, got) if op == 61 and isinstance(g, bytes)]
            got += [im.exec(op, args) for op, args in extra]
            cmds = cmds + extra
            model = C.run_driver(cmds)
            built = iter([args for op, args in cmds if op == 61])
            for (op, args), g, m in zip(cmds, got, model):
                if not C.eq(g, m[0]) and not viol:
                    viol.append({"property": prop, "failing_input": False,
                                 "broken": "correspondence: helper opcode %d differs between implementation and model" % op,
                                 "input": I.fmt(args), "implementation": I.fmt(g), "model": I.fmt(m[0])})
            # round trip on the implementation itself
            n61 = [(args, g) for (op, args), g in zip(cmds, got) if op == 61]
            back = got[len(got) - len(extra):]
            for (args, tok), b in zip(n61, back):
                if not C.eq(b, list(args)) and not any(v.get("failing_input") for v in viol):
                    viol.insert(0, {"property": prop, "failing_input": True,
                                    "what": "token %r built for (prefix index, path) = %r parses back as %r" % (tok, args, b)})
        finally:
            im.close()
        return viol[:2], {"helper_cases": len(cmds)}
    return run


def hist_runner(cfg_quick, cfg_thorough, n_quick, n_thorough, rule, sweep=None):
    def run(prop, tier, seed, replay):
        if replay:
            j = json.load(open(replay))
            r = run_corpus_case(replay)
            v, k = classify(prop, [r], seed, allow_shrink=False)
            return {"violations": v, "known": k, "cov": coverage([r], "replay of " + replay)}
        cfg = dict(cfg_thorough if tier == "thorough" else cfg_quick)
        n = n_thorough if tier == "thorough" else n_quick
        results = [run_corpus_case(p) for p in corpus_jobs(prop)]
        jobs = [(seed * 100003 + i, cfg) for i in range(n)]
        results += pool_map(_worker, jobs)
        v, k = classify(prop, results, seed)
        cov = coverage(results, rule)
        if sweep is not None:
            sv, scov = sweep(prop, tier, seed)
            v = v + sv
            cov.update(scov)
        return {"violations": v, "known": k, "cov": cov}
    return run


def mix(**kw):
    m = dict(G.DEFAULT_MIX)
    m.update(kw)
    return m


RULE = ("random request histories from one PRNG (seed, index): %d write requests drawn from the weighted mix of all 13 request kinds "
        "over a small LRU grammar (colliding prefixes, stems of the critical lengths 73..300, bytes around '|', 's:http'/'h:' text in paths), "
        "observation sweeps of the read requests of this property in between and at the end; executed on the real implementation, "
        "replayed on the extracted model and specification; a case is non-trivial when it has >= 5 write requests, distinct by the "
        "hash of its write requests")

def deep_tree(s, rng):
    """paths longer than 32 moves: a degenerate right chain of sibling pages, and a URL with many stems"""
    if rng.random() > 0.12:
        return
    host = rng.choice([b"deep", b"sorted"])
    base = b"s:http|h:com|h:" + host + b"|"
    n = rng.choice([34, 36, 40, 50, 66])
    if rng.random() < 0.5:
        pages = [base + b"p:page%02d|" % i for i in range(n)]                 # ascending: a right chain
    else:
        pages = [base + b"".join(b"p:d%d|" % j for j in range(i + 1)) for i in range(n)]   # a child chain
    s.notes = getattr(s, "notes", [])
    s.notes.append("deep_tree_%d" % n)
    for i in range(0, n, 8):
        s.do(3, [pages[i:i + 8], rng.randint(0, 1)])
    if rng.random() < 0.5:
        s.do(4, [[[pages[k], pages[(k * 7 + 1) % n]] for k in range(0, n, 3)]])
    wes = s.webentities()
    for w, ps in wes.items():
        if any(p.startswith(base) or base.startswith(p) for p in ps):
            for k in (rng.choice([1, 2, 3]), rng.choice([16, 31, 32, 33])):
                s.paginate_pages(w, ps, k, 0, True)
                s.paginate_links(w, ps, 1, 1, k, True)
            break


def multi_prefix(s, rng):
    """pagination across the prefixes of one webentity: pages under the http and the https variation of a site, the two
    sub-trees of different shape (insertion order), the first pages of the later prefix uncrawled / with links that a
    filter rejects, every small page size in every mode - the page boundary then falls on every position, in particular
    exactly between two prefixes"""
    if rng.random() > 0.15:
        return
    s.notes = getattr(s, "notes", [])
    s.notes.append("multi_prefix")
    host = rng.choice([b"mp", b"mq"])
    A, B = b"s:http|h:com|h:" + host + b"|", b"s:https|h:com|h:" + host + b"|"
    other = [b"s:http|h:org|h:other%d|p:o|" % i for i in range(2)]
    tails = [b"p:a|", b"p:b|", b"p:m|", b"p:m|p:k|", b"p:x|", b"p:x|p:y|", b""]
    under = {}
    for base in (A, B):
        ts = rng.sample(tails, rng.randint(3, 6))
        rng.shuffle(ts)
        under[base] = [base + t for t in ts]
        for l in under[base]:
            # the later prefix tends to start with uncrawled pages
            cr = rng.randint(0, 1) if base == A else (0 if rng.random() < 0.6 else 1)
            s.do(2, [l, cr])
    links = []
    for base in (A, B):
        for l in under[base]:
            r = rng.random()
            if r < 0.35:
                links += [[l, rng.choice(other)]]                                     # outbound only
            elif r < 0.7:
                links += [[l, rng.choice(under[A] + under[B])]]                        # internal
            elif r < 0.85:
                links += [[l, rng.choice(other)], [l, rng.choice(under[A] + under[B])]]
    if links:
        s.do(4, [links])
    wes = s.webentities()
    for w, ps in wes.items():
        if A in ps or B in ps:
            for k in (1, 2, 3, rng.choice([4, 5, 6])):
                s.paginate_pages(w, ps, k, 0, True)
                s.paginate_pages(w, ps, k, 1, True)
                for internal, outbound in ((1, 0), (0, 1), (1, 1)):
                    s.paginate_links(w, ps, internal, outbound, k, True)
            break


def mutating_pagination(s, rng):
    """pages inserted between two pagination calls (the 'resumable' clause): plain insertions next to and below the pages
    already served, and insertions that make a creation rule fire again above the page the token points at (the child
    webentities of a path rule were deleted, their pages fell back to the parent)"""
    if rng.random() > 0.25:
        return
    s.notes = getattr(s, "notes", [])
    s.notes.append("mutating_pagination")
    R = b"s:http|h:com|h:rc%d|" % rng.randint(0, 1)
    conts = [b"p:europe|", b"p:asia|", b"p:oceania|"]
    with_rule = rng.random() < 0.6
    if with_rule:
        s.do(2, [R, 0])
        s.do(11, [R, 2])
    pages = [R + c + t for c in conts for t in rng.sample([b"p:a|", b"p:b|", b"p:m|", b"p:z|", b""], rng.randint(1, 3))]
    rng.shuffle(pages)
    s.do(3, [pages, rng.randint(0, 1)])
    wes = s.webentities()
    if with_rule:
        for w, ps in list(wes.items()):
            if any(p.startswith(R) and p != R and R + b"h:www|" != p for p in ps) and not any(p == R for p in ps):
                s.do(7, [w, list(ps)])                                  # the pages fall back to the site's webentity
        wes = s.webentities()
    target = [w for w, ps in wes.items() if R in ps]
    if not target:
        return
    w, ps = target[0], list(wes[target[0]])
    for k in (1, 2, rng.choice([3, 4])):
        n = [0]

        def between(step, k=k):
            if rng.random() < 0.6:
                n[0] += 1
                c = rng.choice(conts)
                s.do(2, [R + c + b"p:new%d%d|" % (k, n[0]), rng.randint(0, 1)])
        s.paginate_pages(w, ps, k, rng.choice([0, 0, 1]), True, between=between)
        # undo the webentities the rule re-created, so that the next round starts from the same situation
        if with_rule:
            for w2, ps2 in list(s.webentities().items()):
                if w2 != w and any(p.startswith(R) for p in ps2):
                    s.do(7, [w2, list(ps2)])


def second_index(s, rng):
    """another index opened, filled, cleared and closed in the same process while this one is in use: nothing of it may
    leak into this one (module-level state shared between Traph objects)"""
    if rng.random() > 0.2:
        return
    s.notes = getattr(s, "notes", [])
    s.notes.append("second_index")
    s.do(6, [[b"s:http|h:org|h:before%d|" % rng.randint(0, 9)]])
    other = I.Impl("m" if rng.random() < 0.5 else "f")
    try:
        other.exec(1, [0, []])
        for i in range(rng.randint(1, 4)):
            other.exec(2, [b"s:http|h:com|h:elsewhere%d|p:x|" % i, 1])
        if rng.random() < 0.5:
            other.exec(14, [None, None])
        if other.backend == "f" and rng.random() < 0.5:
            other.exec(13, [0, []])
    finally:
        other.close()
    s.do(6, [[b"s:http|h:org|h:after%d|" % rng.randint(0, 9)]])
    s.do(2, [b"s:http|h:org|h:afterpage%d|p:a|" % rng.randint(0, 9), 1])
    if s.impl.backend == "f":
        s.do(13, [s.tr.dflt, [[p, kd] for p, kd in s.tr.rules]])
        s.do(6, [[b"s:http|h:org|h:afterreopen%d|" % rng.randint(0, 9)]])


def flag_churn(s, rng):
    """every flag and register of a node whose stem spans several blocks is set and unset in turn (rule anchor, webentity
    prefix, page, crawled, child, links); the node must stay findable with its whole stem"""
    if rng.random() > 0.15:
        return
    s.notes = getattr(s, "notes", [])
    s.notes.append("flag_churn")
    n = rng.choice([72, 73, 80, 146, 150, 230])
    L = b"s:http|h:com|h:churn|p:" + rng.choice([b"x", b"~"]) * n + b"|"
    s.do(2, [L + b"p:below|", 0])
    s.do(11, [L, rng.choice([2, 3])])
    s.do(12, [L])
    s.do(6, [[L]])
    s.do(2, [L, 1])
    w = s.do(20, [L])
    if isinstance(w, int):
        s.do(9, [L, w])
        s.do(8, [L, w])
        s.do(7, [w, [L]])
    s.do(4, [[[L, L + b"p:below|"], [L + b"p:below|", L]]])
    s.do(11, [L, 2])
    s.do(12, [L])
    for l in (L, L + b"p:below|", L + b"p:absent|"):
        for op in (20, 21, 22, 41, 47, 33):
            s.do(op, [l] + ([1, 1, 1] if op == 33 else []))
    s.do(42, [])
    s.do(35, [])
    s.do(39, [])


def big_batch(s, rng):
    """one crawl batch large enough for the indexing generator to reach its yield points in the middle of a source's
    target list (yield_frequency = 50 newly created pages), with repeated targets, a self link and a second source"""
    if rng.random() > 0.1:
        return
    s.notes = getattr(s, "notes", [])
    s.notes.append("big_batch")
    site = b"s:http|h:com|h:bigbatch%d|" % rng.randint(0, 1)
    n = rng.choice([49, 50, 51, 60, 101])
    targets = [site + b"p:post%03d|" % i for i in range(n)]
    src, src2 = site + b"p:archive|", site + b"p:post001|"
    data = [[src, targets[: n // 2] + [src] + targets[n // 2:] + [targets[0]]], [src2, [targets[3], src, site + b"p:late|"]]]
    if rng.random() < 0.5:
        data.reverse()
    s.do(5, [data])
    for l in (src, src2, targets[0], targets[n // 2], targets[-1]):
        s.do(33, [l, 1, 1, 1])
        s.do(46, [l])
    s.do(38, [])
    s.do(37, [1])
    s.do(37, [0])
    s.do(35, [])


def dropped_batch(s, rng):
    """a crawl batch dropped half-way (its generator closed after a few steps), between two readings of the counts; then
    the same batch submitted to its end.  The specification state is not consulted after the drop (what a half-run batch
    leaves is the model's business); the counts are judged against the page enumeration of the same moment, and every
    enumerated page must be one that was submitted."""
    if rng.random() > 0.15:
        return
    s.notes = getattr(s, "notes", [])
    s.notes.append("dropped_batch")
    site = b"s:http|h:com|h:dropped%d|" % rng.randint(0, 1)
    n = rng.randint(3, 9)
    targets = [site + b"p:t%d|" % i for i in range(n)]
    src = rng.choice(s.tr.pages) if s.tr.pages and rng.random() < 0.5 else site
    data = [[src, targets]]
    if rng.random() < 0.5:
        data.append([targets[0], [src, site + b"p:late|"]])
    s.do(38, [])
    s.abandon(rng, given=([[0, data]], [0] * rng.randint(1, n), 0))
    s.do(35, [])
    s.do(38, [])
    s.do(39, [])
    if rng.random() < 0.5:
        s.do(21, [targets[0]])
        s.do(35, [])
        s.do(38, [])
    s.do(5, [data])
    s.do(35, [])
    s.do(38, [])


def high_ids(s, rng):
    """a webentity whose id no longer fits one byte (the caller may choose the id when attaching a prefix), with nested own
    prefixes (the www variation) and a nested foreign webentity: the per-webentity queries on exactly that one"""
    if rng.random() > 0.1:
        return
    s.notes = getattr(s, "notes", [])
    s.notes.append("high_ids")
    W = rng.choice([257, 300, 511, 65537, 1000000])
    site = b"s:http|h:com|h:big%d|" % W
    ssite = b"s:https|h:com|h:big%d|" % W
    s.do(3, [[site + b"p:a|", site + b"h:www|p:b|", site + b"p:a|p:c|", ssite + b"p:z|"], 1])
    wes = s.webentities()
    w0 = [w for w, ps in wes.items() if site in ps]
    if not w0 or W in wes:
        return
    own = list(wes[w0[0]])
    s.do(7, [w0[0], own])
    for p in own:
        s.do(8, [p, W])
    s.do(6, [[site + b"p:a|p:c|"]])                      # a foreign webentity nested below
    s.do(4, [[[site + b"p:a|", site + b"h:www|p:b|"], [site + b"p:a|p:c|", site + b"p:a|"], [ssite + b"p:z|", site + b"p:a|"],
              [site + b"p:a|", b"s:http|h:org|h:elsewhere|p:x|"]]])
    wes = s.webentities()
    for w in [W] + [x for x in wes if x != W][-2:]:
        if w not in wes:
            continue
        ps = list(wes[w])
        for op, args in ((24, [w, ps]), (25, [w, ps]), (28, [w, ps]), (29, [w, ps]), (30, [w, ps, 1, 1, 1]), (32, [1, w, ps]),
                         (32, [0, w, ps]), (27, [w, ps, 3, None]), (23, [ps[0]]), (20, [site + b"p:a|"])):
            s.do(op, args, clean=True)
    s.do(34, [1, 0, 0])
    s.do(34, [1, 0, 1])
    s.do(36, [])
    if W in wes:
        ps = list(wes[W])
        for k in (1, 2):
            s.paginate_pages(W, ps, k, rng.randint(0, 1), True)
            for internal, outbound in ((1, 0), (0, 1), (1, 1)):
                s.paginate_links(W, ps, internal, outbound, k, True)


def many_ids(s, rng):
    """webentity ids around the byte boundaries of the header field (255, 256, 257, 511, 512), then a restart"""
    if rng.random() > 0.07 or s.impl.backend != "f":
        return
    target = rng.choice([255, 256, 256, 257, 511, 512, 512, 513])
    while s.tr.last >= target:
        target += 256
    k = 0
    while s.tr.last < target and k < 700:
        k += 1
        n = min(8, target - s.tr.last)
        before = s.tr.last
        if n > 1:
            s.do(3, [[b"s:http|h:com|h:id%d|p:x|" % (1000 * k + j) for j in range(n)], 0])
        else:
            s.do(6, [[b"s:http|h:org|h:one%d|" % k]])
        if s.tr.last == before:
            return                       # nothing is created any more: give up quietly (the usual checks still apply)
    s.notes = getattr(s, "notes", [])
    s.notes.append("many_ids_restart_at_%d" % s.tr.last)
    s.do(13, [s.tr.dflt, [[p, kd] for p, kd in s.tr.rules]])
    s.do(6, [[b"s:http|h:org|h:after%d|" % target]])
    s.do(2, [b"s:http|h:org|h:afterpage%d|p:a|" % target, 1])
    s.do(13, [s.tr.dflt, [[p, kd] for p, kd in s.tr.rules]])
    s.do(6, [[b"s:http|h:org|h:again%d|" % target]])


# long sibling stems that agree on their whole first block (74 bytes) or on two blocks: which one is smaller is decided in a tail
SIB_LONG = [b"p:" + b"x" * 80 + b"|", b"p:" + b"x" * 80 + b"a|", b"p:" + b"x" * 80 + b"b|", b"p:" + b"x" * 72 + b"mm|",
            b"p:" + b"x" * 72 + b"zz|", b"p:" + b"x" * 72 + b"bb|", b"p:" + b"x" * 150 + b"|", b"p:" + b"x" * 150 + b"a|",
            b"p:" + b"x" * 71 + b"|", b"p:" + b"x" * 72 + b"|", b"p:" + b"x" * 146 + b"|"]
SIB_STEMS = [b"p:a|", b"p:ab|", b"p:a~|", b"p:b|", b"p:a\xc3\xa9|", b"p:" + b"x" * 80 + b"|", b"p:" + b"x" * 80 + b"a|", b"p:aa|"]


def _perm_worker(job):
    """every query of the property's facet after inserting sibling stems in one given order (tree shape)"""
    seed, cfg = job
    import session as S
    rng = random.Random(seed)
    s = S.Session(rng, "f")
    try:
        s.do(1, [0, []])
        base = b"s:http|h:com|h:perm|"
        s.do(6, [[base]])
        for st in cfg["order"]:
            s.do(2, [base + st, rng.randint(0, 1)])
            if rng.random() < 0.3:
                s.do(2, [base + st + b"p:k|", 0])
        if cfg.get("readd"):
            # submitting everything again must find every stem where it was put
            for st in cfg["order"]:
                s.do(2, [base + st, 0])
            s.do(3, [[base + st for st in reversed(cfg["order"])], 0])
        if cfg.get("prefixes"):
            # webentity prefixes on some of the look-alike stems, then every resolution through and next to them
            chosen = rng.sample(cfg["order"], 2)
            for st in chosen:
                s.do(6, [[base + st]])
            absent = [st[:-1] + b"-absent|" for st in cfg["order"][:2]]
            for st in list(cfg["order"]) + absent:
                for l in (base + st, base + st + b"p:k|", base + st + b"p:zz|p:y|"):
                    s.do(20, [l]); s.do(21, [l]); s.do(22, [l]); s.do(41, [l])
            w = s.do(20, [base + chosen[0]])
            if isinstance(w, int):
                s.do(7, [w, [base + chosen[0]]])
                for st in cfg["order"]:
                    s.do(20, [base + st + b"p:k|"]); s.do(21, [base + st + b"p:k|"])
            s.do(36, [])
        focus = cfg["focus"]
        if 26 in focus:
            wes = s.webentities()
            for w, ps in wes.items():
                for k in (1, 2, 3):
                    s.paginate_pages(w, ps, k, 0, True)
                break
        s.observe(2 if (24 in focus or 26 in focus) else 1, focus)
        mm = s.finish(bytes_facet=43 in focus)
        res = {"seed": seed, "ncmds": len(s.cmds), "stats": {"perm_histories": 1}, "mismatches": [],
               "digest": hash(tuple(cfg["order"])) & 0xFFFFFFFF, "nontrivial": True}
        for m in mm:
            j = m.to_json()
            j["props"] = sorted(K.mismatch_props(m, s.cmds))
            res["mismatches"].append(j)
        if mm:
            res["script"] = K.ser_cmds(s.cmds)
            res["metas"], res["groups"] = s.meta, s.groups
        return res
    except Exception as e:
        import traceback
        return {"seed": seed, "error": "%s: %s" % (type(e).__name__, e), "trace": traceback.format_exc()[-600:],
                "mismatches": [], "stats": {}, "ncmds": 0, "digest": 0, "nontrivial": False}
    finally:
        s.close()


def perm_sweep(nstems, family=None, readd=False, tag="sibling_permutations", prefixes=False):
    """all insertion orders of a small family of sibling stems (exhaustive in the thorough tier)"""
    def run(prop, tier, seed):
        import itertools
        rng = random.Random(seed + 3)
        stems = rng.sample(family or SIB_STEMS, nstems)
        perms = list(itertools.permutations(stems))
        if tier != "thorough":
            rng.shuffle(perms)
            perms = perms[:40]
        jobs = [(seed + i, {"order": list(pm), "focus": K.FACET_OPS[prop], "readd": readd, "prefixes": prefixes})
                for i, pm in enumerate(perms)]
        results = pool_map(_perm_worker, jobs)
        v, k = classify(prop, results, seed)
        return v, {tag: len(perms), tag + "_exhaustive": tier == "thorough"}
    return run


long_sweep = perm_sweep(5, family=SIB_LONG, readd=True, tag="long_sibling_permutations")
long_prefix_sweep = perm_sweep(4, family=SIB_LONG, readd=False, tag="long_sibling_prefix_permutations", prefixes=True)


# ---- scale scenarios: quantities beyond the thresholds small histories never reach ---------------------
SCALE_BASE = b"s:http|h:com|h:scale|"


def _sc_chain(n):
    def f(s, rng):
        """n sibling pages inserted in ascending order (a degenerate sibling search tree of depth n), then every access path
        on shallow and deep ones, resolution, potential prefix, pagination"""
        if rng.random() < 0.5:
            s.do(2, [SCALE_BASE, 0])
            s.do(11, [SCALE_BASE, 2])           # a path-1 rule: every sibling becomes a webentity of its own
        pages = [SCALE_BASE + b"p:%05d|" % i for i in range(n)]
        for i in range(0, n, 100):
            s.do(3, [pages[i:i + 100], rng.randint(0, 1)])
        probes = [pages[0], pages[min(48, n - 1)], pages[min(64, n - 1)], pages[min(65, n - 1)], pages[n - 1], pages[n - 1] + b"p:x|",
                  pages[n // 2] + b"p:deep|p:never|", SCALE_BASE + b"p:zzzzz|"]
        s.do(2, [pages[n - 1] + b"p:deep|", 1])
        s.do(6, [[pages[n - 2] + b"p:deep|"]])                  # an existing longer webentity below a deep sibling
        probes += [pages[n - 2] + b"p:deep|p:never|p:inserted|", pages[n - 2] + b"p:deep|"]
        for l in probes:
            for op in (20, 21, 22, 41, 47):
                s.do(op, [l])
        s.do(35, [])
        s.do(38, [])
        wes = s.webentities()
        for w, ps in wes.items():
            if SCALE_BASE in ps:
                s.do(24, [w, ps], clean=True)
                s.do(29, [w, ps], clean=True)
                if n <= 200:
                    s.paginate_pages(w, ps, 7, 0, True)
                    s.paginate_pages(w, ps, 1, 0, True)
                break
    return f


def _sc_deep(n):
    def f(s, rng):
        """a URL with n path stems (a child chain n deep): links between its two ends, every per-webentity link query"""
        l, pages = SCALE_BASE, []
        for i in range(n):
            l = l + b"p:d%d|" % i
            pages.append(l)
        s.do(3, [pages[::7] + [pages[-1]], 1])
        s.do(4, [[[SCALE_BASE, pages[-1]], [pages[-1], SCALE_BASE], [pages[-1], pages[n - 4]], [pages[n - 4], pages[-1]],
                  [pages[-1], b"s:http|h:org|h:other|p:o|"], [b"s:http|h:org|h:other|p:o|", pages[-1]]]])
        wes = s.webentities()
        for w, ps in wes.items():
            if SCALE_BASE in ps:
                for fl in ((1, 1, 1), (0, 1, 0), (0, 0, 1), (1, 0, 0)):
                    s.do(30, [w, ps] + list(fl), clean=True)
                s.do(32, [1, w, ps], clean=True)
                s.do(32, [0, w, ps], clean=True)
                s.do(27, [w, ps, 3, None], clean=True)
                s.paginate_links(w, ps, 1, 1, 1, True)
                s.paginate_links(w, ps, 0, 1, 1, True)
                s.paginate_pages(w, ps, 2, 0, True)
                break
        for sl in (0, 1):
            s.do(34, [1, 1, sl])
            s.do(34, [0, 0, sl])
        for l2 in (pages[-1], pages[n - 4]):
            s.do(33, [l2, 1, 1, 1]); s.do(20, [l2]); s.do(41, [l2]); s.do(47, [l2])
    return f


def _sc_links(n, repeated):
    def f(s, rng):
        """one page with n links in one request (n distinct-ish targets, or n times the same target)"""
        hub = SCALE_BASE + b"p:hub|"
        if repeated:
            other = SCALE_BASE + b"p:b|"
            s.do(4, [[[hub, other]] * n + [[hub, hub], [other, hub]]])
            tg = [other]
        else:
            tg = [SCALE_BASE + b"p:t%04d|" % (i % (n // 3)) for i in range(n)]
            s.do(4, [[[hub, t] for t in tg] + [[hub, hub]]])
        for l in (hub, tg[0], tg[-1]):
            s.do(33, [l, 1, 1, 1]); s.do(46, [l])
        s.do(38, []); s.do(37, [1]); s.do(37, [0]); s.do(48, [])
        wes = s.webentities()
        for w, ps in wes.items():
            s.do(32, [1, w, ps], clean=True); s.do(32, [0, w, ps], clean=True); s.do(30, [w, ps, 1, 1, 1], clean=True)
            break
        s.do(34, [1, 1, 0]); s.do(34, [1, 1, 1])
        s.do(33, [hub, 1, 1, 1]); s.do(46, [hub])          # again: the queries above must not have changed anything
    return f


def _sc_many_pages(n):
    def f(s, rng):
        """one webentity with n pages (more nodes than any iterator walks before it yields), every page linked once, a few often"""
        pages = [SCALE_BASE + b"p:%05d|" % ((i * 7919) % n) for i in range(n)]
        for i in range(0, n, 100):
            s.do(3, [pages[i:i + 100], rng.randint(0, 1)])
        hub = SCALE_BASE + b"p:hub|"
        links = [[hub, p] for p in pages] + [[pages[k], pages[n - 1 - j]] for j in range(12) for k in range(j + 1)]
        s.do(4, [links])
        wes = s.webentities()
        for w, ps in wes.items():
            if SCALE_BASE in ps:
                for k in (1, 5, 25):
                    s.do(27, [w, ps, k, None], clean=True)
                s.do(25, [w, ps], clean=True)
                s.do(32, [1, w, ps], clean=True)
                break
        s.do(38, [])
        s.do(34, [1, 1, 0])
    return f


def _sc_churn(n):
    def f(s, rng):
        """n create / delete cycles on one prefix (ids grow, the files do not), then restarts and creations"""
        if s.impl.backend != "f":
            return
        p = b"s:churn|"                       # a one-node trie: the ids soon exceed every size figure of the files
        for _i in range(n):
            a = s.do(6, [[p]])
            if isinstance(a, list) and a and a[1]:
                s.do(7, [a[1][0][0], [p]])
        s.do(13, [0, []])
        s.do(6, [[b"s:after|"]])
        s.do(2, [b"s:http|h:org|h:x|p:a|", 0])
        s.do(13, [0, []])
        s.do(6, [[b"s:again|"]])
    return f


SCALE = {"chain70": _sc_chain(70), "chain1100": _sc_chain(1100), "deep70": _sc_deep(70), "links1100": _sc_links(1100, False),
         "links4200same": _sc_links(4200, True), "pages2100": _sc_many_pages(2100), "churn520": _sc_churn(700)}


def _scale_worker(job):
    seed, cfg = job
    import session as S
    rng = random.Random(seed)
    s = S.Session(rng, cfg.get("backend", "f"))
    try:
        if cfg.get("ro_check"):
            s.ro_check = True
        s.do(1, [0, []])
        SCALE[cfg["name"]](s, rng)
        mm = s.finish(bytes_facet=False)
        res = {"seed": seed, "ncmds": len(s.cmds), "stats": {"scale_" + cfg["name"]: 1}, "mismatches": [],
               "digest": hash(cfg["name"]) & 0xFFFFFFFF, "nontrivial": True, "ro_violations": getattr(s, "ro_violations", [])}
        for m in mm:
            j = m.to_json()
            j["props"] = sorted(K.mismatch_props(m, s.cmds))
            res["mismatches"].append(j)
        if mm or res["ro_violations"]:
            res["script"] = K.ser_cmds(s.cmds)
            res["metas"], res["groups"] = s.meta, s.groups
        return res
    except Exception as e:
        import traceback
        return {"seed": seed, "error": "%s: %s" % (type(e).__name__, e), "trace": traceback.format_exc()[-600:],
                "mismatches": [], "stats": {}, "ncmds": 0, "digest": 0, "nontrivial": False}
    finally:
        s.close()


def scale_sweep(names):
    def run(prop, tier, seed):
        jobs = [(seed + i, {"name": n, "prop": prop, "backend": "f" if i % 2 == 0 or n.startswith("churn") else "m"})
                for i, n in enumerate(names)]
        results = pool_map(_scale_worker, jobs)
        v, k = classify(prop, results, seed, allow_shrink=False)
        return v, {"scale_scenarios": list(names)}
    return run


def both_sweeps(*fs):
    def run(prop, tier, seed):
        v, cov = [], {}
        for f in fs:
            v1, c1 = f(prop, tier, seed)
            v += v1
            cov.update(c1)
        return v, cov
    return run


PROPS = {}


def reg(pid, theorems, focus, nq=480, nt=30000, nw=25, depth=1, mixkw=None, extra=None, sweep=None, **more):
    cfgq = {"nw": nw, "focus": focus, "depth": depth, "mix": mix(**(mixkw or {})), "bytes": 43 in focus,
            "observe_p": 0.25, "weird": more.pop("weird", 0.15)}
    if extra:
        cfgq["extra"] = extra
    cfgt = dict(cfgq, nw=nw + 15, depth=2)
    PROPS[pid] = dict({"theorems": theorems, "runner": hist_runner(cfgq, cfgt, nq, nt, RULE % nw, sweep)}, **more)


reg("C01", ["C01_pages_perm", "C01_count_pages", "C01_reports"], K.FACET_OPS["C01"], weird=0.3,
    sweep=both_sweeps(long_sweep, scale_sweep(["chain70", "links1100"])), extra=[big_batch, dropped_batch])
reg("C02", ["C02_find_known", "C02_windup", "C02_stem_roundtrip"], K.FACET_OPS["C02"], sweep=both_sweeps(helper_sweep(["chunks", "lru"]), perm_sweep(5), long_sweep, scale_sweep(["chain70", "chain1100", "deep70"])),
    weird=0.45, extra=[flag_churn])
reg("C03", ["C03_out", "C03_in", "C03_count"], K.FACET_OPS["C03"], mixkw={"add_links": 30, "batch": 20}, extra=[big_batch],
    sweep=scale_sweep(["links1100", "links4200same", "deep70"]))
reg("C04", ["C04_resolve", "C04_prefmap"], K.FACET_OPS["C04"],
    mixkw={"create_we": 16, "delete_we": 10, "add_prefix": 12, "remove_prefix": 10, "move_prefix": 8},
    sweep=both_sweeps(long_prefix_sweep, scale_sweep(["chain70", "chain1100", "deep70"])))
reg("C05", ["C05_we_pages", "C05_partition", "C05_exactly_once"], K.FACET_OPS["C05"], mixkw={"create_we": 16, "add_prefix": 10},
    sweep=both_sweeps(perm_sweep(5), scale_sweep(["chain70", "pages2100"])), extra=[high_ids])
reg("C06", ["C06_create", "C06_potential", "C06_rule_install"], K.FACET_OPS["C06"], mixkw={"add_rule": 14, "remove_rule": 4},
    sweep=both_sweeps(helper_sweep(["rule"]), scale_sweep(["chain70", "chain70", "deep70"])))
reg("C07", ["C07_net"], K.FACET_OPS["C07"], depth=2, nq=320, mixkw={"add_links": 30, "batch": 20, "create_we": 14}, extra=[high_ids],
    sweep=scale_sweep(["deep70", "links1100"]))
reg("C08", ["C08_pagelinks"], K.FACET_OPS["C08"], mixkw={"add_links": 30, "batch": 20, "create_we": 14}, extra=[high_ids],
    sweep=scale_sweep(["deep70", "links1100", "links4200same"]))
reg("C09", ["C09_token_roundtrip", "C09_sorted_pages", "C09_chunks", "C09_stable_chain"], K.FACET_OPS["C09"],
    mixkw={"add_page": 50, "add_pages": 20, "create_we": 14}, sweep=both_sweeps(helper_sweep(["token"]), perm_sweep(6), scale_sweep(["chain70", "deep70"])),
    extra=[deep_tree, multi_prefix, mutating_pagination, high_ids])
reg("C10", ["C10_chunks", "C10_same_links"], K.FACET_OPS["C10"], mixkw={"add_links": 35, "batch": 20, "create_we": 14},
    extra=[deep_tree, multi_prefix, high_ids], sweep=scale_sweep(["deep70", "links1100"]))
reg("C12", ["C12_fresh"], set(), mixkw={"create_we": 16, "delete_we": 10, "add_rule": 10, "reopen": 10}, extra=[many_ids, second_index],
    sweep=scale_sweep(["churn520"]))
reg("C13", ["C13_parents", "C13_children"], K.FACET_OPS["C13"], mixkw={"create_we": 18, "add_prefix": 12, "move_prefix": 8, "add_rule": 10},
    extra=[high_ids], sweep=scale_sweep(["chain70", "deep70"]))
reg("C19", ["C19_trie_blocks", "C19_count_links", "C19_readd_no_growth"], K.FACET_OPS["C19"], sweep=both_sweeps(helper_sweep(["chunks"]), long_sweep, scale_sweep(["chain70", "links1100"])), weird=0.45,
    mixkw={"add_page": 45, "add_pages": 16})
reg("C20", ["C20_topk"], K.FACET_OPS["C20"], mixkw={"add_links": 35, "batch": 20, "create_we": 14}, extra=[high_ids],
    sweep=scale_sweep(["pages2100", "deep70"]))


# ---- C14: queries never modify the index (dynamic facet next to the call-graph theorem) -------------
def _c14_worker(job):
    seed, cfg = job
    import session as S
    rng = random.Random(seed)
    s = S.Session(rng, cfg["backend"], record=True)
    try:
        s.do(1, [rng.choice([0, 1]), []])
        s.ro_check = True
        rng2 = random.Random(seed * 7919 + 13)
        for i in range(cfg["nw"]):
            op, args = G.gen_write(rng, s.tr, dict(G.DEFAULT_MIX, add_rule=12))
            s.do(op, args)
            if rng2.random() < 0.15:
                # requests that are issued and dropped before their first step (the writers) or after a few (the queries):
                # nothing may be written
                s.abandon(rng2, partial=False)
            if rng.random() < 0.2:
                s.observe(1, None)
        s.observe(2, None)
        # calls that fail with the library's own error, unknown webentities, absent LRUs
        for _ in range(6):
            l = G.gen_lru(rng)
            for op, a in ((20, [l]), (21, [l]), (22, [l]), (23, [l]), (24, [99, [l]]), (27, [99, [l], 3, None]),
                          (28, [99, [l]]), (29, [99, [l]]), (30, [99, [l], 0, 0, 0]), (30, [99, [l], 1, 1, 1]),
                          (31, [99, [l], 0, 0, 1, None]), (31, [99, [l], 1, 1, 2, None]), (32, [1, 99, [l]]), (32, [0, 99, [l]]),
                          (33, [l, 1, 1, 1]),
                          (26, [99, [l], 2, None, 0])):
                s.do(op, a)
            # prefix lists in which only a LATER entry is absent (or an entry is repeated): the request is refused - or
            # answered - without a byte written, whatever the position of the absent prefix in the list
            ws = s.tr.weids()
            if ws:
                w = rng.choice(ws)
                known = s.tr.prefixes_of(w)
                rng.shuffle(known)
                for pl in ([known[0], l], known + [l], [known[0], known[0], l], [l, known[0]], [known[0], known[0]]):
                    for op, a in ((24, [w, pl]), (25, [w, pl]), (26, [w, pl, 1, None, 0]), (26, [w, pl, 2, None, 1]), (27, [w, pl, 3, None]),
                                  (28, [w, pl]), (29, [w, pl]), (30, [w, pl, 1, 1, 1]), (31, [w, pl, 1, 1, 1, None]),
                                  (31, [w, pl, 0, 1, 2, None]), (32, [1, w, pl]), (32, [0, w, pl])):
                        s.do(op, a)
        # the same queries on an index reopened with FEWER rules than its anchors (stale rule flags in the trie)
        if cfg["backend"] == "f" and not getattr(s, "dead", False):
            s.do(13, [s.tr.dflt, []])
            for l in list(dict.fromkeys(s.tr.lrus))[:12] + [G.gen_lru(rng) for _ in range(3)]:
                s.do(22, [l])
                s.do(20, [l])
            s.observe(1, None)
        v = getattr(s, "ro_violations", [])
        res = {"seed": seed, "ncmds": len(s.cmds), "queries": getattr(s, "ro_queries", 0), "ro_violations": v,
               "digest": hash(tuple(K.ser_cmds([c for c in s.cmds if c[0] in C.WRITE_OPS]))) & 0xFFFFFFFF,
               "nontrivial": True, "stats": dict(Counter("op%d" % c[0] for c in s.cmds)), "mismatches": []}
        if v:
            res["script"] = K.ser_cmds(s.cmds[: v[0]["index"] + 1])
        else:
            res["sample"] = K.ser_cmds(s.cmds[:10])
        return res
    except Exception as e:
        import traceback
        return {"seed": seed, "error": "%s: %s" % (type(e).__name__, e), "trace": traceback.format_exc()[-600:],
                "ncmds": 0, "ro_violations": [], "digest": 0, "nontrivial": False, "stats": {}, "mismatches": []}
    finally:
        s.close()


def c14_runner(prop, tier, seed, replay):
    n = 600 if tier == "thorough" else 64
    jobs = []
    for i in range(n):
        jobs.append((seed * 100003 + i, {"backend": "f" if i % 3 else "m", "nw": 30 if tier == "thorough" else 18}))
    if replay and replay_jobs(replay):
        jobs = replay_jobs(replay)
    results = pool_map(_c14_worker, jobs)
    # the same byte comparison around every read request of the scale scenarios (long link lists, deep trees, many pages)
    sres = pool_map(_scale_worker, [(seed + i, {"name": n_, "prop": prop, "backend": "f", "ro_check": True})
                                    for i, n_ in enumerate(["links4200same", "links1100", "deep70", "chain70", "pages2100"])])
    for r in sres:
        r.setdefault("queries", 0)
        if r.get("ro_violations"):
            r["script"] = r.get("script") or []
        else:
            r["ro_violations"] = []
    results = results + sres
    violations = []
    for r in results:
        if r.get("error"):
            violations.append({"property": prop, "failing_input": False, "broken": "harness error: " + r["error"],
                               "trace": r.get("trace")})
            break
    for r in results:
        if r["ro_violations"]:
            v = r["ro_violations"][0]
            violations.append({"property": prop, "failing_input": True, "seed": r["seed"], "job": r.get("job"),
                               "what": "read request (opcode %d) changed the stores: %r" % (v["op"], v),
                               "script": r["script"], "failing_command": v["index"]})
            break
    cov = coverage(results, "random histories (file and memory back-ends); around EVERY read request (all query kinds, "
                            "successful, refused, unknown webentity, absent LRU) the bytes of both stores and the recorded "
                            "storage writes are compared before/after on the real implementation")
    cov["read_requests_checked"] = sum(r.get("queries", 0) for r in results)
    return {"violations": violations, "known": [], "cov": cov}


PROPS["C14"] = {"theorems": ["C14_no_writer_reachable"], "runner": c14_runner,
                "trusted": ["gen_callgraph.py: name-based call resolution with arity filtering (over-approximation); closed lists of "
                            "read-only API roots and of store-mutating primitives; getattr/eval dispatch rejected"],
                "assumptions": ["no dynamic dispatch through getattr/monkey-patching inside the package (rejected by the translator)"]}


# ---- C17: prefix variations (pure function; exhaustive small grammar + random) ----------------------
def c17_family(lru):
    """membership in the family of the property: scheme, optional port, contiguous hosts not ending in two www,
    then stems that do not start with 'h:'"""
    stems = lru.split(b"|")
    if not lru.endswith(b"|") or len(stems) < 2:
        return False
    stems = stems[:-1]
    if not stems[0].startswith(b"s:") or b":" in stems[0][2:]:
        return False
    i = 1
    if i < len(stems) and stems[i].startswith(b"t:"):
        if b":" in stems[i][2:]:
            return False
        i += 1
    hosts = []
    while i < len(stems) and stems[i].startswith(b"h:"):
        hosts.append(stems[i])
        i += 1
    if len(hosts) >= 2 and hosts[-1] == b"h:www" and hosts[-2] == b"h:www":
        return False
    return not any(s.startswith(b"h:") or s.startswith(b"s:") and False for s in stems[i:])


def c17_cases(tier, seed):
    import itertools
    rng = random.Random(seed)
    cases = []
    schemes = [b"http", b"https", b"ftp", b"httpx"]
    ports = [None, b"80"]
    hostsets = [[]]
    names = [b"com", b"a", b"www", b"Www", b"oldwww"]
    for n in (1, 2, 3):
        for combo in itertools.product(names, repeat=n):
            hostsets.append(list(combo))
    rests = [[], [b"p:x"], [b"p:s:http"], [b"p:s:https", b"q:h:a"], [b"p:h:www"], [b"p:xs:http", b"f:h:com"],
             [b"p:" + b"y" * 80], [b"p:\x7f\x00"]]
    for sc, po, hs, rs in itertools.product(schemes, ports, hostsets, rests):
        st = [b"s:" + sc] + ([b"t:" + po] if po else []) + [b"h:" + h for h in hs] + rs
        cases.append(b"".join(x + b"|" for x in st))
    # deep sub-domain chains (with and without a port stem), ending or not in www
    deep = []
    for nh in (7, 8, 9, 10, 11, 12):
        for po in (None, b"8080"):
            for end in ([], [b"www"], [b"www", b"www"]):
                for sc in (b"http", b"https"):
                    st = [b"s:" + sc] + ([b"t:" + po] if po else []) + [b"h:l%d" % i for i in range(nh)] + [b"h:" + e for e in end] + [b"p:x"]
                    deep.append(b"".join(x + b"|" for x in st))
    cases += deep
    n = 3000 if tier == "thorough" else 400
    for _ in range(n):
        cases.append(G.gen_lru(rng, weird=0.4))
    if tier != "thorough":
        rng.shuffle(cases)
        cases = cases[:1400 - len(deep)] + deep
    return cases


def c17_runner(prop, tier, seed, replay):
    cases = c17_cases(tier, seed)
    if replay:
        cases = [bytes.fromhex(x) for x in json.load(open(replay))["inputs"]]
    im = I.Impl("m")
    violations, stats = [], Counter()
    try:
        got = [im.exec(40, [l]) for l in cases]
        model = C.run_driver([(40, [l]) for l in cases])
        seen = set()
        for l, g, m in zip(cases, got, model):
            fam = c17_family(l)
            stats["family" if fam else "outside_family"] += 1
            stats["variations_%s" % (len(g) if isinstance(g, list) else "err")] += 1
            note = None
            if fam:
                if C.is_err(g):
                    note = "expansion failed: %s" % getattr(g, "detail", g)
                elif not g or g[0] != l:
                    note = "the prefix itself is not listed first"
                elif len(set(g)) != len(g):
                    note = "an entry is listed twice"
                else:
                    for v in g:
                        gv = im.exec(40, [v])
                        if C.is_err(gv) or set(gv) != set(g):
                            note = "not closed: expanding the member %r yields a different set" % v
                            break
                if note and note not in seen:
                    seen.add(note)
                    violations.append({"property": prop, "failing_input": True, "what": note, "inputs": [l.hex()],
                                       "lru": repr(l), "got": I.fmt(g)})
            if not C.eq(g, m[0]) and "corr" not in seen and not (fam and note):
                seen.add("corr")
                violations.append({"property": prop, "failing_input": False, "inputs": [l.hex()], "lru": repr(l),
                                   "broken": "correspondence: lru_variations differs between the implementation and the model",
                                   "implementation": I.fmt(g), "model": I.fmt(m[0])})
    finally:
        im.close()
    # a correspondence break with a failing input elsewhere: keep only the failing inputs first
    violations.sort(key=lambda v: 0 if v.get("failing_input") else 1)
    cov = {"evaluations": len(cases), "distinct_nontrivial": len(set(c for c in cases if c.count(b"|") >= 3)),
           "rule": "all LRUs of a small grammar (4 schemes x optional port x host lists of length 0..3 over {com,a,www} x 8 tails "
                   "including 's:http'/'h:' text, an 80-byte stem and bytes around '|') plus random LRUs of the history grammar; each is "
                   "expanded by the real lru_variations and by the model; for family members the four clauses are checked on the "
                   "implementation (closure by expanding every member). non-trivial: at least 3 stems",
           "samples": [repr(c) for c in cases[:6]], "traces_validated_against_impl": len(cases),
           "distribution": dict(stats), "exhaustive": tier == "thorough"}
    return {"violations": violations[:4], "known": [], "cov": cov}


PROPS["C17"] = {"theorems": ["C17_head", "C17_nodup", "C17_shape", "C17_closed"], "runner": c17_runner, "min_closed": 4,
                "assumptions": ["family: scheme and port bodies contain no ':' (otherwise the text 'h:' could start inside them)"]}


# ---- twins: the same history on two indexes of the real implementation ------------------------------
def _twin_worker(job):
    seed, cfg = job
    import session as S
    rng = random.Random(seed)
    mode = cfg["mode"]
    prim = S.Session(rng, "f")
    sec = None
    out = {"seed": seed, "mismatches": [], "stats": {}, "ncmds": 0, "digest": 0, "nontrivial": True, "twin": []}
    try:
        focus = cfg["focus"]
        rules0 = []
        if rng.random() < 0.5:
            for _ in range(rng.randint(1, 2)):
                p0 = G.gen_lru(rng, weird=0, maxpath=0)
                if p0 not in [x[0] for x in rules0]:
                    rules0.append([p0, rng.choice([2, 2, 3, 1])])
        prim.do(1, [rng.choice([0, 1]), rules0])
        if cfg.get("ids"):
            # webentity ids driven to a byte boundary of the header field, then a restart right there
            k = 0
            while prim.tr.last < cfg["ids"] and k < 600:
                k += 1
                n_ = min(8, cfg["ids"] - prim.tr.last)
                before = prim.tr.last
                prim.do(3, [[b"s:http|h:com|h:id%d|p:x|" % (1000 * k + j) for j in range(n_)], 0])
                if prim.tr.last == before:
                    break
            if mode == "reopen":
                prim.do(13, [prim.tr.dflt, [[p_, k_] for p_, k_ in prim.tr.rules]])
            prim.do(6, [[b"s:http|h:org|h:afterids|"]])
        mixw = dict(G.DEFAULT_MIX)
        if mode == "memory":
            mixw["reopen"] = 0
        elif mode == "reopen":
            mixw["reopen"] = 25
            mixw["clear"] = 0
        elif mode == "clear":
            mixw["reopen"] = 4
        nw = cfg["nw"]
        rng2 = random.Random(seed * 7919 + 13)
        clear_at = rng.randint(2, nw - 3) if mode == "clear" else None
        clear_cmd_index = None
        for i in range(nw):
            if i == clear_at:
                d = rng.choice([0, 1])
                rs = [[G.pick_prefix(rng, prim.tr), rng.choice([0, 1, 2, 3])] for _ in range(rng.randint(0, 2))]
                rs = [x for k, x in enumerate(rs) if x[0] not in [y[0] for y in rs[:k]]]
                prim.do(14, [d, rs])
                clear_cmd_index = len(prim.cmds) - 1
                continue
            op, args = G.gen_write(rng, prim.tr, mixw)
            prim.do(op, args)
            if rng2.random() < 0.1:
                # dropped requests: whatever they leave in RAM only would be lost by the close and kept by the twin
                prim.abandon(rng2, partial="rule" if rng2.random() < 0.3 else False)
            if rng.random() < 0.25:
                prim.observe(0, focus)
        prim.observe(1, focus)
        prim.do(43, [])
        prim.do(44, [])
        prim.do(45, [])
        # ---- the twin ----
        if mode == "memory":
            sec = S.Session(random.Random(0), "m")
            pairs = [(k, c) for k, c in enumerate(prim.cmds)]
        elif mode == "reopen":
            sec = S.Session(random.Random(0), "f")
            pairs = [(k, c) for k, c in enumerate(prim.cmds) if c[0] != 13]
        else:
            sec = S.Session(random.Random(0), "f")
            d, rs = prim.cmds[clear_cmd_index][1]
            pairs = [(clear_cmd_index, (1, [d, rs]))] + [(k, c) for k, c in enumerate(prim.cmds) if k > clear_cmd_index]
        for k, (op, args) in pairs:
            b = sec.do(op, args)
            a = prim.ians[k]
            if op in (1, 13, 14):
                continue
            if not C.eq(C.canon(op, a), C.canon(op, b)):
                out["twin"].append({"index": k, "op": op, "first": I.fmt(a)[:600], "twin": I.fmt(b)[:600],
                                    "first_detail": getattr(a, "detail", None), "twin_detail": getattr(b, "detail", None)})
                break
        if mode != "memory":
            for s_ in (prim, sec):
                tb, lb = s_.impl.file_bytes("t"), s_.impl.file_bytes("l")
                if len(tb) % 128 or len(lb) % 16:
                    out["twin"].append({"index": -1, "op": 45, "first": "file sizes %d / %d are not whole blocks" % (len(tb), len(lb)), "twin": ""})
        if mode == "memory" and not out["twin"]:
            # the memory-mapped reader returns the same blocks as the file storage
            st = prim.impl.t.lru_trie_storage
            prim.impl.flush()
            mm = st.map()
            try:
                size = len(prim.impl.file_bytes("t"))
                for b in range(0, size + 256, 128):
                    x, y = st.read(b), mm.read(b)
                    if (x or None) != (bytes(y) if y else None):
                        out["twin"].append({"index": -2, "op": 0, "first": "FileStorage.read(%d)" % b, "twin": "MemMapStorage.read differs"})
                        break
            finally:
                mm.release()
        # correspondence of the first index with the model
        mm_ = prim.finish(bytes_facet=False)
        for m in mm_:
            j = m.to_json()
            j["props"] = sorted(K.mismatch_props(m, prim.cmds)) + [cfg["prop"]]
            out["mismatches"].append(j)
        out["ncmds"] = len(prim.cmds) + len(pairs)
        out["stats"] = dict(Counter("op%d" % c[0] for c in prim.cmds))
        out["stats"]["mode_" + mode] = 1
        out["digest"] = hash(tuple(K.ser_cmds([c for c in prim.cmds if c[0] in C.WRITE_OPS]))) & 0xFFFFFFFF
        if out["twin"] or out["mismatches"]:
            out["script"] = K.ser_cmds(prim.cmds)
            out["metas"], out["groups"] = prim.meta, prim.groups
        else:
            out["sample"] = K.ser_cmds(prim.cmds[:10])
        return out
    except Exception as e:
        import traceback
        out["error"] = "%s: %s" % (type(e).__name__, e)
        out["trace"] = traceback.format_exc()[-800:]
        out.setdefault("script", K.ser_cmds(prim.cmds))
        return out
    finally:
        prim.close()
        if sec is not None:
            sec.close()


def twin_runner(modes, rule, extra=None):
    def run(prop, tier, seed, replay):
        n = 1500 if tier == "thorough" else 160
        jobs = []
        for i in range(n):
            jobs.append((seed * 100003 + i, {"mode": modes[i % len(modes)], "nw": 28 if tier == "thorough" else 20,
                                             "focus": K.FACET_OPS[prop], "prop": prop}))
        for j, ids in enumerate([255, 256, 257, 512]):
            # (few kinds of queries: with several hundred webentities the specification side of the sweeps is slow)
            jobs.append((seed * 100003 + n + j, {"mode": modes[j % len(modes)], "nw": 8, "focus": {20, 21, 38, 45}, "prop": prop, "ids": ids}))
        if replay and replay_jobs(replay):
            jobs = replay_jobs(replay)
        results = pool_map(_twin_worker, jobs)
        violations = []
        for r in results:
            if r.get("error"):
                violations.append({"property": prop, "failing_input": False, "broken": "harness error: " + r["error"],
                                   "trace": r.get("trace"), "seed": r["seed"]})
                break
        for r in results:
            if r["twin"]:
                t = r["twin"][0]
                violations.append({"property": prop, "failing_input": True, "seed": r["seed"], "job": r.get("job"),
                                   "what": "the two indexes of the real implementation diverge at command %d (opcode %d)" % (t["index"], t["op"]),
                                   "divergence": t, "script": r.get("script"), "metas": r.get("metas"), "groups": r.get("groups")})
                break
        if not violations:
            v, k = classify(prop, results, seed)
            violations += v
        cov = coverage(results, rule)
        known = []
        if extra:
            ev, ecov = extra(prop, tier, seed)
            violations += ev
            cov.update(ecov)
        return {"violations": violations[:4], "known": known, "cov": cov}
    return run


def storage_machines(prop, tier, seed):
    """random disciplined op sequences on the real FileStorage / MemoryStorage and on the two Coq machines"""
    import sys
    import tempfile
    rng = random.Random(seed + 7)
    FS = sys.modules.get("traph.storage") or __import__("traph.storage").storage
    n = 400 if tier == "thorough" else 60
    viol, cases = [], 0
    cmds, expect = [], []
    for _ in range(n):
        bs = rng.choice([4, 16, 128])
        ops, size, after_read = [], 0, False
        for _ in range(rng.randint(3, 14)):
            r = rng.random()
            if r < 0.3:
                data = bytes(rng.randrange(256) for _ in range(bs if rng.random() < 0.8 else rng.randint(bs, 2 * bs)))
                ops.append([3, data]); size += len(data); after_read = False
            elif r < 0.5 and size >= 0:
                b = rng.choice([0, bs, size, max(0, size - bs), (size // bs) * bs])
                b = min(b, size)
                ops.append([2, bytes(rng.randrange(256) for _ in range(bs)), b]); size = max(size, b + bs); after_read = False
            elif r < 0.75:
                ops.append([0, rng.choice([0, bs, size, size + bs, max(0, size - bs), rng.randint(0, size + 1)])]); after_read = True
            elif r < 0.9 and after_read:
                ops.append([1])
            else:
                ops.append([4]); after_read = False
        f = tempfile.TemporaryFile()
        fs, ms = FS.FileStorage(bs, f), FS.MemoryStorage(bs)
        res = []
        for st in (fs, ms):
            rr = []
            for o in ops:
                if o[0] == 0:
                    x = st.read(o[1]); rr.append(bytes(x) if x else None)
                elif o[0] == 1:
                    x = st.read(); rr.append(bytes(x) if x else None)
                elif o[0] == 2:
                    rr.append([st.write(o[1], o[2])])
                elif o[0] == 3:
                    rr.append([st.write(o[1])])
                else:
                    rr.append(len(st))
            res.append(rr)
        f.seek(0)
        fdata = f.read()
        f.close()
        cmds.append((70, [bs, ops]))
        expect.append(([res[0], fdata], [res[1], bytes(ms.array)]))
        cases += 1
    model = C.run_driver(cmds)
    for (op, args), (ef, em), m in zip(cmds, expect, model):
        if not C.eq(ef, em) and not viol:
            viol.append({"property": prop, "failing_input": True, "what": "FileStorage and MemoryStorage answer differently on a disciplined operation sequence",
                         "block_size": args[0], "ops": I.fmt(args[1]), "file": I.fmt(ef), "memory": I.fmt(em)})
        if (not C.eq(ef, m[0]) or not C.eq(em, m[1])) and not viol:
            viol.append({"property": prop, "failing_input": False,
                         "broken": "correspondence: storage machines of Storage.v differ from the real back-ends",
                         "block_size": args[0], "ops": I.fmt(args[1]), "file": I.fmt(ef), "memory": I.fmt(em),
                         "model_file": I.fmt(m[0]), "model_memory": I.fmt(m[1])})
    return viol, {"storage_sequences": cases}


TWIN_RULE = ("each case: a random history (as in the history campaign) run on one index of the real implementation and, command by "
             "command, on a twin (%s); every reply and canonicalised answer, the raw bytes of both stores and the file sizes are "
             "compared between the twins, and the first index is also replayed on the model")
PROPS["C15"] = {"theorems": ["C15_bisim", "memmap_is_read"],
                "runner": twin_runner(["memory"], TWIN_RULE % "memory back-end instead of files; plus FileStorage.map() block reads", storage_machines),
                "assumptions": ["file semantics of a binary rb+/wb+ file as modelled in Storage.v; OS page cache and Python buffering not modelled"]}
PROPS["C11"] = {"theorems": ["C11_reopen_id", "C11_reopen_persistent", "C11_clear_is_init", "C11_whole_blocks"],
                "runner": twin_runner(["reopen", "reopen", "clear"],
                                      TWIN_RULE % "the same history without the close/reopen requests, or - for clear - a freshly created index given the rules of the clear request and the rest of the history"),
                "assumptions": ["persistence = the bytes of the two files; OS page cache, Python buffering and crash behaviour not modelled (see C18)"]}


# ---- C18: torn / truncated write history: fault enumeration on the real implementation --------------
def _apply_trace(base_t, base_l, trace, k, partial=None):
    """files after the first k recorded writes (+ `partial` bytes of write k if it is an append)"""
    t, l = bytearray(base_t), bytearray(base_l)
    def app(w, nbytes=None):
        tag, blk, data = w
        buf = t if tag == "t" else l
        if nbytes is not None:
            data = data[:nbytes]
        if blk is None:
            buf.extend(data)
        else:
            buf[blk:blk + len(data)] = data
    for w in trace[:k]:
        app(w)
    if partial is not None and k < len(trace) and trace[k][1] is None:
        app(trace[k], partial)
    return bytes(t), bytes(l)


def _observe_cut(folder, dflt, rules):
    """open the folder with the real code and query it; returns ('refused',) or ('ok', pages, links) or ('fail', what)"""
    import sys
    import warnings
    warnings.simplefilter("ignore")
    T = sys.modules["traph"]
    try:
        t = T.Traph(folder=folder, default_webentity_creation_rule=I.rule_regex(dflt),
                    webentity_creation_rules=dict((p, I.rule_regex(k)) for p, k in rules))
    except T.TraphException:
        return ("refused",)
    except Exception as e:
        return ("fail", "opening raised %s: %s" % (type(e).__name__, e))
    try:
        pages = {}
        for node, lru in t.pages_iter():
            pages[lru] = node.is_crawled()
        outl, inl = Counter(), Counter()
        for lru in pages:
            for a, b, w in t.get_page_links(lru, include_inbound=False, include_internal=True, include_outbound=True):
                outl[(a, b)] += w
            for a, b, w in t.get_page_links(lru, include_inbound=True, include_internal=False, include_outbound=False):
                inl[(a, b)] += w
            for a, b, w in t.get_page_links(lru, include_inbound=False, include_internal=True, include_outbound=False):
                pass
        t.count_pages(); t.count_crawled_pages(); t.count_links(); t.metrics()
        list(t.lru_trie.dfs_iter())
        list(t.links_iter(out=True)); list(t.links_iter(out=False))
        list(t.webentity_prefix_iter())
        for w_, ps in _wes(t).items():
            t.get_webentity_pages(w_, ps)
            t.get_webentity_pagelinks(w_, ps, include_inbound=True, include_internal=True, include_outbound=True)
            t.get_webentity_most_linked_pages(w_, ps)
            t.get_webentity_child_webentities(w_, ps)
            t.paginate_webentity_pages(w_, ps, page_count=2)
        t.get_webentities_links(out=True); t.get_webentities_links(out=False)
        t.get_webentities_links_slow(out=True)
        return ("ok", pages, outl, inl)
    except Exception as e:
        import traceback
        return ("fail", "query raised %s: %s | %s" % (type(e).__name__, e, traceback.format_exc()[-300:]))
    finally:
        t.close()


def _wes(t):
    wes = {}
    for node, lru in t.webentity_prefix_iter():
        wes.setdefault(node.webentity(), []).append(lru)
    return wes


def _c18_worker(job):
    seed, cfg = job
    import os
    import shutil
    import tempfile
    import session as S
    rng = random.Random(seed)
    s = S.Session(rng, "f", record=True)
    s.traced = True
    out = {"seed": seed, "mismatches": [], "stats": {}, "ncmds": 0, "digest": 0, "nontrivial": True, "cuts": 0,
           "refused": 0, "opened": 0, "fault": None}
    scratch = tempfile.mkdtemp(prefix="verif-cut-")
    try:
        dflt = rng.choice([0, 1])
        s.do(1, [dflt, []])
        base_t, base_l = s.impl.file_bytes("t"), s.impl.file_bytes("l")
        mixw = dict(G.DEFAULT_MIX, reopen=0, clear=0, add_pages=10, add_links=20, batch=12)
        for i in range(cfg["nw"]):
            op, args = G.gen_write(rng, s.tr, mixw)
            if rng.random() < 0.25 and op == 2:
                args = [G.gen_lru(rng, weird=0.8), args[1]]     # long stems: multi-block appends
            s.do(op, args)
        trace = list(s.impl.trace)
        rules = list(s.tr.rules)
        final = _observe_cut(s.impl.folder, dflt, rules) if False else None
        s.impl.flush()
        full_t, full_l = s.impl.file_bytes("t"), s.impl.file_bytes("l")
        chk_t, chk_l = _apply_trace(base_t, base_l, trace, len(trace))
        if (chk_t, chk_l) != (full_t, full_l):
            out["fault"] = {"what": "replaying the recorded writes does not reproduce the files (harness assumption broken)"}
            return out
        def materialise(tb, lb, drop=None):
            for name, data in (("lru_trie.dat", tb), ("link_store.dat", lb)):
                path = os.path.join(scratch, name)
                if drop == name:
                    if os.path.exists(path):
                        os.remove(path)
                    continue
                with open(path, "wb") as f:
                    f.write(data)
        materialise(full_t, full_l)
        final = _observe_cut(scratch, dflt, rules)
        if final[0] != "ok":
            out["fault"] = {"what": "the completed history itself cannot be reopened and queried: %r" % (final,)}
            return out
        _, fpages, fout, fin = final
        cuts = list(range(len(trace) + 1))
        if len(cuts) > cfg["maxcuts"]:
            cuts = sorted(rng.sample(cuts, cfg["maxcuts"]))
        plan = [(k, None) for k in cuts]
        for k in cuts:
            if k < len(trace) and trace[k][1] is None and rng.random() < 0.5:
                plan.append((k, rng.choice([1, len(trace[k][2]) // 2, len(trace[k][2]) - 1])))
        plan.append(("missing", "lru_trie.dat"))
        plan.append(("missing", "link_store.dat"))
        for k, partial in plan:
            if k == "missing":
                tb, lb = _apply_trace(base_t, base_l, trace, len(trace) // 2)
                materialise(tb, lb, drop=partial)
                r = _observe_cut(scratch, dflt, rules)
                out["cuts"] += 1
                if r[0] != "refused":
                    out["fault"] = {"cut": "store %s missing" % partial, "what": "a folder with one store missing was not refused: %r" % (r[0],)}
                    break
                out["refused"] += 1
                continue
            tb, lb = _apply_trace(base_t, base_l, trace, k, partial)
            materialise(tb, lb)
            r = _observe_cut(scratch, dflt, rules)
            out["cuts"] += 1
            if partial is not None:
                if r[0] != "refused":
                    out["fault"] = {"cut": [k, partial], "what": "a partial block was not refused (%s)" % r[0]}
                    break
                out["refused"] += 1
                continue
            if r[0] == "refused":
                out["fault"] = {"cut": [k, None], "what": "whole-block cut refused"}
                break
            if r[0] == "fail":
                out["fault"] = {"cut": [k, None], "what": r[1]}
                break
            out["opened"] += 1
            _, pages, outl, inl = r
            bad = [l for l in pages if l not in fpages or (pages[l] and not fpages[l])]
            if bad:
                out["fault"] = {"cut": [k, None], "what": "page reported after the cut but not by the completed history: %r" % bad[0]}
                break
            for name, cur, fin_ in (("outbound", outl, fout), ("inbound", inl, fin)):
                bad = [p for p, w in cur.items() if w > fin_.get(p, 0)]
                if bad:
                    out["fault"] = {"cut": [k, None], "what": "%s link %r reported with a weight the completed history does not report" % (name, bad[0])}
                    break
            if out["fault"]:
                break
        # correspondence: the recorded trace equals the model's program-ordered writes
        mm = s.finish(bytes_facet=True)
        for m in mm:
            j = m.to_json()
            j["props"] = ["C18"] if m.side == "trace" or m.op in (43, 44) else []
            if j["props"]:
                out["mismatches"].append(j)
        out["ncmds"] = len(s.cmds)
        out["writes"] = len(trace)
        out["stats"] = dict(Counter("op%d" % c[0] for c in s.cmds))
        out["digest"] = hash(tuple(K.ser_cmds([c for c in s.cmds if c[0] in C.WRITE_OPS]))) & 0xFFFFFFFF
        if out["fault"] or out["mismatches"]:
            out["script"] = K.ser_cmds(s.cmds)
        else:
            out["sample"] = K.ser_cmds(s.cmds[:8])
        return out
    except Exception as e:
        import traceback
        out["error"] = "%s: %s" % (type(e).__name__, e)
        out["trace"] = traceback.format_exc()[-800:]
        return out
    finally:
        s.close()
        shutil.rmtree(scratch, ignore_errors=True)


def c18_runner(prop, tier, seed, replay):
    n = 800 if tier == "thorough" else 96
    jobs = [(seed * 100003 + i, {"nw": 14 if tier == "thorough" else 9, "maxcuts": 400 if tier == "thorough" else 40})
            for i in range(n)]
    if replay and replay_jobs(replay):
        jobs = replay_jobs(replay)
    results = pool_map(_c18_worker, jobs)
    violations = []
    for r in results:
        if r.get("error"):
            violations.append({"property": prop, "failing_input": False, "broken": "harness error: " + r["error"],
                               "trace": r.get("trace"), "seed": r["seed"]})
            break
    for r in results:
        if r.get("fault"):
            violations.append({"property": prop, "failing_input": True, "seed": r["seed"], "job": r.get("job"), "what": r["fault"]["what"],
                               "cut": r["fault"].get("cut"), "script": r.get("script"),
                               "how": "run the script on a fresh folder recording every storage write, rebuild both files from the "
                                      "first <cut> writes, reopen with Traph(folder)"})
            break
    if not violations:
        v, k = classify(prop, results, seed, allow_shrink=False)
        violations += v
    cov = coverage(results, "random write histories on a folder with every storage.write recorded (position, bytes); for every cut of "
                            "the program-ordered write sequence (sampled above a cap in the quick tier), at block granularity and with a "
                            "byte-partial last append, and with one store removed: both files are rebuilt, reopened with the real "
                            "Traph and traversed/queried; refusal must be the library's own error and happen iff a block is partial or a "
                            "store is missing; an opened index must answer every query and report only pages (with crawled marks) and "
                            "link weights that the completed history reports; the recorded trace is also compared write by write with "
                            "the model's trace (Traphw.v)")
    cov["cuts_examined"] = sum(r.get("cuts", 0) for r in results)
    cov["cuts_refused"] = sum(r.get("refused", 0) for r in results)
    cov["cuts_opened"] = sum(r.get("opened", 0) for r in results)
    cov["writes_recorded"] = sum(r.get("writes", 0) for r in results)
    return {"violations": violations[:3], "known": [], "cov": cov}


PROPS["C18"] = {"theorems": ["C18_trace_ok", "C18_cut_no_dangling"], "runner": c18_runner,
                "assumptions": ["crash model of the property: what persists is a prefix of the program-ordered writes, in-place "
                                "block rewrites are atomic, both files are cut at the same program point"]}


# ---- C16: cooperative interleaving of generator requests --------------------------------------------
def _c16_worker(job):
    seed, cfg = job
    import itertools
    import session as S
    rng = random.Random(seed)
    s = S.Session(rng, cfg.get("backend", "f"))
    out = {"seed": seed, "mismatches": [], "stats": {}, "ncmds": 0, "digest": 0, "nontrivial": True, "fault": None}
    try:
        s.do(1, [rng.choice([0, 1]), []])
        for op, args in cfg.get("prelude", []):
            s.do(op, args)
        for i in range(0 if cfg.get("nowrites") else rng.randint(2, cfg["nw"])):
            op, args = G.gen_write(rng, s.tr, dict(G.DEFAULT_MIX, reopen=0, clear=0))
            s.do(op, args)
        if cfg.get("drop_first"):
            # the same installation was issued before and dropped after a few steps: the one that follows must still
            # do all of its work (pages and links, the promise of this property, are not touched by an installation,
            # so the specification state stays exact)
            sp0, steps = cfg["drop_first"]
            s.abandon(rng, given=([list(sp0)], [0] * steps, 0), retry=False)
            s.spec_off = False
        specs = cfg.get("specs")
        if specs is not None and cfg.get("query_of"):
            # the page-link query is about the webentity that holds this page now
            specs = [list(x) for x in specs]
            w = s.do(20, [cfg["query_of"]])
            wes = s.webentities()
            for sp in specs:
                if sp[0] == 4 and sp[1] is None:
                    if C.is_err(w) or w not in wes:
                        sp[0:3] = [4, 1, [cfg["query_of"]]]
                    else:
                        sp[1], sp[2] = w, wes[w]
        if specs is None:
            specs = []
            shared = [G.pick_lru(rng, s.tr) for _ in range(3)]      # pages several batches touch
            for k in range(rng.randint(2, 3)):
                r = rng.random()
                if r < 0.65 or k == 0:
                    pool = shared + [G.pick_lru(rng, s.tr) for _ in range(rng.randint(1, 3))]
                    data, seen = [], set()
                    for _ in range(rng.randint(1, 3)):
                        src = rng.choice(pool)
                        if src in seen:
                            continue
                        seen.add(src)
                        data.append([src, [rng.choice(pool) for _ in range(rng.choice([0, 1, 2, 3]))]])
                    specs.append([0, data])
                elif r < 0.78:
                    specs.append([1, G.pick_prefix(rng, s.tr), rng.choice([0, 1, 2, 3])])
                elif r < 0.86:
                    specs.append([3, rng.randint(0, 1), rng.randint(0, 1)])
                elif r < 0.93:
                    wes = s.webentities()
                    if wes:
                        w = rng.choice(list(wes))
                        fl = rng.choice([(0, 1, 0), (0, 1, 0), (0, 1, 1), (1, 1, 1), (1, 0, 0), (0, 0, 1)])
                        specs.append([4, w, wes[w]] + list(fl))
                    else:
                        specs.append([3, 1, 0])
                else:
                    wes = s.webentities()
                    if wes:
                        w = rng.choice(list(wes))
                        specs.append([2, w, wes[w]])
                    else:
                        specs.append([1, G.pick_prefix(rng, s.tr), rng.choice([0, 1, 2])])
        sched = cfg.get("sched")
        if sched is None:
            sched = [rng.randrange(len(specs)) for _ in range(rng.randint(0, 50))]
        # what the page queries may / must return
        before = {}
        for k, sp in enumerate(specs):
            if sp[0] == 2:
                a = s.do(24, [sp[1], sp[2]])
                before[k] = None if C.is_err(a) else set(x[0] for x in a)
        res = s.do(80, [specs, sched])
        if C.is_err(res):
            out["fault"] = {"what": "the interleaved run failed: %s" % getattr(res, "detail", res)}
        else:
            for k, (sp, r) in enumerate(zip(specs, res)):
                if isinstance(r[1], I.Crash):
                    out["fault"] = {"what": "request %d of the interleaving failed: %s" % (k, r[1].detail)}
        for sp in specs:
            if sp[0] == 0:
                for src, tg in sp[1]:
                    s.tr.lrus += [src] + list(tg)
                    s.tr.pages += [src] + list(tg)
        allpages = s.do(35, [])
        s.do(38, [])
        s.do(37, [1])
        s.do(37, [0])
        for l in list(dict.fromkeys(p for sp in specs if sp[0] == 0 for src, tg in sp[1] for p in [src] + list(tg)))[:8]:
            s.do(33, [l, 1, 1, 1])
        if not out["fault"] and not C.is_err(res) and not C.is_err(allpages):
            for k, sp in enumerate(specs):
                if sp[0] == 2 and before.get(k) is not None and not C.is_err(res[k][1]):
                    after = s.do(24, [sp[1], sp[2]])
                    got = [x[0] for x in res[k][1]]
                    if len(set(got)) != len(got):
                        out["fault"] = {"what": "page query under interleaving lists a page twice"}
                    if not C.is_err(after):
                        must = before[k] & set(x[0] for x in after)
                        may = set(x[0] for x in allpages if any(x[0].startswith(p) for p in sp[2]))
                        if not must <= set(got):
                            out["fault"] = {"what": "page query under interleaving misses a page that qualified throughout: %r" % sorted(must - set(got))[:1]}
                        elif not set(got) <= may:
                            out["fault"] = {"what": "page query under interleaving returned a page that qualified at no moment"}
        if not out["fault"] and not C.is_err(res):
            moments = getattr(s.impl, "last_moments", {})
            for k, sp in enumerate(specs):
                if sp[0] != 2 or C.is_err(res[k][1]) or k not in moments or any(m is None for m in moments[k]) or not moments[k]:
                    continue
                got = set(x[0] for x in res[k][1])
                if set.intersection(*moments[k]) - got:
                    out["fault"] = {"what": "page query under interleaving misses a page that qualified at every moment: %r"
                                            % (sorted(set.intersection(*moments[k]) - got)[0],)}
                elif got - set.union(*moments[k]):
                    out["fault"] = {"what": "page query under interleaving returned a page that qualified at no moment: %r"
                                            % (sorted(got - set.union(*moments[k]))[0],)}
            for k, sp in enumerate(specs):
                if sp[0] != 3 or C.is_err(res[k][1]) or k not in moments or any(m is None for m in moments[k]) or not moments[k]:
                    continue
                got = set((x[0], x[2]) for x in res[k][1] if x[1] == 0)
                coarse = [m[0] for m in moments[k]]
                fine = set(x[2] for x in set.intersection(*[m[1] for m in moments[k]]))
                if fine - got:
                    out["fault"] = {"what": "network query under interleaving misses the edge %r although one page link sustained it "
                                            "at every moment of the query" % (sorted(fine - got)[0],)}
                elif got - set.union(*coarse):
                    # finding F10 (call site: the page -> webentity map that get_webentities_links_iter fills across its yields)
                    out["f10"] = {"edge": sorted(got - set.union(*coarse))[0], "kind": "reports an edge that the uninterrupted query reports at no moment",
                                  "script": K.ser_cmds(s.cmds)}
                elif set.intersection(*coarse) - got:
                    out["f10"] = {"edge": sorted(set.intersection(*coarse) - got)[0],
                                  "kind": "omits an edge that the uninterrupted query reports at every moment (sustained by different page links)",
                                  "script": K.ser_cmds(s.cmds)}
            for k, sp in enumerate(specs):
                if sp[0] != 4 or C.is_err(res[k][1]) or k not in moments or any(m is None for m in moments[k]):
                    continue
                got = [tuple(x) for x in res[k][1]]
                # a link qualifies under a clause (inbound, internal, outbound); throughout = under one clause at every moment
                must, may = set(), set()
                for c in range(3):
                    if sp[3 + c] and moments[k]:
                        must |= set.intersection(*[set((a, b) for a, b, _w in m[c]) for m in moments[k]])
                        may |= set.union(*[set(m[c]) for m in moments[k]])
                missing = must - set((a, b) for a, b, _w in got)
                extra = [x for x in got if x not in may]
                if missing:
                    out["fault"] = {"what": "page-link query under interleaving misses a link that qualified throughout: %r" % (sorted(missing)[0],)}
                elif extra and (sp[3], sp[4], sp[5]) in cfg.get("may_modes", [(0, 1, 0)]):
                    out["fault"] = {"what": "page-link query under interleaving returned a link that qualified at no moment: %r" % (extra[0],)}
                elif extra:
                    # finding F11 (call site: get_webentity_pagelinks_iter resolves the other end of a link after its yields)
                    out["f11"] = {"link": extra[0], "flags": [sp[3], sp[4], sp[5]], "script": K.ser_cmds(s.cmds)}
                    out["stats_extra"] = out.get("stats_extra", 0) + 1
        # read-only requests interleaved with each other: each must answer what it answers alone
        if not out["fault"] and not getattr(s, "dead", False):
            wes = s.webentities()
            if wes:
                ro = []
                for _k in range(rng.randint(2, 3)):
                    w = rng.choice(list(wes))
                    ps = list(wes[w])
                    ro.append(rng.choice([["pages", w, ps], ["crawled", w, ps], ["most", w, ps, rng.choice([1, 2, 5]), rng.choice([None, 0, 1])],
                                          ["children", w, ps], ["plinks", w, ps, rng.randint(0, 1), 1, rng.randint(0, 1)],
                                          ["outlinks", w, ps], ["inlinks", w, ps], ["outlinks", w, ps], ["inlinks", w, ps],
                                          ["net", rng.randint(0, 1), rng.randint(0, 1)], ["netslow", rng.randint(0, 1), rng.randint(0, 1)]]))
                rsched = [rng.randrange(len(ro)) for _k in range(rng.randint(2, 40))]
                rr = s.impl.interleave_ro(ro, rsched)
                out["ro_interleavings"] = 1
                if isinstance(rr, I.Crash):
                    out["fault"] = {"what": "read-only requests interleaved with each other failed: %s" % rr.detail,
                                    "ro_specs": repr(ro), "ro_sched": rsched}
                elif rr is not I.REFUSED:
                    for k, (a, b) in enumerate(zip(*rr)):
                        if a != b:
                            out["fault"] = {"what": "read-only request %r interleaved with other read-only requests answers %r, alone %r"
                                                    % (ro[k][0], a if a is None else a[:4], b if b is None else b[:4]),
                                            "ro_specs": repr(ro), "ro_sched": rsched}
                            break
        s.do(43, [])
        s.do(44, [])
        mm = s.finish(bytes_facet=False)
        for m in mm:
            j = m.to_json()
            # the specification side applies the requests one after another: only the page set and the link multigraph are promised
            if m.side == "model" or (m.side == "spec" and m.op in (35, 37, 38, 33)):
                j["props"] = ["C16"]
                out["mismatches"].append(j)
        out["ncmds"] = len(s.cmds)
        out["stats"] = {"coroutines": len(specs), "schedule_steps": len(sched),
                        "batches": sum(1 for x in specs if x[0] == 0), "rule_installs": sum(1 for x in specs if x[0] == 1),
                        "page_queries": sum(1 for x in specs if x[0] == 2),
                        "network_queries": sum(1 for x in specs if x[0] == 3),
                        "pagelink_queries": sum(1 for x in specs if x[0] == 4),
                        "pagelink_items_outside_every_moment": out.pop("stats_extra", 0),
                        "read_only_interleavings": out.pop("ro_interleavings", 0)}
        out["digest"] = hash((tuple(K.ser_cmds(s.cmds[:3])), I.fmt(specs), tuple(sched))) & 0xFFFFFFFF
        if out["fault"] or out["mismatches"]:
            out["script"] = K.ser_cmds(s.cmds)
            out["metas"] = s.meta
        else:
            out["sample"] = K.ser_cmds([c for c in s.cmds if c[0] == 80])[:1]
        return out
    except Exception as e:
        import traceback
        out["error"] = "%s: %s" % (type(e).__name__, e)
        out["trace"] = traceback.format_exc()[-800:]
        return out
    finally:
        s.close()


def c16_runner(prop, tier, seed, replay):
    import itertools
    n = 2500 if tier == "thorough" else 240
    jobs = [(seed * 100003 + i, {"nw": 10, "backend": "f" if i % 4 else "m"}) for i in range(n)]
    # every interleaving of two small batches that share pages (and of a batch with a page query), on a fixed start
    A = b"s:http|h:com|h:site|p:a|"; B = b"s:http|h:com|h:site|p:a|p:b|"; Cc = b"s:http|h:com|h:site|p:c|"; D = b"s:http|h:org|h:b|"
    b1 = [0, [[A, [B, Cc]], [Cc, [A]]]]
    b2 = [0, [[B, [A, D]], [A, [Cc]]]]
    nsched = 0
    for pair, steps in (([b1, b2], (5, 5)),):
        allsched = set(itertools.permutations([0] * steps[0] + [1] * steps[1])) if tier == "thorough" else None
        if allsched is None:
            rng = random.Random(seed)
            allsched = set()
            while len(allsched) < 60:
                x = [0] * steps[0] + [1] * steps[1]
                rng.shuffle(x)
                allsched.add(tuple(x))
        for sc in sorted(allsched):
            jobs.append((seed, {"nw": 3, "specs": pair, "sched": list(sc)}))
            nsched += 1
    if replay and replay_jobs(replay):
        jobs = replay_jobs(replay)
    # a rule installation against a batch that touches the anchor node itself (new sibling stems of the anchor,
    # new children, links to the anchor when it is a page): the installer holds a copy of that node across its yields
    rng = random.Random(seed + 5)
    nrule = 400 if tier == "thorough" else 120
    for _ in range(nrule):
        host = rng.choice([b"site", b"a", b"twitter"])
        anchor = b"s:http|h:com|h:" + host + b"|" + (b"p:blog|" if rng.random() < 0.3 else b"")
        parent = b"".join(x + b"|" for x in anchor.split(b"|")[:-2])
        tag = anchor.split(b"|")[-2][:2]
        sibs = [parent + tag + x + b"|" for x in (b"zzz", b"aaa", host + b"x", b"b")]
        below = [anchor + b"p:" + x + b"|" for x in (b"a", b"b", b"c|p:d")]
        pool = [rng.choice(sibs) + b"p:a|", rng.choice(sibs) + b"p:b|", rng.choice(sibs), rng.choice(below), anchor]
        data, seen = [], set()
        for _k in range(rng.randint(1, 3)):
            src = rng.choice(pool)
            if src in seen:
                continue
            seen.add(src)
            data.append([src, [rng.choice(pool) for _j in range(rng.randint(1, 3))]])
        specs = [[1, anchor, rng.choice([1, 2, 2, 3])], [0, data]]
        if rng.random() < 0.3:
            specs.append([0, [[rng.choice(pool), [rng.choice(pool)]]]])
        sched = [rng.randrange(len(specs)) for _k in range(rng.randint(4, 30))]
        jobs.append((seed + len(jobs), {"nw": 2, "specs": specs, "sched": sched,
                                        "prelude": [[2, [rng.choice(below), rng.randint(0, 1)]], [2, [rng.choice(below), 0]], [2, [anchor, 1]]]}))
        if rng.random() < 0.3:
            jobs[-1][1]["drop_first"] = (specs[0], rng.randint(1, 4))
            jobs[-1][1]["nowrites"] = True
            jobs[-1][1]["prelude"] = [[1, [rng.choice([0, 1]), []]]] + [[2, [x, rng.randint(0, 1)]] for x in below + [below[2] + b"p:e|", anchor + b"p:zz|p:y|"]]
    # a page-link query against writers that move its sources and targets into new webentities while it runs (a batch
    # adding pages on the other scheme of the site, where a creation rule sits; a rule installation inside the site)
    nplq = 500 if tier == "thorough" else 90
    rng = random.Random(seed + 11)
    for _ in range(nplq):
        host = rng.choice([b"site", b"a"])
        https, http = b"s:https|h:com|h:" + host + b"|", b"s:http|h:com|h:" + host + b"|"
        tails = [b"p:a|", b"p:z|", b"p:foo|", b"p:foo|p:x|", b"p:foo|p:y|", b"p:m|", b"p:m|p:n|", b""]
        side = rng.choice([https, https, http])
        other = http if side == https else https
        pages = [side + t for t in rng.sample(tails, rng.randint(3, 6))]
        links = [[rng.choice(pages), rng.choice(pages)] for _k in range(rng.randint(2, 7))]
        rules = [[other, rng.choice([2, 2, 3])]] if rng.random() < 0.7 else []
        prelude = [[1, [rng.choice([0, 1, 1]), rules]], [3, [pages, 1]], [4, [links]]]
        newp = [other + t for t in tails if t] + [side + b"p:foo|p:new|", side + b"p:zz|"]
        data, seen = [], set()
        for _k in range(rng.randint(1, 3)):
            src = rng.choice(pages + newp)
            if src in seen:
                continue
            seen.add(src)
            data.append([src, [rng.choice(newp + pages) for _j in range(rng.randint(1, 3))]])
        deep = [x for x in pages if x.count(b"|p:") >= 2]
        if deep and rng.random() < 0.5:
            # a link that appears only after its target has left the webentity: the batch first adds the page on the other
            # scheme that makes a creation rule fire above the target, then links to the target from a later source
            tg = rng.choice(deep)
            top = b"|".join(tg[len(side):].split(b"|")[:1]) + b"|"
            prelude[2][1][0].append([rng.choice(pages), tg])
            data = [[rng.choice([side + b"p:zz|", side + b"p:z|", rng.choice(pages)]), [other + top, tg]]]
            prelude[0][1][1] = [[other, 2]]
            biased = True
        else:
            biased = False
        fl = rng.choice([(0, 1, 0), (0, 1, 0), (0, 1, 1), (1, 1, 1), (0, 0, 1), (1, 0, 0)])
        if biased and rng.random() < 0.6:
            fl = (0, 1, 0)
        specs = [[4, None, None] + list(fl), [0, data]]
        if rng.random() < 0.5 and not biased:
            specs.append([1, rng.choice([side + b"p:foo|", side + b"p:m|", other, side]), rng.choice([2, 3, 0])])
        sched = [rng.choice([0, 0, 1, 1, 2]) % len(specs) for _k in range(rng.randint(4, 40))]
        if biased and rng.random() < 0.7:
            # the query makes a few steps, the batch runs to its end, the query finishes
            sched = [0] * rng.randint(1, 5) + [1] * 12
        jobs.append((seed + len(jobs), {"nw": 2, "specs": specs, "sched": sched, "prelude": prelude, "nowrites": True,
                                        "query_of": rng.choice(pages)}))
    # the witness of SchedRefute.C16_network_no_moment_refuted (finding F10), and random variants of it: a network query
    # against a rule installation / batch that moves two linked pages of one webentity into one new webentity
    Sx, Tx, Px = b"s:https|h:com|h:a|p:m|p:x|", b"s:http|h:com|h:a|p:m|p:y|", b"s:http|h:com|h:a|"
    jobs.append((seed, {"nw": 2, "nowrites": True, "prelude": [[1, [0, []]], [2, [Sx, 0]], [2, [Tx, 0]], [4, [[[Sx, Tx]]]]],
                        "specs": [[3, 1, 0], [1, Px, 2]], "sched": [0, 1, 1, 1, 1, 1, 0, 0, 0]}))
    Ax, Bx, Cx = b"s:https|h:com|h:a|p:m|p:n|", b"s:https|h:com|h:a|p:m|", b"s:https|h:com|h:a|p:k|"
    jobs.append((seed, {"nw": 2, "nowrites": True, "may_modes": [(0, 1, 0)],
                        "prelude": [[1, [0, [[Px, 2]]]], [3, [[Ax, Bx, Cx], 0]], [4, [[[Ax, Bx], [Ax, Cx]]]]],
                        "specs": [[4, 1, [b"s:https|h:com|h:a|"], 0, 0, 1], [0, [[b"s:http|h:com|h:a|p:m|p:q|", []]]]],
                        "sched": [0, 1, 1, 1, 0, 0, 0]}))      # SchedRefute.C16_pagelinks_outbound_no_moment_refuted (F11)
    rng = random.Random(seed + 13)
    for _ in range(200 if tier == "thorough" else 40):
        pg = [sc + b"h:com|h:a|" + t for sc in (b"s:http|", b"s:https|") for t in (b"p:m|p:x|", b"p:m|p:y|", b"p:m|", b"p:k|", b"")]
        pages = rng.sample(pg, rng.randint(2, 6))
        links = [[rng.choice(pages), rng.choice(pages)] for _k in range(rng.randint(1, 5))]
        specs = [[3, rng.randint(0, 1), rng.randint(0, 1)], [1, rng.choice([Px, b"s:https|h:com|h:a|"]), rng.choice([2, 3])]]
        if rng.random() < 0.4:
            specs.append([0, [[rng.choice(pg), [rng.choice(pg) for _j in range(rng.randint(1, 2))]]]])
        jobs.append((seed + len(jobs), {"nw": 2, "nowrites": True, "specs": specs,
                                        "prelude": [[1, [rng.choice([0, 1]), []]], [3, [pages, 0]], [4, [links]]],
                                        "sched": [rng.randrange(len(specs)) for _k in range(rng.randint(2, 30))]}))
    results = pool_map(_c16_worker, jobs)
    violations = []
    for r in results:
        if r.get("error"):
            violations.append({"property": prop, "failing_input": False, "broken": "harness error: " + r["error"], "trace": r.get("trace")})
            break
    for r in results:
        if r.get("fault"):
            violations.append({"property": prop, "failing_input": True, "seed": r["seed"], "job": r.get("job"), "what": r["fault"]["what"],
                               "script": r.get("script"), "read_only_requests": r["fault"].get("ro_specs"), "read_only_schedule": r["fault"].get("ro_sched")})
            break
    known = []
    import check_main as M
    f10 = [r for r in results if r.get("f10")]
    f11 = [r for r in results if r.get("f11")]
    for tag, rs, note, key in (
            ("f10", f10, "F10: the network query (get_webentities_links_iter) interleaved with a writer that creates webentities %s"
             % (f10[0]["f10"]["kind"] if f10 else ""), "edge"),
            ("f11", f11, "F11: the page-link query (get_webentity_pagelinks_iter, inbound/outbound clauses) interleaved with a writer that "
                         "creates webentities reports a link that qualified at no moment", "link")):
        if not rs:
            continue
        k = M.match_known(prop, note)
        if k:
            known.append("%s (%d interleavings of this run, e.g. %s %r, seed %s)" % (k["what"], len(rs), key, rs[0][tag][key], rs[0]["seed"]))
        elif not violations:
            violations.append({"property": prop, "failing_input": True, "seed": rs[0]["seed"], "job": rs[0].get("job"),
                               "what": note + ": %r" % (rs[0][tag][key],), "script": rs[0][tag]["script"]})
    if not violations:
        v, k = classify(prop, results, seed, allow_shrink=False)
        violations += v
    cov = coverage(results, "random start histories, then 2-3 generator requests (crawl batches sharing pages, rule installations, "
                            "webentity page queries) started together and advanced by a random schedule with EVERY loop iteration a yield "
                            "point (should_yield forced), unfinished ones completed afterwards; plus interleavings of two fixed batches that "
                            "share pages (all 252 in the thorough tier); executed on the real generators and on the coroutine model "
                            "(Sched.v): replies, answers and raw bytes compared; final pages and link multigraph compared with the "
                            "specification's sequential application; every query (page, network, page-link) compared with the "
                            "uninterrupted query run on the real index at every moment from the query's first step to its last: nothing "
                            "that qualified throughout (per clause / per sustaining page link) may be missing, nothing that qualified at no "
                            "moment may be reported (known findings F10, F11 apart); scenario families: a rule installation against batches "
                            "that touch its anchor node, a page-link query against writers that move its sources and targets, the F10/F11 "
                            "witnesses and variants; and 2-3 read-only requests of any kind interleaved with each other, each of which must "
                            "answer exactly what it answers alone")
    cov["fixed_pair_schedules"] = nsched
    cov["network_queries_outside_the_edge_sandwich_F10"] = len(f10)
    cov["pagelink_queries_with_a_link_of_no_moment_F11"] = len(f11)
    return {"violations": violations[:3], "known": known, "cov": cov}


PROPS["C16"] = {"theorems": ["C16_alone_is_batch", "C16_schedule_independent"], "runner": c16_runner,
                "assumptions": ["yield points = the places where the generators call should_yield; a scheduler step runs one generator "
                                "from one yield to the next, atomically (cooperative, single-threaded)"]}
K.FACET_OPS["C16"] = {35, 37, 38, 33, 43, 44}
