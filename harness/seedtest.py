#!/venv/bin/python
"""seedtest.py <mutation dir> <property id> [--keep]
Confirm a seeded change (patch.diff + demo.py) in a scratch worktree, then run the
property's check against /repo with the change applied, and undo it.
Prints a JSON summary; with --keep also files the change under /verif/seeded/<name>/."""
import json
import os
import shutil
import subprocess
import sys
import tempfile

ROOT = os.path.dirname(os.path.dirname(os.path.abspath(__file__)))


def sh(cmd, cwd=None, env=None, timeout=1800):
    p = subprocess.run(cmd, shell=True, cwd=cwd, env=env, stdout=subprocess.PIPE, stderr=subprocess.STDOUT, timeout=timeout)
    return p.returncode, p.stdout.decode(errors="replace")


def main():
    mdir, prop = sys.argv[1], sys.argv[2]
    keep = "--keep" in sys.argv
    tiers = ["quick"] + (["thorough"] if "--thorough" in sys.argv else [])
    patch = os.path.join(mdir, "patch.diff")
    demo = os.path.join(mdir, "demo.py")
    out = {"mutation": mdir, "property": prop}
    wt = tempfile.mkdtemp(prefix="seedchk-")
    os.rmdir(wt)
    try:
        rc, o = sh("git -C /repo worktree add -q %s HEAD" % wt)
        assert rc == 0, o
        env = dict(os.environ, PYTHONPATH=wt)
        shutil.copy(demo, os.path.join(wt, "demo.py"))
        rc0, o0 = sh("/venv/bin/python demo.py", cwd=wt, env=env)
        rc, o = sh("git apply %s" % os.path.abspath(patch), cwd=wt)
        out["patch_applies"] = rc == 0
        rct, ot = sh("/venv/bin/python -m pytest -q -p no:cacheprovider 2>&1 | tail -2", cwd=wt, env=env)
        out["suite_with_change"] = ot.strip().split("\n")[-1]
        rc1, o1 = sh("/venv/bin/python demo.py", cwd=wt, env=env)
        out["demo_clean_exit"], out["demo_changed_exit"] = rc0, rc1
        out["demo_changed_tail"] = o1.strip()[-300:]
        out["confirmed"] = bool(out["patch_applies"] and rc0 == 0 and rc1 != 0 and "31 passed" in ot)
    finally:
        sh("git -C /repo worktree remove --force %s" % wt)
    # run the checks on /repo with the change applied (VERIF_SEED_SCRATCH=1: on a scratch worktree of /repo instead, with
    # the checks of the copy of /verif named by VERIF_CHECK_ROOT - used while other jobs need /repo and /verif/coq untouched)
    scratch = os.environ.get("VERIF_SEED_SCRATCH") == "1"
    check_root = os.environ.get("VERIF_CHECK_ROOT", ROOT)
    target = "/repo"
    cenv = dict(os.environ)
    if scratch:
        target = tempfile.mkdtemp(prefix="seedrepo-")
        os.rmdir(target)
        rc, o = sh("git -C /repo worktree add -q --detach %s HEAD" % target)
        assert rc == 0, o
        cenv["VERIF_REPO"] = target
    rc, o = sh("git -C %s status --porcelain" % target)
    assert o.strip() == "", "%s is not clean: %s" % (target, o)
    rc, o = sh("git -C %s apply %s" % (target, os.path.abspath(patch)))
    assert rc == 0, o
    # the evidence file of the property records runs on the UNCHANGED tree only: put it back afterwards
    evf = os.path.join(ROOT, "evidence", "%s.json" % prop)
    saved_ev = open(evf, "rb").read() if os.path.exists(evf) else None
    try:
        out["checks"] = {}
        for tier in tiers:
            rc, o = sh("./check %s --tier %s" % (prop, tier), cwd=check_root, env=cenv, timeout=3600)
            lines = [l for l in o.split("\n") if l.startswith(("VIOLATION", "KNOWN-FINDING", "OK"))]
            det = []
            for l in lines:
                if l.startswith("VIOLATION"):
                    path = l.split("replay=")[1].split()[0]
                    try:
                        j = json.load(open(path))
                        det.append({"failing_input": j.get("failing_input"), "what": (j.get("what") or j.get("broken") or "")[:300]
                                    if isinstance(j.get("what") or j.get("broken"), str) else str(j.get("what") or j.get("broken"))[:300]})
                    except Exception as e:
                        det.append({"error": str(e)})
            out["checks"][tier] = {"exit": rc, "lines": [l[:200] for l in lines], "details": det}
            if any(d.get("failing_input") for d in det):
                break
    finally:
        if scratch:
            sh("git -C /repo worktree remove --force %s" % target)
        else:
            sh("git -C /repo checkout -- .")
        if saved_ev is not None:
            open(evf, "wb").write(saved_ev)
    rc, o = sh("git -C /repo status --porcelain")
    assert o.strip() == "", "/repo not restored: " + o
    out["detected"] = any(c["exit"] != 0 for c in out["checks"].values())
    out["detected_with_failing_input"] = any(d.get("failing_input") for c in out["checks"].values() for d in c["details"])
    print(json.dumps(out, indent=1))
    if keep:
        import re as _re
        name = _re.sub(r"^mut(\d+)_", lambda m: "r%s-" % m.group(1), os.path.basename(os.path.normpath(mdir)).replace("mut_", ""))
        dst = os.path.join(ROOT, "seeded", name)
        os.makedirs(dst, exist_ok=True)
        shutil.copy(patch, os.path.join(dst, "patch.diff"))
        shutil.copy(demo, os.path.join(dst, "demo.py"))
        meta = {}
        mp = os.path.join(mdir, "meta.json")
        if os.path.exists(mp):
            try:
                meta = json.load(open(mp))
            except Exception:
                meta = {"raw": open(mp).read()}
        meta["verif"] = {"confirmed_in_scratch_worktree": out["confirmed"], "suite_with_change": out["suite_with_change"],
                         "demo_exit_clean": out["demo_clean_exit"], "demo_exit_changed": out["demo_changed_exit"],
                         "check_run": out["checks"], "detected": out["detected"],
                         "detected_with_failing_input": out["detected_with_failing_input"],
                         "ran": "harness/seedtest.py %s %s" % (mdir, prop)}
        json.dump(meta, open(os.path.join(dst, "meta.json"), "w"), indent=1)


if __name__ == "__main__":
    main()
