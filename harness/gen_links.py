#!/venv/bin/python
"""Translate the link store (traph/link_store/node.py: the whole LinkStoreNode class; link_store.py:
LinkStore.add_links, link_nodes_iter, weighted_link_nodes_iter, deduped_link_nodes_iter; and the three
`out`-parameterised accessors has_links / links / set_links of LRUTrieNode) from the Python AST into
Gallina: coq/theories/GenLinks.v, regenerated on every run.  GenLinksFacts.v proves that the translated
add_links appends exactly the stubs of the model's Traph.push_stubs and re-heads the page's list, and that
the three traversals return Traph.targets_of / weighted / deduped of the model's stub list.

Objects.  A LinkStoreNode is the record py_lnode (block : option N, exists : bool, data : list fval); its
storage is the MemoryStorage object of GenStorage.v (`sg`, threaded through every call that touches it).
The source page of add_links is the py_node of GenNode.v and is written with the translated
LRUTrieNode.write (py_node_write) into the trie storage `sgt`.
Exceptions.  A function in which a `raise` / `assert` is reachable returns an option: None = "raises" (what the
stores look like after a raise is not described).  Passing None where the callee compares or packs an
integer (TypeError / struct.error in Python) is None as well.
Loops.  `while <cond>:` becomes a local fix on fuel 1 + number of bytes of the store (every iteration of the
three traversals reads one more stub; GenLinksFacts proves the fuel suffices on a well-formed store);
`for x in <list>:` a fold in the option monad.  Generators return the list of what they yield.
Counter() and set() are association lists / lists in first-insertion order (Python dicts keep insertion order;
the order of a set is never observed here: only `len` and membership).
Everything outside these shapes fails closed."""
import ast
import os
import sys

REPO = os.environ.get("VERIF_REPO", "/repo")


class Unsupported(Exception):
    pass


CONSTS = {"LINK_STORE_NODE_FORMAT": ("stub_format", "fmt"), "LINK_STORE_NODE_TARGET": ("spos_target", "pos"),
          "LINK_STORE_NODE_PREVIOUS": ("spos_previous", "pos"), "LINK_STORE_FIRST_DATA_BLOCK": ("py_link_first_data_block", "N"),
          "LRU_TRIE_FIRST_DATA_BLOCK": ("py_first_data_block", "N"),
          "LRU_TRIE_NODE_OUTLINKS_BLOCK": ("pos_out", "pos"), "LRU_TRIE_NODE_INLINKS_BLOCK": ("pos_in", "pos")}
# flag bits and the flags register (used by gen_triew.py)
FLAGCONSTS = {"LRU_TRIE_NODE_FLAGS": "pos_flags", "LRU_TRIE_NODE_FLAG_PAGE": "flag_page", "LRU_TRIE_NODE_FLAG_CRAWLED": "flag_crawled",
              "LRU_TRIE_NODE_FLAG_WEBENTITY_CREATION_RULE": "flag_rule", "LRU_TRIE_NODE_FLAG_NO_CHILD_WEBENTITIES": "flag_nochild",
              "LRU_TRIE_NODE_FLAG_HAS_TAIL": "flag_has_tail", "LRU_TRIE_NODE_FLAG_IS_TAIL": "flag_is_tail"}

COQT = {"N": "N", "oN": "option N", "bool": "bool", "bytes": "bytes", "obytes": "option bytes", "fvals": "list fval",
        "pos": "nat", "lnode": "py_lnode", "olnode": "option py_lnode", "listN": "list N",
        "counter": "list (option N * N)", "oNset": "list (option N)", "tnode": "py_node", "otnode": "option py_node",
        "listB": "list bytes", "listT": "list py_node", "hist": "py_hist"}

# attributes of the two node classes: name -> type; the setters are <prefix>_set_<attr>
ATTRS = {"lnode": ("ln", {"block": "oN", "exists": "bool", "data": "fvals"}),
         "tnode": ("nd", {"block": "oN", "exists": "bool", "tail": "bytes", "data": "fvals"}),
         "hist": ("hs", {"lru": "bytes", "webentity": "oN", "webentity_prefix": "bytes", "webentity_position": "oN",
                         "webentity_creation_rules": "listN", "page_was_created": "bool"})}

PREAMBLE = r"""Record py_lnode := mk_ln { ln_block : option N; ln_exists : bool; ln_data : list fval }.
Definition ln_set_block (v : option N) (n : py_lnode) := mk_ln v (ln_exists n) (ln_data n).
Definition ln_set_exists (v : bool) (n : py_lnode) := mk_ln (ln_block n) v (ln_data n).
Definition ln_set_data (v : list fval) (n : py_lnode) := mk_ln (ln_block n) (ln_exists n) v.
Definition oN_eqb (a b : option N) : bool :=
  match a, b with Some x, Some y => N.eqb x y | None, None => true | _, _ => false end.
(* Counter: c[k] = v and c[k] += d, keys in first-insertion order *)
Fixpoint py_counter_set (k : option N) (v : N) (c : list (option N * N)) : list (option N * N) :=
  match c with
  | [] => [(k, v)]
  | (k', n) :: c' => if oN_eqb k k' then (k', v) :: c' else (k', n) :: py_counter_set k v c'
  end.
Fixpoint py_counter_add (k : option N) (d : N) (c : list (option N * N)) : list (option N * N) :=
  match c with
  | [] => [(k, d)]
  | (k', n) :: c' => if oN_eqb k k' then (k', N.add n d) :: c' else (k', n) :: py_counter_add k d c'
  end.
(* set.add *)
Definition py_set_add (k : option N) (s : list (option N)) : list (option N) :=
  if existsb (oN_eqb k) s then s else s ++ [k].
"""


class Fn(object):
    """one function.  self.recv: Coq variable that `self` denotes (None for LinkStore methods: `self` has no state but its
    storage).  self.opt: the function may raise.  self.gen: item type of a generator or None."""

    def __init__(self, tr, fn, recv, recv_type, opt, rtype, gen=None, decl=None):
        self.tr, self.fn, self.recv, self.recv_type, self.opt, self.rtype, self.gen = tr, fn, recv, recv_type, opt, rtype, gen
        self.decl = decl or {}
        self.loop_k = None
        self.has_sg = False
        self.sum_depth = 0       # > 0: inside a loop of the "early return" encoding (R + state)
        self.loops = []          # pack functions of the enclosing loops of that encoding
        self.gen_sg = False      # a generator that also returns the storage
        self.tnode_storage = "sgt"   # the storage LRUTrieNode.write goes to (add_links: the trie storage next to the link storage)
        self.rcoq = None         # Coq type of the function's result (needed by that encoding)

    # ---------- helpers ----------
    def const(self, name):
        if name not in CONSTS:
            raise Unsupported("constant %s" % name)
        return CONSTS[name]

    def flag_args(self, call, env):
        """(data term, register, bit) of flag / unflag / test (<obj>.data, LRU_TRIE_NODE_FLAGS, LRU_TRIE_NODE_FLAG_x)"""
        d, ta = self.expr(call.args[0], env)
        if ta != "fvals" or not all(isinstance(x, ast.Name) and x.id in FLAGCONSTS for x in call.args[1:]):
            raise Unsupported("flag helper arguments in %s" % self.fn.name)
        if call.args[1].id != "LRU_TRIE_NODE_FLAGS" or call.args[2].id == "LRU_TRIE_NODE_FLAGS":
            raise Unsupported("flag helper register in %s" % self.fn.name)
        return d, FLAGCONSTS[call.args[1].id], FLAGCONSTS[call.args[2].id]

    def coerce(self, a, ta, want):
        if ta == want:
            return a
        if (ta, want) in (("N", "oN"), ("lnode", "olnode"), ("bytes", "obytes"), ("tnode", "otnode")):
            return "(Some %s)" % a
        if ta == "none" and want in ("oN", "olnode", "obytes", "otnode"):
            return "None"
        raise Unsupported("cannot use %s as %s in %s" % (ta, want, self.fn.name))

    def some(self, x):
        return "(Some %s)" % x if self.opt else x

    def fail(self):
        if not self.opt:
            raise Unsupported("%s can raise but is declared total" % self.fn.name)
        return "(inl None)" if self.sum_depth else "None"

    def need(self, a, ta, want, k):
        """use a : ta where `want` is needed; an optional where a plain value is needed raises when it is None"""
        if ta == "oN" and want == "N":
            return "(match %s with\n | None => %s\n | Some v__x => %s end)" % (a, self.fail(), k("v__x"))
        return k(self.coerce(a, ta, want))

    # ---------- expressions (pure) ----------
    def expr(self, e, env):
        if isinstance(e, ast.Constant):
            if isinstance(e.value, bool):
                return ("true" if e.value else "false"), "bool"
            if isinstance(e.value, int) and e.value >= 0:
                return "%d%%N" % e.value, "N"
            if e.value is None:
                return "None", "none"
            if isinstance(e.value, bytes):
                return ("[" + "; ".join("%d%%N" % c for c in e.value) + "]" if e.value else "(@nil N)"), "bytes"
        if isinstance(e, ast.Name):
            if e.id in env:
                return "v_%s" % e.id, env[e.id]
            c, t = self.const(e.id)
            return c, t
        if isinstance(e, ast.Attribute) and isinstance(e.value, ast.Name):
            o = e.value.id
            ot = self.recv_type if o == "self" else env.get(o)
            ov = self.recv if o == "self" else "v_%s" % o
            if ot in ATTRS and e.attr in ATTRS[ot][1]:
                return "(%s_%s %s)" % (ATTRS[ot][0], e.attr, ov), ATTRS[ot][1][e.attr]
        if isinstance(e, ast.Subscript) and not isinstance(e.slice, ast.Slice):
            a, ta = self.expr(e.value, env)
            i, ti = self.expr(e.slice, env)
            if ta == "fvals" and ti == "pos":
                return "(py_get_num %s %s)" % (i, a), "N"
            if ta == "listB" and ti == "N":
                # an index the loop keeps below len(..): out of range would be an IndexError
                return "(nth (N.to_nat %s) %s (@nil N))" % (i, a), "bytes"
        if isinstance(e, ast.BinOp) and isinstance(e.op, (ast.Add, ast.Sub)):
            a, ta = self.expr(e.left, env)
            b, tb = self.expr(e.right, env)
            if ta == "bytes" and tb == "bytes" and isinstance(e.op, ast.Add):
                return "(%s ++ %s)" % (a, b), "bytes"
            if ta == "N" and tb == "N":
                return "(%s %s %s)" % ("N.add" if isinstance(e.op, ast.Add) else "N.sub", a, b), "N"
            raise Unsupported("arithmetic on %s, %s" % (ta, tb))
        if isinstance(e, ast.Compare) and len(e.ops) == 1:
            a, ta = self.expr(e.left, env)
            b, tb = self.expr(e.comparators[0], env)
            if ta == "N" and tb == "N":
                op = {ast.Lt: "(N.ltb %s %s)", ast.Gt: "(N.ltb %s %s)", ast.NotEq: "(negb (N.eqb %s %s))", ast.Eq: "(N.eqb %s %s)"}.get(type(e.ops[0]))
                if op:
                    if isinstance(e.ops[0], ast.Gt):
                        a, b = b, a
                    return op % (a, b), "bool"
            if ta == "bytes" and tb == "bytes":
                # Python compares bytes lexicographically by unsigned byte value: Bytes.lex
                op = {ast.Lt: "(blt %s %s)", ast.Eq: "(beq %s %s)"}.get(type(e.ops[0]))
                if op:
                    return op % (a, b), "bool"
            raise Unsupported("comparison of %s and %s" % (ta, tb))
        if isinstance(e, ast.BoolOp) and isinstance(e.op, ast.And):
            parts = [self.expr(v, env) for v in e.values]
            if any(t != "bool" for _, t in parts):
                raise Unsupported("and of non-booleans")
            return "(" + " && ".join(a for a, _ in parts) + ")", "bool"
        if isinstance(e, ast.UnaryOp) and isinstance(e.op, ast.Not):
            a, ta = self.expr(e.operand, env)
            if ta != "bool":
                raise Unsupported("not of %s" % ta)
            return "(negb %s)" % a, "bool"
        if isinstance(e, ast.Tuple) and len(e.elts) == 2:
            a, ta = self.expr(e.elts[0], env)
            b, tb = self.expr(e.elts[1], env)
            return "(%s, %s)" % (a, b), "pair:%s:%s" % (ta, tb)
        if isinstance(e, ast.Call):
            f = e.func
            if isinstance(f, ast.Name) and f.id == "len" and len(e.args) == 1 and not e.keywords:
                a, ta = self.expr(e.args[0], env)
                if ta in ("oNset", "listB", "bytes"):
                    return "(N.of_nat (length %s))" % a, "N"
                raise Unsupported("len of %s" % ta)
            if isinstance(f, ast.Name) and f.id == "list" and len(e.args) == 1 and not e.keywords:
                return self.expr(e.args[0], env)
            if isinstance(f, ast.Name) and f.id == "test" and len(e.args) == 3 and not e.keywords:
                # test(self.data, LRU_TRIE_NODE_FLAGS, <bit>): py_test of GenNode.v
                d, reg, bit = self.flag_args(e, env)
                return "(py_test %s (N.of_nat %s) %s)" % (d, reg, bit), "bool"
            if isinstance(f, ast.Name) and f.id == "lru_iter" and len(e.args) == 1 and not e.keywords:
                a, ta = self.expr(e.args[0], env)
                if ta != "bytes":
                    raise Unsupported("lru_iter of %s" % ta)
                return "(GenHelpers2.py_lru_iter %s)" % a, "listB"
            if isinstance(f, ast.Attribute) and isinstance(f.value, ast.Name) and f.value.id == "struct" and not e.keywords:
                c, t = self.const(e.args[0].id)
                if t != "fmt":
                    raise Unsupported("struct format")
                if f.attr == "unpack" and len(e.args) == 2:
                    a, ta = self.expr(e.args[1], env)
                    if ta != "bytes":
                        raise Unsupported("struct.unpack of %s" % ta)
                    return "(unpack %s %s)" % (c, a), "fvals"
                if f.attr == "pack" and len(e.args) == 2 and isinstance(e.args[1], ast.Starred):
                    a, ta = self.expr(e.args[1].value, env)
                    if ta != "fvals":
                        raise Unsupported("struct.pack of %s" % ta)
                    return "(pack %s %s)" % (c, a), "bytes"
            # pure methods
            if isinstance(f, ast.Attribute) and isinstance(f.value, ast.Name):
                o = f.value.id
                ot = self.recv_type if o == "self" else env.get(o)
                ov = self.recv if o == "self" else "v_%s" % o
                sig = self.tr.sigs.get((ot, f.attr))
                if sig and sig["kind"] == "pure":
                    args = self.args(e, sig, env)
                    return "(%s %s%s)" % (sig["coq"], ov, "".join(" " + x for x in args)), sig["rtype"]
        raise Unsupported("expression %s in %s" % (ast.dump(e)[:100], self.fn.name))

    def args(self, call, sig, env):
        """positional arguments, then the keyword arguments the signature names, each coerced to the parameter type (no
        raising coercion here: those are handled by the statement forms)"""
        params = list(sig["params"])
        got = {}
        for p, a in zip(params, call.args):
            got[p[0]] = a
        if len(call.args) > len(params):
            raise Unsupported("too many arguments")
        for kw in call.keywords:
            if kw.arg is None or kw.arg in got or kw.arg not in [p[0] for p in params]:
                raise Unsupported("keyword argument %s" % kw.arg)
            got[kw.arg] = kw.value
        out = []
        for name, ty, default in params:
            if name in got:
                a, ta = self.expr(got[name], env)
                out.append(self.coerce(a, ta, ty))
            elif default is not None:
                out.append(default)
            else:
                raise Unsupported("missing argument %s" % name)
        return out

    # ---------- statements ----------
    def block(self, stmts, env, k):
        if not stmts:
            return k(env)
        s, rest = stmts[0], stmts[1:]
        nxt = lambda env2=None: self.block(rest, env if env2 is None else env2, k)          # noqa: E731
        if isinstance(s, ast.Expr) and isinstance(s.value, ast.Constant) and isinstance(s.value.value, str):
            return nxt()
        if isinstance(s, ast.Raise):
            return self.fail()
        if isinstance(s, ast.Assert):
            return self.cond(s.test, env, lambda e2: self.block(rest, e2, k), lambda e2: self.fail())
        if isinstance(s, ast.Break):
            if not self.loops:
                raise Unsupported("break outside a loop of the early-exit encoding")
            return "(inr %s)" % self.loops[-1](env)
        if isinstance(s, ast.Return):
            if self.loop_k is not None:
                raise Unsupported("return inside a loop")
            if self.gen is not None:
                # `return` in a generator ends it
                if s.value is not None:
                    raise Unsupported("return with a value in a generator")
                t = self.some("(v__out, sg)" if self.gen_sg else "v__out")
                return "(inl %s)" % t if self.sum_depth else t
            if s.value is None:
                if self.rtype not in ("oN", "olnode", "obytes", "otnode"):
                    raise Unsupported("bare return")
                a, ta = "None", "none"
            elif isinstance(s.value, ast.Call) and isinstance(s.value.func, ast.Name) and s.value.func.id == "LRUTrieNode":
                # return LRUTrieNode(self.storage, block=...): a new node object
                t = "(let '(v__n, sg) := %s in %s)" % (self.tnode_ctor(s.value, env), self.ret("v__n", env))
                return "(inl %s)" % t if self.sum_depth else t
            elif isinstance(s.value, ast.Tuple) and len(s.value.elts) == 2 and (self.rtype or "").startswith("pair:"):
                # return x, y: each element coerced to its declared type
                _, w1, w2 = self.rtype.split(":")
                (x1, t1), (x2, t2) = [self.expr(x, env) for x in s.value.elts]
                a, ta = "(%s, %s)" % (self.coerce(x1, t1, w1), self.coerce(x2, t2, w2)), self.rtype
            else:
                a, ta = self.expr(s.value, env)
            t = self.ret(self.coerce(a, ta, self.rtype), env)
            return "(inl %s)" % t if self.sum_depth else t
        if isinstance(s, ast.Expr) and isinstance(s.value, ast.Yield):
            if self.gen is None:
                raise Unsupported("yield outside a generator")
            a, ta = self.expr(s.value.value, env)
            if self.gen in ("lnode", "tnode") and ta == self.gen:
                item = a
            elif self.gen == "oN" and ta in ("oN", "N"):
                item = self.coerce(a, ta, "oN")
            else:
                raise Unsupported("yield of %s in a generator of %s" % (ta, self.gen))
            return "(let v__out := v__out ++ [%s] in\n %s)" % (item, nxt())
        if isinstance(s, ast.If):
            # an `if` without else whose body only assigns locals that exist already: the two paths join (no duplication of
            # what follows)
            names = [x.targets[0].id for x in s.body if isinstance(x, ast.Assign) and len(x.targets) == 1 and isinstance(x.targets[0], ast.Name)]
            if getattr(self.tr, "join_calls", False):
                # also: calls of non-raising methods that only change a local object (and the storage, for write)
                for x in s.body:
                    if isinstance(x, ast.Expr) and isinstance(x.value, ast.Call) and isinstance(x.value.func, ast.Attribute) \
                            and isinstance(x.value.func.value, ast.Name) and env.get(x.value.func.value.id) in ("tnode", "hist"):
                        sg_ = self.tr.sigs.get((env[x.value.func.value.id], x.value.func.attr))
                        if sg_ and sg_["kind"] in ("node", "io") and self.has_sg:
                            names.append(x.value.func.value.id)
            plain_test = not (isinstance(s.test, ast.Compare) and isinstance(s.test.ops[0], (ast.Is, ast.IsNot))) \
                and not (isinstance(s.test, ast.Name) and env.get(s.test.id) == "obytes")
            if not s.orelse and len(names) == len(s.body) and all(n in env for n in names) and plain_test \
                    and (self.loop_k is None or getattr(self.tr, "join_calls", False)):
                names = sorted(set(names))
                vars_ = (["sg"] if self.has_sg else []) + ["v_%s" % n for n in names]
                pat = "(" + ", ".join(vars_) + ")" if len(vars_) > 1 else vars_[0]

                def pack(e2):
                    out = (["sg"] if self.has_sg else []) + [self.coerce("v_%s" % n, e2[n], env[n]) for n in names]
                    return "(" + ", ".join(out) + ")" if len(out) > 1 else out[0]
                c, tc = self.expr(s.test, env)
                if tc != "bool":
                    raise Unsupported("truth of %s" % tc)
                saved, self.opt = self.opt, False         # nothing in such a body may raise
                try:
                    a = self.block(list(s.body), dict(env), pack)
                finally:
                    self.opt = saved
                return "(let %s%s := (if %s\n then %s\n else %s) in\n %s)" % ("'" if len(vars_) > 1 else "", pat, c, a, pack(env), nxt())
            return self.cond(s.test, env, lambda e2: self.block(list(s.body) + rest, e2, k),
                             lambda e2: self.block(list(s.orelse) + rest, e2, k))
        if isinstance(s, ast.While):
            return self.loop(s, env, nxt)
        if isinstance(s, ast.For):
            return self.forloop(s, env, nxt)
        if isinstance(s, ast.AugAssign) and isinstance(s.op, ast.Add) and isinstance(s.target, ast.Subscript) \
                and isinstance(s.target.value, ast.Name) and env.get(s.target.value.id) == "counter":
            kx, tk = self.expr(s.target.slice, env)
            d, td = self.expr(s.value, env)
            if td != "N":
                raise Unsupported("counter increment")
            n = s.target.value.id
            return "(let v_%s := py_counter_add %s %s v_%s in\n %s)" % (n, self.coerce(kx, tk, "oN"), d, n, nxt())
        if isinstance(s, ast.AugAssign) and isinstance(s.op, ast.Add) and isinstance(s.target, ast.Name) and s.target.id in env:
            # x += e on a local: bytes concatenation or natural-number addition
            n = s.target.id
            a, ta = self.expr(s.value, env)
            if env[n] == "bytes" and ta == "bytes":
                return "(let v_%s := (v_%s ++ %s) in\n %s)" % (n, n, a, nxt())
            if env[n] == "N" and ta == "N":
                return "(let v_%s := (N.add v_%s %s) in\n %s)" % (n, n, a, nxt())
            raise Unsupported("augmented assignment to %s : %s" % (n, env[n]))
        if isinstance(s, ast.Assign) and len(s.targets) == 1:
            return self.assign(s.targets[0], s.value, env, nxt)
        if isinstance(s, ast.Expr) and isinstance(s.value, ast.Call) and isinstance(s.value.func, ast.Name) \
                and s.value.func.id in ("flag", "unflag") and len(s.value.args) == 3 and not s.value.keywords \
                and ast.unparse(s.value.args[0]) == "self.data" and self.recv_type == "tnode":
            # flag(self.data, LRU_TRIE_NODE_FLAGS, <bit>) / unflag(...): py_flag of GenNode.v / py_unflag
            d, reg, bit = self.flag_args(s.value, env)
            return "(let %s := nd_set_data (py_%s %s (N.of_nat %s) %s) %s in\n %s)" % (self.recv, s.value.func.id, d, reg, bit, self.recv, nxt())
        if isinstance(s, ast.Expr) and isinstance(s.value, ast.Call):
            return self.call_stmt(s.value, None, env, nxt)
        raise Unsupported("statement %s in %s" % (ast.dump(s)[:90], self.fn.name))

    def tnode_ctor(self, c, env):
        """LRUTrieNode(self.storage, stem=.., block=.., data=..), LRUTrie.node(**kwargs) or LRUTrie.root() as a call of py_node_init"""
        f = c.func
        if isinstance(f, ast.Attribute) and f.attr == "root":
            if c.args or c.keywords:
                raise Unsupported("root() arguments")
            return "py_node_init sg None (Some py_first_data_block) None"
        if isinstance(f, ast.Name):
            if len(c.args) != 1 or ast.unparse(c.args[0]) != "self.storage":
                raise Unsupported("LRUTrieNode(...) storage argument")
        elif c.args:
            raise Unsupported("node() positional arguments")
        kws = dict((kw.arg, kw.value) for kw in c.keywords)
        if set(kws) - {"stem", "block", "data"}:
            raise Unsupported("node keywords %s" % sorted(kws))
        out = []
        for name, ty in (("stem", "obytes"), ("block", "oN"), ("data", "obytes")):
            if name in kws:
                if isinstance(kws[name], ast.Call) and not self.is_pure_call(kws[name], env):
                    raise Unsupported("node(%s=<effectful call>)" % name)
                a, ta = self.expr(kws[name], env)
                out.append(self.coerce(a, ta, ty))
            else:
                out.append("None")
        return "py_node_init sg %s" % " ".join(out)

    def ret(self, val, env):
        st = self.state_tuple(env)
        return self.some("(%s)" % ", ".join(st + [val]) if st else val)

    def state_tuple(self, env):
        """what an effectful function returns besides its value"""
        return list(self.returns)

    def cond(self, t, env, kt, kf):
        """if-then-else on a test, with the refinements `x is None` gives"""
        if isinstance(t, ast.Compare) and len(t.ops) == 1 and isinstance(t.comparators[0], ast.Constant) \
                and t.comparators[0].value is None and isinstance(t.ops[0], (ast.Is, ast.IsNot)) and isinstance(t.left, ast.Name) \
                and t.left.id in env:
            n = t.left.id
            base = {"oN": "N", "olnode": "lnode", "obytes": "bytes"}.get(env[n])
            if base is None:
                raise Unsupported("None test on %s : %s" % (n, env[n]))
            a_none = (kt if isinstance(t.ops[0], ast.Is) else kf)(dict(env))
            a_some = (kf if isinstance(t.ops[0], ast.Is) else kt)(dict(env, **{n: base}))
            return "(match v_%s with\n | None => %s\n | Some v_%s => %s end)" % (n, a_none, n, a_some)
        if isinstance(t, ast.Name) and env.get(t.id) == "obytes":
            # truthiness of optional bytes
            n = t.id
            return "(match v_%s with\n | None => %s\n | Some v_%s => (if py_nonempty v_%s then %s else %s) end)" % (
                n, kf(dict(env)), n, n, kt(dict(env, **{n: "bytes"})), kf(dict(env)))
        a, ta = self.expr(t, env)
        if ta != "bool":
            raise Unsupported("truth of %s" % ta)
        return "(if %s\n then %s\n else %s)" % (a, kt(dict(env)), kf(dict(env)))

    def declared(self, name, ta):
        want = self.decl.get(name)
        if want is None:
            if ta == "none":
                raise Unsupported("type of %s" % name)
            return ta
        return want

    def assign(self, tg, v, env, nxt):
        # ---- local variable ----
        if isinstance(tg, ast.Name):
            n = tg.id
            if isinstance(v, ast.Call):
                f = v.func
                if isinstance(f, ast.Name) and f.id == "Counter" and not v.args and not v.keywords:
                    return "(let v_%s := (@nil (option N * N)) in\n %s)" % (n, nxt(dict(env, **{n: "counter"})))
                if isinstance(f, ast.Name) and f.id == "set" and not v.args and not v.keywords:
                    return "(let v_%s := (@nil (option N)) in\n %s)" % (n, nxt(dict(env, **{n: "oNset"})))
                if isinstance(f, ast.Name) and f.id == "LRUTrieWalkHistory" and len(v.args) == 1 and not v.keywords \
                        and ("hist", "__init__") in self.tr.sigs:
                    a, ta = self.expr(v.args[0], env)
                    if ta != "bytes":
                        raise Unsupported("LRUTrieWalkHistory(%s)" % ta)
                    return "(let v_%s := py_hist_init %s in\n %s)" % (n, a, nxt(dict(env, **{n: "hist"})))
                if not (isinstance(f, ast.Name) and f.id in ("len", "list")) and not self.is_pure_call(v, env):
                    return self.call_stmt(v, n, env, nxt)
            a, ta = self.expr(v, env)
            want = self.declared(n, ta)
            return "(let v_%s := %s in\n %s)" % (n, self.coerce(a, ta, want), nxt(dict(env, **{n: want})))
        # ---- a, b = self.<method of the trie>(...) ----
        if isinstance(tg, ast.Tuple) and len(tg.elts) == 2 and all(isinstance(x, ast.Name) for x in tg.elts) and isinstance(v, ast.Call):
            return self.call_stmt(v, (tg.elts[0].id, tg.elts[1].id), env, nxt)
        # ---- <local object>.attr = <pure expression> ----
        if isinstance(tg, ast.Attribute) and isinstance(tg.value, ast.Name) and tg.value.id != "self" and env.get(tg.value.id) == "hist":
            pre, attrs = ATTRS["hist"]
            if tg.attr not in attrs or (isinstance(v, ast.Call) and not self.is_pure_call(v, env)):
                raise Unsupported("assignment to %s.%s" % (tg.value.id, tg.attr))
            a, ta = self.expr(v, env)
            return "(let v_%s := %s_set_%s %s v_%s in\n %s)" % (tg.value.id, pre, tg.attr, self.coerce(a, ta, attrs[tg.attr]), tg.value.id, nxt())
        # ---- self.attr / node.attr ----
        if isinstance(tg, ast.Attribute) and isinstance(tg.value, ast.Name) and tg.value.id == "self" and self.recv_type in ATTRS:
            if tg.attr == "storage":
                if not (isinstance(v, ast.Name) and v.id == "storage"):
                    raise Unsupported("self.storage")
                return nxt()
            pre, attrs = ATTRS[self.recv_type]
            if tg.attr not in attrs:
                raise Unsupported("attribute %s" % tg.attr)
            want = attrs[tg.attr]
            if isinstance(v, ast.Call) and not self.is_pure_call(v, env):
                raise Unsupported("effectful call assigned to an attribute")
            a, ta = self.expr(v, env)
            return "(let %s := %s_set_%s %s %s in\n %s)" % (self.recv, pre, tg.attr, self.coerce(a, ta, want), self.recv, nxt())
        # ---- self.data[pos] = x  (LinkStoreNode / LRUTrieNode) ----
        if isinstance(tg, ast.Subscript) and isinstance(tg.value, ast.Attribute) and isinstance(tg.value.value, ast.Name) \
                and tg.value.value.id == "self" and tg.value.attr == "data":
            i, ti = self.expr(tg.slice, env)
            a, ta = self.expr(v, env)
            if ti != "pos" or ta != "N":
                raise Unsupported("data store %s %s" % (ti, ta))
            if self.recv_type == "lnode":
                return "(let %s := ln_set_data (py_set_nth %s (VNum %s) (ln_data %s)) %s in\n %s)" % (self.recv, i, a, self.recv, self.recv, nxt())
            if self.recv_type == "tnode":
                return "(let %s := nd_set_data (py_set_nth %s (VNum %s) (nd_data %s)) %s in\n %s)" % (self.recv, i, a, self.recv, self.recv, nxt())
        # ---- self.data = [0, 0] ----
        # (handled by the attribute case through expr when v is a list of zeros)
        # ---- counter[k] = v ----
        if isinstance(tg, ast.Subscript) and isinstance(tg.value, ast.Name) and env.get(tg.value.id) == "counter":
            kx, tk = self.expr(tg.slice, env)
            a, ta = self.expr(v, env)
            if ta != "N":
                raise Unsupported("counter value")
            n = tg.value.id
            return "(let v_%s := py_counter_set %s %s v_%s in\n %s)" % (n, self.coerce(kx, tk, "oN"), a, n, nxt())
        raise Unsupported("assignment %s in %s" % (ast.dump(tg)[:80], self.fn.name))

    def is_pure_call(self, c, env):
        f = c.func
        if isinstance(f, ast.Name) and f.id in ("len", "test"):
            return True
        if isinstance(f, ast.Attribute) and isinstance(f.value, ast.Name):
            if f.value.id == "struct":
                return True
            o = f.value.id
            ot = self.recv_type if o == "self" else env.get(o)
            sig = self.tr.sigs.get((ot, f.attr))
            return bool(sig and sig["kind"] == "pure")
        return False

    def call_stmt(self, c, target, env, nxt):
        """an effectful call, as a statement (target None) or assigned to the local `target`"""
        f = c.func
        if not isinstance(f, ast.Attribute):
            raise Unsupported("call %s" % ast.dump(c)[:80])
        # ---- the storage ----
        if isinstance(f.value, ast.Attribute) and isinstance(f.value.value, ast.Name) and f.value.value.id == "self" \
                and f.value.attr == "storage" and not c.keywords:
            if f.attr == "read" and len(c.args) == 1 and target:
                a, ta = self.expr(c.args[0], env)
                return "(let '(sg, v_%s) := py_pm_read sg %s in\n %s)" % (target, self.coerce(a, ta, "oN"), nxt(dict(env, **{target: "obytes"})))
            if f.attr == "write" and len(c.args) == 2 and target:
                a, ta = self.expr(c.args[0], env)
                b, tb = self.expr(c.args[1], env)
                if ta != "bytes":
                    raise Unsupported("storage.write data")
                return "(let '(sg, v_%s) := py_pm_write sg %s %s in\n %s)" % (target, a, self.coerce(b, tb, "oN"), nxt(dict(env, **{target: "N"})))
            raise Unsupported("storage call")
        if isinstance(f.value, ast.Attribute) and isinstance(f.value.value, ast.Name) and f.value.value.id == "self" \
                and self.recv_type in ATTRS and ATTRS[self.recv_type][1].get(f.value.attr) == "listN" and f.attr == "append" \
                and len(c.args) == 1 and not c.keywords and target is None:
            pre = ATTRS[self.recv_type][0]
            a, ta = self.expr(c.args[0], env)
            if ta != "N":
                raise Unsupported("append of %s" % ta)
            return "(let %s := %s_set_%s (%s_%s %s ++ [%s]) %s in\n %s)" % (self.recv, pre, f.value.attr, pre, f.value.attr, self.recv, a, self.recv, nxt())
        if not isinstance(f.value, ast.Name):
            raise Unsupported("call receiver")
        o = f.value.id
        # ---- a method of the trie that returns a value (and the storage): None = it raised ----
        if o == "self" and self.recv_type == "tstore" and (self.tr.sigs.get(("tstore", f.attr)) or {}).get("kind") == "tfn":
            sig = self.tr.sigs[("tstore", f.attr)]
            if target is None:
                raise Unsupported("result of %s dropped" % f.attr)
            args = self.args(c, sig, env)
            for a_ in list(c.args) + [kw.value for kw in c.keywords]:
                if isinstance(a_, ast.Call) and not self.is_pure_call(a_, env):
                    raise Unsupported("effectful argument")
            if isinstance(target, tuple):
                if not sig["rtype"].startswith("pair:"):
                    raise Unsupported("tuple target for %s" % f.attr)
                _, t1, t2 = sig["rtype"].split(":")
                pat = "(v_%s, v_%s)" % target
                env2 = dict(env, **{target[0]: t1, target[1]: t2})
            else:
                want = self.declared(target, sig["rtype"])
                if want != sig["rtype"]:
                    raise Unsupported("%s as %s" % (sig["rtype"], want))
                pat = "v_%s" % target
                env2 = dict(env, **{target: want})
            return "(match %s sg%s with\n | None => %s\n | Some (sg, %s) => %s end)" % (
                sig["coq"], "".join(" " + x for x in args), self.fail(), pat, nxt(env2))
        # ---- set / list mutation ----
        if env.get(o) == "oNset" and f.attr == "add" and len(c.args) == 1 and target is None:
            a, ta = self.expr(c.args[0], env)
            return "(let v_%s := py_set_add %s v_%s in\n %s)" % (o, self.coerce(a, ta, "oN"), o, nxt())
        # ---- constructor through LinkStore.node(**kwargs) ----
        if o == "self" and self.recv_type == "store" and f.attr == "node" and target and not c.args:
            kws = dict((kw.arg, kw.value) for kw in c.keywords)
            if set(kws) - {"block"}:
                raise Unsupported("node() keywords")
            want = self.declared(target, "lnode")
            if "block" in kws:
                if isinstance(kws["block"], ast.Call) and not self.is_pure_call(kws["block"], env):
                    raise Unsupported("node(block=<effectful call>)")
                a, ta = self.expr(kws["block"], env)
                b = self.coerce(a, ta, "oN")
            else:
                b = "None"
            return "(let '(v__n, sg) := py_lnode_init sg %s None in\n let v_%s := %s in\n %s)" % (
                b, target, self.coerce("v__n", "lnode", want), nxt(dict(env, **{target: want})))
        # ---- LRUTrie.node(**kwargs) / LRUTrie.root(): a new LRUTrieNode ----
        if o == "self" and self.recv_type == "tstore" and f.attr in ("node", "root") and target:
            want = self.declared(target, "tnode")
            return "(let '(v__n, sg) := %s in\n let v_%s := %s in\n %s)" % (
                self.tnode_ctor(c, env), target, self.coerce("v__n", "tnode", want), nxt(dict(env, **{target: want})))
        # ---- generators of the trie, consumed by a for loop: handled in forloop ----
        # ---- methods of translated classes ----
        ot = self.recv_type if o == "self" else env.get(o)
        ov = self.recv if o == "self" else "v_%s" % o
        name = f.attr
        for pre in ("_LinkStoreNode", "_LRUTrieNode"):
            if name.startswith(pre):
                name = name[len(pre):]
        sig = self.tr.sigs.get((ot, name))
        if sig is None:
            raise Unsupported("method %s of %s" % (name, ot))
        if sig["kind"] == "new":
            # a method that returns a fresh node read from the storage (parent_node): the receiver is unchanged
            if target is None or c.args or c.keywords:
                raise Unsupported("call of %s" % name)
            want = self.declared(target, "tnode")
            return "(let '(v__n, sg) := %s %s sg in\n let v_%s := %s in\n %s)" % (
                sig["coq"], ov, target, self.coerce("v__n", "tnode", want), nxt(dict(env, **{target: want})))
        if target is not None:
            raise Unsupported("value of the effectful method %s" % name)
        if ot == "tnode" and name == "write" and not c.args and not c.keywords:
            # LRUTrieNode.write of GenNode.v on the trie storage
            st = self.tnode_storage
            return "(let '(%s, %s) := py_node_write %s %s in\n %s)" % (ov, st, ov, st, nxt())

        def emit(args):
            call = "%s %s%s%s" % (sig["coq"], ov, " sg" if sig["kind"].startswith("io") else "", "".join(" " + x for x in args))
            pat = "(%s, sg)" % ov if sig["kind"].startswith("io") else ov
            if sig["kind"].endswith("?"):
                return "(match %s with\n | None => %s\n | Some %s => %s end)" % (call, self.fail(), pat, nxt())
            return "(let %s := %s in\n %s)" % ("'" + pat if sig["kind"].startswith("io") else pat, call, nxt())
        # arguments; an optional integer where an integer is needed raises when None
        params = list(sig["params"])
        got = {}
        for p, a in zip(params, c.args):
            got[p[0]] = a
        for kw in c.keywords:
            if kw.arg is None or kw.arg in got or kw.arg not in [p[0] for p in params]:
                raise Unsupported("keyword argument %s" % kw.arg)
            got[kw.arg] = kw.value
        if len(c.args) > len(params):
            raise Unsupported("too many arguments")
        vals = []
        for pname, ty, default in params:
            if pname in got:
                if isinstance(got[pname], ast.Call) and not self.is_pure_call(got[pname], env):
                    raise Unsupported("effectful argument")
                vals.append((self.expr(got[pname], env), ty))
            elif default is not None:
                vals.append(((default, ty), ty))
            else:
                raise Unsupported("missing argument %s" % pname)

        def build(i, acc):
            if i == len(vals):
                return emit(acc)
            (a, ta), ty = vals[i]
            return self.need(a, ta, ty, lambda x: build(i + 1, acc + [x]))
        return build(0, [])

    # ---------- loops ----------
    def mutated(self, body, env):
        names = set()
        for n in ast.walk(ast.Module(body=list(body), type_ignores=[])):
            if isinstance(n, ast.Assign) and isinstance(n.targets[0], ast.Name):
                names.add(n.targets[0].id)
            if isinstance(n, ast.Assign) and isinstance(n.targets[0], ast.Subscript) and isinstance(n.targets[0].value, ast.Name):
                names.add(n.targets[0].value.id)
            if isinstance(n, ast.AugAssign) and isinstance(n.target, ast.Subscript) and isinstance(n.target.value, ast.Name):
                names.add(n.target.value.id)
            if isinstance(n, ast.AugAssign) and isinstance(n.target, ast.Name):
                names.add(n.target.id)
            if isinstance(n, ast.Assign) and isinstance(n.targets[0], ast.Attribute) and isinstance(n.targets[0].value, ast.Name):
                names.add(n.targets[0].value.id)
            if isinstance(n, ast.Assign) and isinstance(n.targets[0], ast.Tuple):
                names.update(x.id for x in n.targets[0].elts if isinstance(x, ast.Name))
            if isinstance(n, ast.Call) and isinstance(n.func, ast.Attribute) and isinstance(n.func.value, ast.Name):
                names.add(n.func.value.id)
        names = sorted(x for x in names if x in env and env[x] in ("lnode", "olnode", "counter", "oNset", "bool", "N", "oN", "tnode", "otnode", "bytes", "hist"))
        return names

    def loop_state(self, body, env, exclude=()):
        names = [n for n in self.mutated(body, env) if n not in exclude]
        has_yield = any(isinstance(n, ast.Yield) for n in ast.walk(ast.Module(body=list(body), type_ignores=[])))
        vars_ = ["sg"] + ["v_%s" % n for n in names] + (["v__out"] if has_yield else [])
        types = ["py_pm"] + [COQT[env[n]] for n in names] + (["list (%s)" % COQT[self.gen]] if has_yield else [])
        if not self.has_sg:
            raise Unsupported("loop without a storage in %s" % self.fn.name)
        pat = "(" + ", ".join(vars_) + ")"
        ty = "(" + " * ".join(types) + ")"

        def pack(env2):
            out = ["sg"]
            for n in names:
                out.append(self.coerce("v_%s" % n, env2[n], env[n]))
            if has_yield:
                out.append("v__out")
            return "(" + ", ".join(out) + ")"
        return names, pat, ty, pack

    def early_exit(self, body):
        return any(isinstance(n, (ast.Return, ast.Break)) for n in ast.walk(ast.Module(body=list(body), type_ignores=[])))

    def loop_sum(self, s, env, nxt):
        """a while loop with `break` / `return` inside: the loop function returns (R + state): inl = the function returned"""
        if self.rcoq is None:
            raise Unsupported("early exit from a loop in %s" % self.fn.name)
        names, pat, ty, pack = self.loop_state(s.body, env)
        self.loops.append(pack)
        self.sum_depth += 1
        body = self.block(list(s.body), dict(env), lambda env2: "(py_loop fuel' %s)" % pack(env2))
        self.sum_depth -= 1
        self.loops.pop()
        if isinstance(s.test, ast.Constant) and s.test.value is True:
            step = body
        else:
            test, tt = self.expr(s.test, env)
            if tt != "bool":
                raise Unsupported("while test")
            step = "(if %s\n then %s\n else inr st)" % (test, body)
        loop = ("(fix py_loop (fuel : nat) (st : %s) {struct fuel} : (%s + %s) :=\n match fuel with\n | O => inr st\n | S fuel' =>\n"
                " let '%s := st in\n %s\n end)" % (ty, self.rcoq, ty, pat, step))
        prop = "(inl v__r)" if self.sum_depth else "v__r"
        return "(match %s %s %s with\n | inl v__r => %s\n | inr %s => %s end)" % (loop, self.fuel(s, env), pat, prop, pat, nxt())

    def fuel(self, s, env):
        """`while i < l:` whose body adds 1 to i exactly once, at its top level, and assigns neither i nor l anywhere else runs at
        most l - i times; every other loop reads one more block of the store per iteration (proved in the *Facts files)"""
        t = s.test
        if isinstance(t, ast.Compare) and len(t.ops) == 1 and isinstance(t.ops[0], ast.Lt) and isinstance(t.left, ast.Name) \
                and isinstance(t.comparators[0], ast.Name) and env.get(t.left.id) == "N" and env.get(t.comparators[0].id) == "N":
            i, l = t.left.id, t.comparators[0].id
            top = [x for x in s.body if isinstance(x, ast.AugAssign) and isinstance(x.target, ast.Name) and x.target.id == i
                   and isinstance(x.op, ast.Add) and isinstance(x.value, ast.Constant) and x.value.value == 1]
            others = 0
            for n in ast.walk(ast.Module(body=list(s.body), type_ignores=[])):
                tg = []
                if isinstance(n, ast.Assign):
                    tg = n.targets
                elif isinstance(n, (ast.AugAssign, ast.AnnAssign)):
                    tg = [n.target]
                elif isinstance(n, ast.For):
                    tg = [n.target]
                for x in tg:
                    for y in ast.walk(x):
                        if isinstance(y, ast.Name) and y.id in (i, l):
                            others += 1
            if len(top) == 1 and others == 1:
                return "(S (N.to_nat (N.sub v_%s v_%s)))" % (l, i)
            raise Unsupported("while %s < %s: no termination argument" % (i, l))
        return "(S (length (pm_array sg)))"

    def loop(self, s, env, nxt):
        if s.orelse or self.loop_k is not None:
            raise Unsupported("while shape")
        if self.early_exit(s.body) or (isinstance(s.test, ast.Constant) and s.test.value is True) or self.sum_depth:
            return self.loop_sum(s, env, nxt)
        names, pat, ty, pack = self.loop_state(s.body, env)
        self.loop_k = True
        body = self.block(list(s.body), dict(env), lambda env2: "(py_loop fuel' %s)" % pack(env2))
        self.loop_k = None
        test, tt = self.expr(s.test, env)
        if tt != "bool":
            raise Unsupported("while test")
        if not self.opt:
            raise Unsupported("loop in a total function")
        loop = ("(fix py_loop (fuel : nat) (st : %s) {struct fuel} : option %s :=\n match fuel with\n | O => Some st\n | S fuel' =>\n"
                " let '%s := st in\n if %s\n then %s\n else Some st\n end)" % (ty, ty, pat, test, body))
        return "(match %s %s %s with\n | None => None\n | Some %s => %s end)" % (loop, self.fuel(s, env), pat, pat, nxt())

    def forloop(self, s, env, nxt):
        if s.orelse or self.loop_k is not None:
            raise Unsupported("for shape")
        # for k, v in counter.items(): yield k, v
        if isinstance(s.target, ast.Tuple) and isinstance(s.iter, ast.Call) and isinstance(s.iter.func, ast.Attribute) \
                and s.iter.func.attr == "items" and isinstance(s.iter.func.value, ast.Name) and env.get(s.iter.func.value.id) == "counter" \
                and len(s.body) == 1 and isinstance(s.body[0], ast.Expr) and isinstance(s.body[0].value, ast.Yield) \
                and ast.unparse(s.body[0].value.value) == ast.unparse(s.target) and self.gen == "pair":
            return "(let v__out := v__out ++ v_%s in\n %s)" % (s.iter.func.value.id, nxt())
        # for i in range(n): with early exits
        if isinstance(s.target, ast.Name) and isinstance(s.iter, ast.Call) and isinstance(s.iter.func, ast.Name) \
                and s.iter.func.id == "range" and len(s.iter.args) == 1 and not s.iter.keywords:
            if self.rcoq is None:
                raise Unsupported("range loop in %s" % self.fn.name)
            n, tn = self.expr(s.iter.args[0], env)
            if tn != "N":
                raise Unsupported("range of %s" % tn)
            env1 = dict(env, **{s.target.id: "N"})
            names, pat, ty, pack = self.loop_state(s.body, env1, exclude=(s.target.id,))
            self.loops.append(None)            # a `break` directly in a for loop is not accepted
            self.sum_depth += 1
            body = self.block(list(s.body), env1, lambda env2: "(inr %s)" % pack(env2))
            self.sum_depth -= 1
            self.loops.pop()
            prop = "(inl v__r)" if self.sum_depth else "v__r"
            return ("(match fold_left (fun (acc : (%s + %s)) (v_%s : N) =>\n match acc with\n | inl v__r => inl v__r\n | inr %s => %s end)\n"
                    " (py_range %s) (inr %s) with\n | inl v__r => %s\n | inr %s => %s end)"
                    % (self.rcoq, ty, s.target.id, pat, body, n, pat, prop, pat, nxt()))
        # for x in self.<generator>(args): a body without effects on the storage (the generator is run first)
        if isinstance(s.target, ast.Name) and isinstance(s.iter, ast.Call) and isinstance(s.iter.func, ast.Attribute) \
                and isinstance(s.iter.func.value, ast.Name) and s.iter.func.value.id == "self" \
                and (self.recv_type, s.iter.func.attr) in self.tr.sigs and self.tr.sigs[(self.recv_type, s.iter.func.attr)]["kind"] == "gen":
            sig = self.tr.sigs[(self.recv_type, s.iter.func.attr)]
            for n in ast.walk(ast.Module(body=list(s.body), type_ignores=[])):
                if isinstance(n, ast.Call) and not self.is_pure_call(n, dict(env, **{s.target.id: sig["item"]})):
                    raise Unsupported("effectful call in the body of a loop over a generator")
                if isinstance(n, (ast.Return, ast.Break, ast.Yield, ast.Raise)):
                    raise Unsupported("exit from a loop over a generator")
            args = self.args(s.iter, sig, env)
            env1 = dict(env, **{s.target.id: sig["item"]})
            names = [x for x in self.mutated(s.body, env1) if x != s.target.id]
            vars_ = ["v_%s" % x for x in names]
            pat = "(" + ", ".join(vars_) + ")" if len(vars_) != 1 else vars_[0]
            ty = "(" + " * ".join(COQT[env[x]] for x in names) + ")" if len(names) != 1 else COQT[env[names[0]]]

            def packg(e2):
                out = [self.coerce("v_%s" % x, e2[x], env[x]) for x in names]
                return "(" + ", ".join(out) + ")" if len(out) != 1 else out[0]
            body = self.block(list(s.body), env1, packg)
            return ("(match %s sg%s with\n | None => %s\n | Some (v__items, sg) =>\n (let %s%s := fold_left (fun (st : %s) (v_%s : %s) => let %s%s := st in\n %s) v__items %s in\n %s) end)"
                    % (sig["coq"], "".join(" " + a for a in args), self.fail(), "'" if len(vars_) != 1 else "", pat, ty, s.target.id,
                       COQT[sig["item"]], "'" if len(vars_) != 1 else "", pat, body, pat, nxt()))
        if not (isinstance(s.target, ast.Name) and isinstance(s.iter, ast.Name) and env.get(s.iter.id) == "listN"):
            raise Unsupported("for shape")
        env1 = dict(env, **{s.target.id: "N"})
        names, pat, ty, pack = self.loop_state(s.body, env1)
        names = [n for n in names if n != s.target.id]
        if not self.opt:
            raise Unsupported("loop in a total function")
        self.loop_k = True
        body = self.block(list(s.body), env1, lambda env2: "Some %s" % pack(env2))
        self.loop_k = None
        return ("(match fold_left (fun (st : option %s) (v_%s : N) =>\n match st with\n | None => None\n | Some %s => %s end)\n v_%s (Some %s) with\n"
                " | None => None\n | Some %s => %s end)" % (ty, s.target.id, pat, body, s.iter.id, pat, pat, nxt()))


class Translator(object):
    def __init__(self):
        self.sigs = {}
        self.out = []

    def method(self, cls_methods, cls_type, name, params, kind, rtype=None, recv="nd", decl=None, gen=None, defaults=None, extra_state=None):
        """kind: pure | node | node? | io | io?  (`?`: may raise).  params: [(name, type, default term or None)]"""
        key = name
        fn = cls_methods.get(name) or cls_methods.get("_LinkStoreNode" + name) or cls_methods.get("_LRUTrieNode" + name)
        if fn is None:
            raise Unsupported("method %s not found" % name)
        want = ["self"] + [p[0] for p in params]
        if [a.arg for a in fn.args.args] != want or fn.args.vararg or fn.args.kwonlyargs or fn.args.kwarg:
            raise Unsupported("signature of %s" % name)
        ndef = len(fn.args.defaults)
        for (pn, ty, d), dnode in zip(params[len(params) - ndef:], fn.args.defaults):
            if d is None or ast.unparse(dnode) != defaults[pn]:
                raise Unsupported("default of %s.%s" % (name, pn))
        if any(d is not None for pn, ty, d in params[: len(params) - ndef]):
            raise Unsupported("defaults of %s" % name)
        opt = kind.endswith("?")
        f = Fn(self, fn, recv, cls_type, opt, rtype, gen=gen, decl=decl)
        env = dict((p[0], p[1]) for p in params)
        prefix = {"lnode": "py_lnode_", "tnode": "py_node_", "hist": "py_hist_"}[cls_type]
        coq = prefix + name.strip("_")
        ps = "".join(" (v_%s : %s)" % (p[0], COQT[p[1]]) for p in params)
        rt = {"lnode": "py_lnode", "tnode": "py_node", "hist": "py_hist"}[cls_type]
        if kind == "pure":
            f.returns = []
            body = f.block(list(fn.body), env, lambda e2: (_ for _ in ()).throw(Unsupported("%s falls off its end" % name)))
            self.out.append("Definition %s (%s : %s)%s : %s :=\n %s." % (coq, recv, rt, ps, COQT[rtype], body))
        elif kind in ("node", "node?"):
            f.returns = []
            body = f.block(list(fn.body), env, lambda e2: f.some(recv))
            self.out.append("Definition %s (%s : %s)%s : %s :=\n %s." % (coq, recv, rt, ps, ("option %s" % rt) if opt else rt, body))
        else:
            f.returns = []
            f.has_sg = True
            body = f.block(list(fn.body), env, lambda e2: f.some("(%s, sg)" % recv))
            self.out.append("Definition %s (%s : %s) (sg : py_pm)%s : %s :=\n %s."
                            % (coq, recv, rt, ps, ("option (%s * py_pm)" % rt) if opt else "(%s * py_pm)" % rt, body))
        self.sigs[(cls_type, key)] = {"kind": kind, "params": params, "rtype": rtype, "coq": coq}


def main(out):
    pn = os.path.join(REPO, "traph", "link_store", "node.py")
    ps = os.path.join(REPO, "traph", "link_store", "link_store.py")
    pt = os.path.join(REPO, "traph", "lru_trie", "node.py")
    tn, ts, tt = (ast.parse(open(p).read(), p) for p in (pn, ps, pt))
    T = Translator()
    L = ["(* GENERATED by harness/gen_links.py from %s/traph/link_store/{node,link_store}.py and lru_trie/node.py -- do not edit *)" % REPO,
         "From Coq Require Import List NArith Bool Arith.", "Import ListNotations.",
         "From Traph Require Import Bytes Consts Layout Codec GenStorage GenNode.", "", PREAMBLE]

    def cls(tree, name):
        c = [n for n in tree.body if isinstance(n, ast.ClassDef) and n.name == name]
        if len(c) != 1:
            raise Unsupported("class %s" % name)
        return dict((n.name, n) for n in c[0].body if isinstance(n, ast.FunctionDef))
    LN, LS, TN = cls(tn, "LinkStoreNode"), cls(ts, "LinkStore"), cls(tt, "LRUTrieNode")
    # the module constants this file relies on are those of Consts.v: check the two derived ones are written as expected
    src = open(pn).read()
    if "LINK_STORE_FIRST_DATA_BLOCK = LINK_STORE_HEADER_BLOCKS * LINK_STORE_NODE_BLOCK_SIZE" not in src:
        raise Unsupported("LINK_STORE_FIRST_DATA_BLOCK definition")
    # ---- LinkStoreNode ----
    fn = LN.get("_LinkStoreNode__set_default_data") or LN["__set_default_data"]
    if [a.arg for a in fn.args.args] != ["self"] or ast.unparse(fn.body[0]) != "self.data = [0, 0]" or len(fn.body) != 1:
        raise Unsupported("__set_default_data body")
    T.out.append("Definition py_lnode_set_default_data (nd : py_lnode) : py_lnode := ln_set_data [VNum 0%N; VNum 0%N] nd.")
    T.sigs[("lnode", "__set_default_data")] = {"kind": "node", "params": [], "rtype": None, "coq": "py_lnode_set_default_data"}
    T.method(LN, "lnode", "unpack", [("data", "bytes", None)], "pure", "fvals")
    T.method(LN, "lnode", "pack", [], "pure", "bytes")
    T.method(LN, "lnode", "read", [("block", "oN", None)], "io")
    T.method(LN, "lnode", "write", [], "io")
    T.method(LN, "lnode", "has_previous", [], "pure", "bool")
    T.method(LN, "lnode", "previous", [], "pure", "oN")
    T.method(LN, "lnode", "set_previous", [("block", "N", None)], "node?")
    T.method(LN, "lnode", "read_previous", [], "io?")
    T.method(LN, "lnode", "has_target", [], "pure", "bool")
    T.method(LN, "lnode", "target", [], "pure", "oN")
    T.method(LN, "lnode", "set_target", [("block", "N", None)], "node?")
    # the constructor: LinkStoreNode(storage, block=None, data=None)
    fn = LN["__init__"]
    if [a.arg for a in fn.args.args] != ["self", "storage", "block", "data"] or [ast.unparse(d) for d in fn.args.defaults] != ["None", "None"]:
        raise Unsupported("LinkStoreNode.__init__ signature")
    f = Fn(T, fn, "nd", "lnode", False, None)
    f.returns = []
    f.has_sg = True
    body = f.block(list(fn.body), {"storage": "storage", "block": "oN", "data": "obytes"}, lambda e2: "(nd, sg)")
    T.out.append("Definition py_lnode_init (sg : py_pm) (v_block : option N) (v_data : option bytes) : py_lnode * py_pm :=\n"
                 " (let nd := mk_ln None false [] in\n %s)." % body)
    # ---- the three out-parameterised accessors of LRUTrieNode ----
    T.method(TN, "tnode", "has_links", [("out", "bool", "true")], "pure", "bool", recv="tn", defaults={"out": "True"})
    T.method(TN, "tnode", "links", [("out", "bool", "true")], "pure", "N", recv="tn", defaults={"out": "True"})
    T.method(TN, "tnode", "set_links", [("block", "N", None), ("out", "bool", "true")], "node", recv="tn", defaults={"out": "True"})
    T.sigs[("tnode", "write")] = {"kind": "io", "params": [], "rtype": None, "coq": "py_node_write"}
    # ---- LinkStore ----
    if ast.unparse(LS["node"].body[-1]) != "return LinkStoreNode(self.storage, **kwargs)" or len(LS["node"].body) != 1:
        raise Unsupported("LinkStore.node body")
    fn = LS["add_links"]
    if [a.arg for a in fn.args.args] != ["self", "source_node", "target_blocks", "out"] or [ast.unparse(d) for d in fn.args.defaults] != ["True"]:
        raise Unsupported("add_links signature")
    f = Fn(T, fn, None, "store", True, None, decl={"tail_node": "olnode", "empty": "bool", "link_node": "lnode"})
    f.returns = []
    f.has_sg = True
    body = f.block(list(fn.body), {"source_node": "tnode", "target_blocks": "listN", "out": "bool"},
                   lambda e2: "Some (v_source_node, sgt, sg)")
    T.out.append("Definition py_ls_add_links (v_source_node : py_node) (sgt sg : py_pm) (v_target_blocks : list N) (v_out : bool)\n"
                 " : option (py_node * py_pm * py_pm) :=\n %s." % body)
    for name, gen, item in (("link_nodes_iter", "lnode", "py_lnode"), ("weighted_link_nodes_iter", "pair", "(option N * N)"),
                            ("deduped_link_nodes_iter", "oN", "(option N)")):
        fn = LS[name]
        if [a.arg for a in fn.args.args] != ["self", "block"] or fn.args.defaults:
            raise Unsupported("%s signature" % name)
        f = Fn(T, fn, None, "store", True, None, gen=gen, decl={"node": "lnode"})
        f.returns = []
        f.has_sg = True
        COQT["pair"] = "(option N * N)"
        body = f.block(list(fn.body), {"block": "N"}, lambda e2: "Some v__out")
        T.out.append("Definition py_ls_%s (sg : py_pm) (v_block : N) : option (list %s) :=\n (let v__out := (@nil %s) in\n %s)."
                     % (name, item, item, body))
    text = "\n".join(L + T.out) + "\n"
    old = open(out).read() if os.path.exists(out) else None
    if old != text:
        with open(out, "w") as fh:
            fh.write(text)
    return 0


if __name__ == "__main__":
    try:
        sys.exit(main(sys.argv[1]))
    except Unsupported as e:
        print("gen_links: UNSUPPORTED: %s" % e)
        sys.exit(3)
    except (KeyError, AttributeError, IndexError, TypeError) as e:
        print("gen_links: UNSUPPORTED: unexpected source shape (%s: %s)" % (type(e).__name__, e))
        sys.exit(3)
