#!/venv/bin/python
"""Translate the LOOP-bearing pure helpers of /repo/traph/helpers.py into Gallina:
coq/theories/GenHelpers2.v, regenerated on every run (lru_iter, lru_dirname, int_to_base4,
int_to_base64, base64_to_int, build_pagination_token).  GenHelpers2Facts.v proves the
translated functions equal to the hand-written model (Helpers.v), so the theorems about
LRU splitting (every property) and pagination tokens (C09, C10) are re-checked against what
the source says now.

Fail-closed extension of gen_helpers.Fn (same subset) with:
  `for i in range(len(x))` / `for i in range(x - 1, -1, -1)`  -> fold_left over the index list
  `while x:` whose body shifts x right by a positive constant   -> local fix on fuel S (N.size_nat x)
  `yield e` (generator returning the list of yielded values), `x += e`, `x = []`, `x.reverse()`,
  slices `b[i : j]`, `s[i]`, `BASE64[e]`, `%`, `>>`, `== 0`, `"".join(xs)`, `list(e)`, `xs[:-1]`,
  `"%i#%s" % (a, b)`, `BASE64_INDEX[c]` (KeyError -> the whole function returns None).
The state of a loop is the tuple of the variables assigned in its body that exist before it.
Python str values (ASCII here) are byte lists like bytes values.  Integers are N: every
subtraction that occurs is guarded by the accepted `range` shapes, nothing else may subtract.
Module-level facts the translation relies on are CHECKED on the imported module at generation
time: BASE64_INDEX[c] == BASE64.index(c) for every c, len(BASE64) == 64, all characters ASCII
and distinct.  Primitive (trusted) semantics: `"%i" % n` prints n in decimal (Helpers.int_to_dec)."""
import ast
import importlib
import os
import sys

sys.path.insert(0, os.path.dirname(os.path.abspath(__file__)))
import gen_helpers as G  # noqa: E402
from gen_helpers import Unsupported, coq_bytes  # noqa: E402

REPO = os.environ.get("VERIF_REPO", "/repo")

COQT = {"bytes": "bytes", "lbytes": "list bytes", "int": "N", "nat": "nat", "obytes": "option bytes"}


def assigned(stmts):
    out = []
    for s in stmts:
        for n in ast.walk(s):
            if isinstance(n, ast.Assign):
                for t in n.targets:
                    if isinstance(t, ast.Name):
                        out.append(t.id)
                    else:
                        raise Unsupported("assignment target")
            elif isinstance(n, ast.AugAssign):
                if not isinstance(n.target, ast.Name):
                    raise Unsupported("augmented assignment target")
                out.append(n.target.id)
            elif isinstance(n, ast.Expr) and isinstance(n.value, ast.Call) and isinstance(n.value.func, ast.Attribute) \
                    and isinstance(n.value.func.value, ast.Name) and n.value.func.attr in ("append", "pop", "reverse"):
                out.append(n.value.func.value.id)
            elif isinstance(n, (ast.Yield,)):
                out.append("_out")
            elif isinstance(n, (ast.For, ast.While)) and n is not s:
                raise Unsupported("nested loop")
    return out


class Fn2(G.Fn):
    def __init__(self, node, known, fallible):
        G.Fn.__init__(self, node, known)
        self.fallible = fallible
        self.in_loop = False

    # ---- expressions ----------------------------------------------------------------
    def typ(self, e):
        if isinstance(e, ast.Constant) and isinstance(e.value, str):
            return "bytes"
        if isinstance(e, ast.List) and len(e.elts) == 0:
            return "lbytes"
        if isinstance(e, ast.BinOp) and isinstance(e.op, (ast.Mod,)) and isinstance(e.left, ast.Constant) \
                and isinstance(e.left.value, str):
            return "bytes"
        if isinstance(e, ast.BinOp) and isinstance(e.op, (ast.Mod, ast.RShift, ast.Mult)):
            return "int"
        if isinstance(e, ast.Subscript):
            if isinstance(e.value, ast.Name) and e.value.id == "BASE64_INDEX":
                raise Unsupported("BASE64_INDEX[...] outside a plain assignment")
            if isinstance(e.slice, ast.Slice):
                return self.typ(e.value)
            if isinstance(e.value, ast.Name) and e.value.id == "BASE64":
                return "bytes"
            if self.typ_or_none(e.value) == "bytes" and self.typ_or_none(e.slice) == "int":
                return "bytes"
        if isinstance(e, ast.Call) and isinstance(e.func, ast.Name) and e.func.id == "list" and len(e.args) == 1:
            return self.typ(e.args[0])
        if isinstance(e, ast.Call) and isinstance(e.func, ast.Name) and e.func.id == "len":
            return "int"
        if isinstance(e, ast.Call) and isinstance(e.func, ast.Name) and isinstance(self.known.get(e.func.id), tuple):
            return self.known[e.func.id][0]
        return G.Fn.typ(self, e)

    def typ_or_none(self, e):
        try:
            return self.typ(e)
        except Unsupported:
            return None

    def num(self, e):
        if self.typ(e) != "int":
            raise Unsupported("integer expected: %s" % ast.dump(e)[:60])
        return self.expr(e)

    def expr(self, e):
        if isinstance(e, ast.Constant) and isinstance(e.value, str):
            if any(ord(c) > 127 for c in e.value):
                raise Unsupported("non-ASCII str literal")
            return coq_bytes(e.value.encode("ascii"))
        if isinstance(e, ast.List) and len(e.elts) == 0:
            return "(@nil bytes)"
        if isinstance(e, ast.BinOp) and isinstance(e.op, ast.Mod) and isinstance(e.left, ast.Constant) and isinstance(e.left.value, str):
            return self.fmt(e.left.value, e.right)
        if isinstance(e, ast.BinOp) and isinstance(e.op, ast.Mod):
            if not (isinstance(e.right, ast.Constant) and isinstance(e.right.value, int) and e.right.value > 0):
                raise Unsupported("modulus")
            return "(N.modulo %s %d%%N)" % (self.num(e.left), e.right.value)
        if isinstance(e, ast.BinOp) and isinstance(e.op, ast.RShift):
            if not (isinstance(e.right, ast.Constant) and isinstance(e.right.value, int) and e.right.value > 0):
                raise Unsupported("shift amount")
            return "(N.shiftr %s %d%%N)" % (self.num(e.left), e.right.value)
        if isinstance(e, ast.BinOp) and isinstance(e.op, ast.Sub):
            raise Unsupported("subtraction outside the accepted range(...) shapes")
        if isinstance(e, ast.Subscript):
            if isinstance(e.slice, ast.Slice):
                sl = e.slice
                if sl.step is not None:
                    raise Unsupported("slice step")
                t = self.typ(e.value)
                if t == "lbytes" and sl.lower is None and isinstance(sl.upper, ast.UnaryOp) and isinstance(sl.upper.op, ast.USub) \
                        and isinstance(sl.upper.operand, ast.Constant) and sl.upper.operand.value == 1:
                    return "(removelast %s)" % self.expr(e.value)
                if t == "bytes" and sl.lower is not None and sl.upper is not None:
                    return "(py_slice %s %s %s)" % (self.num(sl.lower), self.num(sl.upper), self.expr(e.value))
                raise Unsupported("slice shape")
            if isinstance(e.value, ast.Name) and e.value.id == "BASE64" and "BASE64" not in self.types:
                return "(py_base64_at %s)" % self.num(e.slice)
            if self.typ_or_none(e.value) == "bytes" and self.typ_or_none(e.slice) == "int":
                return "(py_char_at %s %s)" % (self.expr(e.value), self.num(e.slice))
        if isinstance(e, ast.Call) and isinstance(e.func, ast.Attribute) and e.func.attr == "join" and len(e.args) == 1 \
                and isinstance(e.func.value, ast.Constant) and e.func.value.value in ("", b"") and not e.keywords:
            if self.typ(e.args[0]) != "lbytes":
                raise Unsupported("join of a non-list")
            return "(concat %s)" % self.expr(e.args[0])
        if isinstance(e, ast.Call) and isinstance(e.func, ast.Name):
            f = e.func.id
            if f == "list" and len(e.args) == 1 and not e.keywords:
                return self.expr(e.args[0])
            if f == "len" and len(e.args) == 1 and not e.keywords:
                if self.typ(e.args[0]) not in ("lbytes", "bytes"):
                    raise Unsupported("len")
                return "(N.of_nat (length %s))" % self.expr(e.args[0])
            if f in self.known and not e.keywords:
                sig = self.known[f]
                if isinstance(sig, tuple):
                    ret, params, fall = sig
                    if fall:
                        raise Unsupported("call of a fallible function inside an expression")
                    if len(params) != len(e.args):
                        raise Unsupported("arity of %s" % f)
                    args = []
                    for a, pt in zip(e.args, params):
                        if self.typ(a) != pt:
                            raise Unsupported("argument type of %s" % f)
                        args.append(self.expr(a))
                    return "(py_%s %s)" % (f, " ".join(args))
        return G.Fn.expr(self, e)

    def fmt(self, f, right):
        args = list(right.elts) if isinstance(right, ast.Tuple) else [right]
        pieces, i, k = [], 0, 0
        lit = ""
        while i < len(f):
            if f[i] == "%":
                if i + 1 >= len(f) or f[i + 1] not in "is":
                    raise Unsupported("format directive")
                if lit:
                    pieces.append(coq_bytes(lit.encode("ascii")))
                    lit = ""
                if k >= len(args):
                    raise Unsupported("format arguments")
                a = args[k]
                k += 1
                if f[i + 1] == "i":
                    pieces.append("(py_fmt_int %s)" % self.num(a))
                else:
                    if self.typ(a) != "bytes":
                        raise Unsupported("%s of a non-string")
                    pieces.append(self.expr(a))
                i += 2
            else:
                lit += f[i]
                i += 1
        if lit:
            pieces.append(coq_bytes(lit.encode("ascii")))
        if k != len(args):
            raise Unsupported("format arguments")
        return "(" + " ++ ".join(pieces) + ")"

    def truth(self, e):
        if isinstance(e, ast.Compare) and len(e.ops) == 1 and isinstance(e.ops[0], ast.Eq):
            l, r = e.left, e.comparators[0]
            if self.typ_or_none(l) == "int" and self.typ_or_none(r) == "int":
                return "(N.eqb %s %s)" % (self.expr(l), self.expr(r))
            if self.typ_or_none(l) == "bytes" and self.typ_or_none(r) == "bytes":
                return "(beq %s %s)" % (self.expr(l), self.expr(r))
        if self.typ_or_none(e) == "int":
            return "(negb (N.eqb %s 0%%N))" % self.expr(e)
        return G.Fn.truth(self, e)

    # ---- statements -----------------------------------------------------------------
    def ret_wrap(self, term):
        return "(Some %s)" % term if self.fallible else term

    def state(self, names):
        if len(names) == 1:
            return "v_%s" % names[0], COQT[self.types[names[0]]]
        return "(" + ", ".join("v_%s" % n for n in names) + ")", "(" + " * ".join(COQT[self.types[n]] for n in names) + ")"

    def bind(self, names, term, body):
        pat, _ = self.state(names)
        if len(names) == 1:
            return "(let %s := %s in\n %s)" % (pat, term, body)
        return "(let '%s := %s in\n %s)" % (pat, term, body)

    def block(self, stmts, ret, k=None):
        if not stmts:
            if k is not None:
                return k()
            if self.generator:
                return self.ret_wrap("v__out")
            return G.Fn.block(self, stmts, ret)
        s, rest = stmts[0], stmts[1:]
        cont = lambda: self.block(rest, ret, k)                                            # noqa: E731
        if isinstance(s, ast.Expr) and isinstance(s.value, ast.Constant) and isinstance(s.value.value, str):
            return cont()
        if isinstance(s, ast.Return):
            if k is not None:
                raise Unsupported("return inside a loop")
            if s.value is None:
                raise Unsupported("bare return")
            if self.typ(s.value) != ret:
                raise Unsupported("return type %s, expected %s" % (self.typ(s.value), ret))
            return self.ret_wrap(self.expr(s.value))
        if isinstance(s, ast.Expr) and isinstance(s.value, ast.Yield):
            if not self.generator or s.value.value is None or self.typ(s.value.value) != "bytes":
                raise Unsupported("yield")
            return "(let v__out := (v__out ++ [%s]) in\n %s)" % (self.expr(s.value.value), cont())
        if isinstance(s, ast.AugAssign) and isinstance(s.op, ast.Add) and isinstance(s.target, ast.Name):
            n = s.target.id
            if self.types.get(n) != "int":
                raise Unsupported("+= on a non-integer")
            return "(let v_%s := (v_%s + %s)%%N in\n %s)" % (n, n, self.num(s.value), cont())
        if isinstance(s, ast.Assign) and len(s.targets) == 1 and isinstance(s.targets[0], ast.Name):
            name, v = s.targets[0].id, s.value
            if isinstance(v, ast.Subscript) and isinstance(v.value, ast.Name) and v.value.id == "BASE64_INDEX" \
                    and "BASE64_INDEX" not in self.types:
                if not self.fallible or self.typ(v.slice) != "bytes":
                    raise Unsupported("BASE64_INDEX lookup")
                saved = dict(self.types)
                self.types[name] = "int"
                body = cont()
                self.types = saved
                return "(match py_base64_index %s with\n | Some v_%s => %s\n | None => None end)" % (self.expr(v.slice), name, body)
            t = self.typ(v)
            c = self.expr(v)
            saved = dict(self.types)
            self.types[name] = t
            body = cont()
            self.types = saved
            return "(let v_%s := %s in\n %s)" % (name, c, body)
        if isinstance(s, ast.Expr) and isinstance(s.value, ast.Call) and isinstance(s.value.func, ast.Attribute) \
                and isinstance(s.value.func.value, ast.Name) and s.value.func.attr == "reverse" and not s.value.args:
            name = s.value.func.value.id
            if self.types.get(name) != "lbytes":
                raise Unsupported("reverse of a non-list")
            return "(let v_%s := (rev v_%s) in\n %s)" % (name, name, cont())
        if isinstance(s, ast.If):
            cond = self.truth(s.test)
            saved = dict(self.types)
            a = self.block(list(s.body) + rest, ret, k)
            self.types = dict(saved)
            b = self.block(list(s.orelse) + rest, ret, k)
            self.types = saved
            return "(if %s\n then %s\n else %s)" % (cond, a, b)
        if isinstance(s, ast.For):
            if k is not None or s.orelse or not isinstance(s.target, ast.Name):
                raise Unsupported("for loop shape")
            idx = self.range_list(s.iter)
            names = sorted(set(n for n in assigned(s.body) if n in self.types))
            if not names:
                raise Unsupported("loop without state")
            pat, ty = self.state(names)
            saved = dict(self.types)
            self.types[s.target.id] = "int"
            if self.fallible:
                body = self.block(list(s.body), ret, k=lambda: "(Some %s)" % pat)
                self.types = saved
                inner = "(fun (st : option %s) (v_%s : N) => match st with None => None | Some st0 => %s end)" % (
                    ty, s.target.id, self.bind(names, "st0", body))
                after = cont()
                return "(match fold_left %s %s (Some %s) with\n | None => None\n | Some st1 => %s end)" % (
                    inner, idx, pat, self.bind(names, "st1", after))
            body = self.block(list(s.body), ret, k=lambda: pat)
            self.types = saved
            inner = "(fun (st : %s) (v_%s : N) => %s)" % (ty, s.target.id, self.bind(names, "st", body))
            return self.bind(names, "(fold_left %s %s %s)" % (inner, idx, pat), cont())
        if isinstance(s, ast.While):
            if k is not None or s.orelse or self.fallible:
                raise Unsupported("while loop shape")
            if not (isinstance(s.test, ast.Name) and self.types.get(s.test.id) == "int"):
                raise Unsupported("while condition")
            x = s.test.id
            shifts = [n for n in s.body if isinstance(n, ast.Assign) and len(n.targets) == 1 and isinstance(n.targets[0], ast.Name)
                      and n.targets[0].id == x and isinstance(n.value, ast.BinOp) and isinstance(n.value.op, ast.RShift)
                      and isinstance(n.value.left, ast.Name) and n.value.left.id == x and isinstance(n.value.right, ast.Constant)
                      and isinstance(n.value.right.value, int) and n.value.right.value > 0]
            if len(shifts) != 1 or assigned(s.body).count(x) != 1:
                raise Unsupported("while body must shift its variable right exactly once (termination measure)")
            names = sorted(set(n for n in assigned(s.body) if n in self.types))
            pat, ty = self.state(names)
            body = self.block(list(s.body), ret, k=lambda: "(py_loop fuel' %s)" % pat)
            loop = ("(fix py_loop (fuel : nat) (st : %s) {struct fuel} : %s :=\n match fuel with\n | O => st\n | S fuel' => %s\n end)"
                    % (ty, ty, self.bind(names, "st", "(if %s\n then %s\n else st)" % (self.truth(s.test), body))))
            return self.bind(names, "(%s (S (N.size_nat v_%s)) %s)" % (loop, x, pat), cont())
        return G.Fn.block(self, [s], ret) if not rest and k is None else self.block_via_base(s, rest, ret, k)

    def block_via_base(self, s, rest, ret, k):
        # list append / pop of the base translator, with our continuation
        if isinstance(s, ast.Expr) and isinstance(s.value, ast.Call) and isinstance(s.value.func, ast.Attribute) \
                and isinstance(s.value.func.value, ast.Name) and s.value.func.attr == "append" and len(s.value.args) == 1:
            name = s.value.func.value.id
            if self.types.get(name) != "lbytes":
                raise Unsupported("append to a non-list")
            return "(let v_%s := (v_%s ++ [%s]) in\n %s)" % (name, name, self.as_bytes(s.value.args[0]), self.block(rest, ret, k))
        raise Unsupported("statement %s" % type(s).__name__)

    def range_list(self, it):
        if not (isinstance(it, ast.Call) and isinstance(it.func, ast.Name) and it.func.id == "range" and not it.keywords):
            raise Unsupported("for over something else than range")
        a = it.args
        if len(a) == 1:
            return "(py_range %s)" % self.num(a[0])
        if len(a) == 3 and isinstance(a[0], ast.BinOp) and isinstance(a[0].op, ast.Sub) and isinstance(a[0].right, ast.Constant) \
                and a[0].right.value == 1 and all(isinstance(x, ast.UnaryOp) and isinstance(x.op, ast.USub)
                                                  and isinstance(x.operand, ast.Constant) and x.operand.value == 1 for x in a[1:]):
            return "(rev (py_range %s))" % self.num(a[0].left)
        raise Unsupported("range shape")

    def translate2(self, ret, params):
        a = self.node.args
        if a.vararg or a.kwarg or a.kwonlyargs or a.defaults or len(a.args) != len(params):
            raise Unsupported("signature of %s" % self.node.name)
        ps = []
        for p, t in zip(a.args, params):
            ann = p.annotation.id if isinstance(p.annotation, ast.Name) else None
            if {"bytes": "bytes", "int": "int", "str": "bytes"}.get(ann) != t:
                raise Unsupported("annotation of %s.%s" % (self.node.name, p.arg))
            self.types[p.arg] = t
            ps.append("(v_%s : %s)" % (p.arg, COQT[t]))
        self.generator = any(isinstance(n, (ast.Yield, ast.YieldFrom)) for n in ast.walk(self.node))
        if self.generator:
            if ret != "lbytes":
                raise Unsupported("generator type")
            self.types["_out"] = "lbytes"
        body = self.block(list(self.node.body), ret)
        if self.generator:
            body = "(let v__out := (@nil bytes) in\n %s)" % body
        coq_ret = COQT[ret]
        if self.fallible:
            coq_ret = "option %s" % coq_ret
        return "Definition py_%s %s : %s :=\n %s." % (self.node.name, " ".join(ps), coq_ret, body)


# name, return type, parameter types, fallible
WANTED = [("lru_iter", "lbytes", ["bytes"], False),
          ("lru_dirname", "bytes", ["bytes"], False),
          ("int_to_base4", "bytes", ["int"], False),
          ("int_to_base64", "bytes", ["int"], False),
          ("base64_to_int", "int", ["bytes"], True),
          ("build_pagination_token", "bytes", ["int", "int"], False)]

PREAMBLE = """Definition py_range (n : N) : list N := map N.of_nat (seq 0 (N.to_nat n)).
Definition py_slice (a b : N) (l : bytes) : bytes := firstn (N.to_nat (b - a)) (skipn (N.to_nat a) l).
Definition py_char_at (l : bytes) (i : N) : bytes := match nth_error l (N.to_nat i) with Some c => [c] | None => [] end.
(* BASE64[i] and BASE64_INDEX[c]: the alphabet is Consts.base64_alphabet (regenerated); that BASE64_INDEX inverts it is
   checked on the imported module by the translator *)
Definition py_base64_at (i : N) : bytes := py_char_at base64_alphabet i.
Fixpoint py_index_of (c : N) (l : list N) (i : N) : option N :=
  match l with [] => None | x :: l' => if N.eqb x c then Some i else py_index_of c l' (i + 1)%N end.
Definition py_base64_index (c : bytes) : option N := match c with [x] => py_index_of x base64_alphabet 0%N | _ => None end.
(* primitive: "%i" % n *)
Definition py_fmt_int (n : N) : bytes := int_to_dec n.
"""


def check_module():
    sys.path.insert(0, REPO)
    for m in [k for k in sys.modules if k == "traph" or k.startswith("traph.")]:
        del sys.modules[m]
    h = importlib.import_module("traph.helpers")
    b = h.BASE64
    if not isinstance(b, str) or len(b) != 64 or len(set(b)) != 64 or any(ord(c) > 127 for c in b):
        raise Unsupported("BASE64 is not 64 distinct ASCII characters")
    if not isinstance(h.BASE64_INDEX, dict) or h.BASE64_INDEX != dict((c, i) for i, c in enumerate(b)):
        raise Unsupported("BASE64_INDEX does not invert BASE64")


def main(out):
    path = os.path.join(REPO, "traph", "helpers.py")
    tree = ast.parse(open(path).read(), path)
    fns = dict((n.name, n) for n in tree.body if isinstance(n, ast.FunctionDef))
    # the two tables must be module-level names that no function rebinds
    for n in ast.walk(tree):
        if isinstance(n, ast.FunctionDef):
            for m in ast.walk(n):
                if isinstance(m, (ast.Global, ast.Nonlocal)):
                    raise Unsupported("global statement in %s" % n.name)
                if isinstance(m, ast.Name) and isinstance(m.ctx, (ast.Store, ast.Del)) and m.id in ("BASE64", "BASE64_INDEX"):
                    raise Unsupported("%s rebinds %s" % (n.name, m.id))
    check_module()
    L = ["(* GENERATED by harness/gen_helpers2.py from %s/traph/helpers.py -- do not edit *)" % REPO,
         "From Coq Require Import List NArith Bool Arith.", "Import ListNotations.",
         "From Traph Require Import Bytes Consts Helpers.", "", PREAMBLE]
    known = {}
    for name, ret, params, fall in WANTED:
        if name not in fns:
            raise Unsupported("function %s not found" % name)
        L.append(Fn2(fns[name], dict(known), fall).translate2(ret, params))
        L.append("")
        known[name] = (ret, params, fall)
    text = "\n".join(L)
    old = open(out).read() if os.path.exists(out) else None
    if old != text:
        with open(out, "w") as f:
            f.write(text)
    return 0


if __name__ == "__main__":
    try:
        sys.exit(main(sys.argv[1]))
    except Unsupported as e:
        print("gen_helpers2: UNSUPPORTED: %s" % e)
        sys.exit(3)
