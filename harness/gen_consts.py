#!/venv/bin/python
"""Regenerate coq/theories/Consts.v from the current /repo source.

Fail-closed translator: every constant the model depends on must be assigned
exactly once at module level in the expected file (checked with `ast`), its value is
then taken from the imported module (so expressions such as
`0 | (1 << FLAG)` or `string.digits + ...` are evaluated by Python itself), and the
sizes Python's `struct` computes are emitted as numbers that ConstsFacts.v has to
re-prove from the parsed format (`layout_size node_format = py_node_block_size`).
Any unknown shape raises, and the caller reports the property as no longer shown.
"""
import ast
import importlib
import os
import re
import struct
import sys

REPO = os.environ.get("VERIF_REPO", "/repo")
sys.path.insert(0, REPO)

WANTED = {
    "traph/lru_trie/node.py": [
        "LRU_TRIE_NODE_FORMAT", "LRU_TRIE_NODE_BLOCK_SIZE", "LRU_TRIE_FIRST_DATA_BLOCK",
        "LRU_TRIE_STEM_SIZE",
        "LRU_TRIE_NODE_STEM", "LRU_TRIE_NODE_FLAGS", "LRU_TRIE_NODE_WEBENTITY",
        "LRU_TRIE_NODE_LEFT_BLOCK", "LRU_TRIE_NODE_RIGHT_BLOCK", "LRU_TRIE_NODE_CHILD_BLOCK",
        "LRU_TRIE_NODE_PARENT_BLOCK", "LRU_TRIE_NODE_OUTLINKS_BLOCK", "LRU_TRIE_NODE_INLINKS_BLOCK",
        "LRU_TRIE_NODE_REGISTERS",
        "LRU_TRIE_NODE_FLAG_PAGE", "LRU_TRIE_NODE_FLAG_CRAWLED", "LRU_TRIE_NODE_FLAG_LINKED",
        "LRU_TRIE_NODE_FLAG_DELETED", "LRU_TRIE_NODE_FLAG_WEBENTITY_CREATION_RULE",
        "LRU_TRIE_NODE_FLAG_HAS_TAIL", "LRU_TRIE_NODE_FLAG_IS_TAIL",
        "LRU_TRIE_NODE_FLAG_NO_CHILD_WEBENTITIES", "DEFAULT_FLAGS_VALUE",
    ],
    "traph/lru_trie/header.py": [
        "LRU_TRIE_HEADER_FORMAT", "LRU_TRIE_HEADER_BLOCK_SIZE", "LRU_TRIE_HEADER_BLOCKS",
        "LRU_TRIE_HEADER_LAST_WEBENTITY_ID", "LRU_TRIE_HEADER_TRAPH_VERSION",
    ],
    "traph/link_store/node.py": [
        "LINK_STORE_NODE_FORMAT", "LINK_STORE_NODE_BLOCK_SIZE", "LINK_STORE_FIRST_DATA_BLOCK",
        "LINK_STORE_NODE_TARGET", "LINK_STORE_NODE_PREVIOUS",
    ],
    "traph/link_store/header.py": [
        "LINK_STORE_HEADER_FORMAT", "LINK_STORE_HEADER_BLOCK_SIZE", "LINK_STORE_HEADER_BLOCKS",
        "LINK_STORE_HEADER_TRAPH_VERSION",
    ],
    "traph/helpers.py": ["BASE64", "BASE4_TO_OPS", "OPS_TO_BASE4"],
    "traph/version.py": ["__version__"],
}


class Unsupported(Exception):
    pass


ACCESSORS = {
    "LRUTrieNode": ["is_page", "flag_as_page", "is_crawled", "flag_as_crawled", "has_webentity_creation_rule",
                    "flag_as_webentity_creation_rule", "unflag_as_webentity_creation_rule", "has_tail",
                    "flag_as_having_tail", "is_tail", "can_have_child_webentities", "flag_can_have_child_webentities",
                    "has_left", "left", "set_left", "has_right", "right", "set_right", "has_child", "child", "set_child",
                    "has_parent", "parent", "set_parent", "has_outlinks", "outlinks", "set_outlinks",
                    "has_inlinks", "inlinks", "set_inlinks", "has_webentity", "webentity", "set_webentity",
                    "unset_webentity"],
    "LinkStoreNode": ["has_previous", "previous", "set_previous", "target", "set_target"],
}


def module_level_assignments(path):
    tree = ast.parse(open(path).read(), path)
    counts = {}
    for stmt in tree.body:
        targets = []
        if isinstance(stmt, ast.Assign):
            targets = stmt.targets
        elif isinstance(stmt, (ast.AugAssign, ast.AnnAssign)):
            targets = [stmt.target]
        for t in targets:
            for n in ast.walk(t):
                if isinstance(n, ast.Name):
                    counts[n.id] = counts.get(n.id, 0) + 1
    # assignments hidden in nested statements (if/for/try) make a constant ambiguous
    for stmt in tree.body:
        if isinstance(stmt, (ast.If, ast.For, ast.While, ast.Try, ast.With)):
            for n in ast.walk(stmt):
                if isinstance(n, ast.Name) and isinstance(n.ctx, ast.Store):
                    counts[n.id] = counts.get(n.id, 0) + 100
    return counts


def parse_format(fmt):
    """struct format (native mode) -> list of Coq fitem terms"""
    if not isinstance(fmt, str) or not fmt or fmt[0] in "<>=!@":
        raise Unsupported("format %r: explicit byte-order prefix not modelled" % (fmt,))
    items = []
    for cnt, code in re.findall(r"(\d*)([a-zA-Z?])", fmt):
        n = int(cnt) if cnt else 1
        if code == "p":
            items.append("FPas %d" % n)
        elif code == "x":
            items.append("FPad %d" % n)
        elif code in ("B", "I", "Q"):
            items += [{"B": "FU8", "I": "FU32", "Q": "FU64"}[code]] * n
        else:
            raise Unsupported("format %r: code %r not modelled" % (fmt, code))
    if "".join(re.findall(r"\d*[a-zA-Z?]", fmt)) != fmt:
        raise Unsupported("format %r: unparsed residue" % (fmt,))
    return "[" + "; ".join(items) + "]"


def coq_bytes(b):
    if isinstance(b, str):
        b = b.encode("ascii")
    return "[" + "; ".join(str(x) for x in b) + "]"


def main(out):
    vals = {}
    for rel, names in WANTED.items():
        path = os.path.join(REPO, rel)
        counts = module_level_assignments(path)
        mod = importlib.import_module(rel[:-3].replace("/", "."))
        for n in names:
            if counts.get(n, 0) != 1:
                raise Unsupported("%s: %s assigned %d times at module level" % (rel, n, counts.get(n, 0)))
            vals[n] = getattr(mod, n)
    if struct.calcsize("I") != 4 or struct.calcsize("Q") != 8:
        raise Unsupported("native int sizes differ from the model's")
    for f in ("LRU_TRIE_NODE_FORMAT", "LRU_TRIE_HEADER_FORMAT", "LINK_STORE_NODE_FORMAT", "LINK_STORE_HEADER_FORMAT"):
        sz = f.replace("_FORMAT", "_BLOCK_SIZE")
        if vals[sz] != struct.calcsize(vals[f]):
            raise Unsupported("%s is not struct.calcsize(%s)" % (sz, f))
    ops = vals["BASE4_TO_OPS"]
    L = []
    A = L.append
    A("(* GENERATED by harness/gen_consts.py from %s -- do not edit *)" % REPO)
    A("From Coq Require Import List NArith Bool.")
    A("Import ListNotations.")
    A("From Traph Require Import Layout.")
    A("Open Scope N_scope.")
    A("")
    A("Definition little_endian : bool := %s." % ("true" if sys.byteorder == "little" else "false"))
    A("Definition node_format : list fitem := %s." % parse_format(vals["LRU_TRIE_NODE_FORMAT"]))
    A("Definition py_node_block_size : N := %d." % vals["LRU_TRIE_NODE_BLOCK_SIZE"])
    A("Definition py_first_data_block : N := %d." % vals["LRU_TRIE_FIRST_DATA_BLOCK"])
    A("Definition stem_size : N := %d." % vals["LRU_TRIE_STEM_SIZE"])
    for k, nm in [("STEM", "pos_stem"), ("FLAGS", "pos_flags"), ("WEBENTITY", "pos_we"),
                  ("LEFT_BLOCK", "pos_left"), ("RIGHT_BLOCK", "pos_right"), ("CHILD_BLOCK", "pos_child"),
                  ("PARENT_BLOCK", "pos_parent"), ("OUTLINKS_BLOCK", "pos_out"), ("INLINKS_BLOCK", "pos_in")]:
        A("Definition %s : nat := %d." % (nm, vals["LRU_TRIE_NODE_" + k]))
    A("Definition node_registers : nat := %d." % vals["LRU_TRIE_NODE_REGISTERS"])
    for k, nm in [("PAGE", "flag_page"), ("CRAWLED", "flag_crawled"), ("LINKED", "flag_linked"),
                  ("DELETED", "flag_deleted"), ("WEBENTITY_CREATION_RULE", "flag_rule"),
                  ("HAS_TAIL", "flag_has_tail"), ("IS_TAIL", "flag_is_tail"),
                  ("NO_CHILD_WEBENTITIES", "flag_nochild")]:
        A("Definition %s : N := %d." % (nm, vals["LRU_TRIE_NODE_FLAG_" + k]))
    A("Definition default_flags : N := %d." % vals["DEFAULT_FLAGS_VALUE"])
    A("Definition header_format : list fitem := %s." % parse_format(vals["LRU_TRIE_HEADER_FORMAT"]))
    A("Definition py_header_block_size : N := %d." % vals["LRU_TRIE_HEADER_BLOCK_SIZE"])
    A("Definition trie_header_blocks : N := %d." % vals["LRU_TRIE_HEADER_BLOCKS"])
    A("Definition hpos_last_we : nat := %d." % vals["LRU_TRIE_HEADER_LAST_WEBENTITY_ID"])
    A("Definition hpos_version : nat := %d." % vals["LRU_TRIE_HEADER_TRAPH_VERSION"])
    A("Definition stub_format : list fitem := %s." % parse_format(vals["LINK_STORE_NODE_FORMAT"]))
    A("Definition py_stub_block_size : N := %d." % vals["LINK_STORE_NODE_BLOCK_SIZE"])
    A("Definition py_link_first_data_block : N := %d." % vals["LINK_STORE_FIRST_DATA_BLOCK"])
    A("Definition spos_target : nat := %d." % vals["LINK_STORE_NODE_TARGET"])
    A("Definition spos_previous : nat := %d." % vals["LINK_STORE_NODE_PREVIOUS"])
    A("Definition link_header_format : list fitem := %s." % parse_format(vals["LINK_STORE_HEADER_FORMAT"]))
    A("Definition py_link_header_block_size : N := %d." % vals["LINK_STORE_HEADER_BLOCK_SIZE"])
    A("Definition link_header_blocks : N := %d." % vals["LINK_STORE_HEADER_BLOCKS"])
    A("Definition lhpos_version : nat := %d." % vals["LINK_STORE_HEADER_TRAPH_VERSION"])
    A("Definition base64_alphabet : list N := %s." % coq_bytes(vals["BASE64"]))
    A("Definition base4_ops : list (N * N) := [%s]." % "; ".join(
        "(%d, %d)" % (ord(k), ord(v)) for k, v in sorted(ops.items())))
    A("Definition version_bytes : list N := %s." % coq_bytes(vals["__version__"]))
    # ---- accessors of LRUTrieNode / LinkStoreNode: which helper and which constants each one uses ----
    A("")
    A("(* accessor name -> [helper code; negated?; constants it names, in source order]")
    A("   helper codes: 1 test, 2 flag, 3 unflag, 4 compare-with-0 / plain register access *)")
    for rel, cls, prefix in (("traph/lru_trie/node.py", "LRUTrieNode", "LRU_TRIE_NODE_"),
                             ("traph/link_store/node.py", "LinkStoreNode", "LINK_STORE_NODE_")):
        tree = ast.parse(open(os.path.join(REPO, rel)).read())
        mod = importlib.import_module(rel[:-3].replace("/", "."))
        klass = [n for n in tree.body if isinstance(n, ast.ClassDef) and n.name == cls]
        if len(klass) != 1:
            raise Unsupported("class %s not found once in %s" % (cls, rel))
        for item in klass[0].body:
            if not isinstance(item, ast.FunctionDef) or item.name not in ACCESSORS[cls]:
                continue
            helper, neg, consts = 4, 0, []
            for n in ast.walk(item):
                if isinstance(n, ast.Call) and isinstance(n.func, ast.Name) and n.func.id in ("test", "flag", "unflag"):
                    helper = {"test": 1, "flag": 2, "unflag": 3}[n.func.id]
                if isinstance(n, ast.UnaryOp) and isinstance(n.op, ast.Not):
                    neg = 1
                if isinstance(n, ast.Name) and n.id.startswith(prefix) and n.id.isupper():
                    consts.append(n.id)
                if isinstance(n, ast.Name) and n.id == "DEFAULT_FLAGS_VALUE":
                    raise Unsupported("%s.%s compares with DEFAULT_FLAGS_VALUE: not a bit accessor" % (cls, item.name))
            seen = []
            for c in consts:
                if c not in seen:
                    seen.append(c)
            if not seen:
                raise Unsupported("%s.%s names no layout constant" % (cls, item.name))
            A("Definition acc_%s_%s : list N := [%s]." % ("n" if cls == "LRUTrieNode" else "s", item.name,
                                                      "; ".join([str(helper), str(neg)] + [str(getattr(mod, c)) for c in seen])))
        found = set(i.name for i in klass[0].body if isinstance(i, ast.FunctionDef))
        missing = [m for m in ACCESSORS[cls] if m not in found]
        if missing:
            raise Unsupported("%s lacks accessor(s) %s" % (cls, missing))
    text = "\n".join(L) + "\n"
    old = open(out).read() if os.path.exists(out) else None
    if old != text:  # keep the timestamp when nothing changed (incremental make)
        with open(out, "w") as f:
            f.write(text)
    return 0


if __name__ == "__main__":
    try:
        sys.exit(main(sys.argv[1]))
    except Unsupported as e:
        print("gen_consts: UNSUPPORTED: %s" % e)
        sys.exit(3)
