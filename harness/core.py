"""core.py — run a script on the implementation and on the extracted model+spec,
canonicalise, compare.  A script is a list of commands (op, args); pagination
sessions are expanded dynamically (tokens come from the implementation)."""
import os
import subprocess
import sys

HERE = os.path.dirname(os.path.abspath(__file__))
ROOT = os.path.dirname(HERE)
sys.path.insert(0, HERE)

import impl as I  # noqa: E402

DRIVER = os.path.join(ROOT, "ocaml", "driver")

WRITE_OPS = set(range(1, 15))
REPORT_OPS = {2, 3, 4, 5, 6, 11}


def run_driver(cmds, timeout=600):
    """cmds: list of (op, args) -> list of [model, spec] answers"""
    text = "".join("%d %s\n" % (op, " ".join(I.fmt(a) for a in args)) for op, args in cmds)
    p = subprocess.run([DRIVER], input=text.encode(), stdout=subprocess.PIPE, stderr=subprocess.PIPE,
                       timeout=timeout)
    if p.returncode != 0:
        raise RuntimeError("model driver failed: %s" % p.stderr.decode()[-500:])
    lines = p.stdout.decode().split("\n")
    out = []
    for ln in lines:
        if not ln:
            continue
        if ln.startswith("END"):
            if int(ln.split()[1]) != len(cmds):
                raise RuntimeError("model driver truncated output")
            break
        out.append(I.parse_line(ln))
    if len(out) != len(cmds):
        raise RuntimeError("model driver answered %d of %d commands" % (len(out), len(cmds)))
    return out


# ---- canonical forms -----------------------------------------------------------------
def _key(x):
    """total order on generic answers"""
    if x is None:
        return (0,)
    if x is I.REFUSED:
        return (1,)
    if isinstance(x, I.Crash):
        return (2,)
    if isinstance(x, int):
        return (3, x)
    if isinstance(x, (bytes, bytearray)):
        return (4, bytes(x))
    return (5, tuple(_key(y) for y in x))


def srt(l):
    return sorted(l, key=_key)


def is_err(x):
    return x is I.REFUSED or isinstance(x, I.Crash)


def is_report(r):
    return (isinstance(r, list) and len(r) == 2 and isinstance(r[0], int) and not isinstance(r[0], bool)
            and isinstance(r[1], list)
            and all(isinstance(e, list) and len(e) == 2 and isinstance(e[0], int) and isinstance(e[1], list) for e in r[1]))


def canon_reply(r):
    if is_report(r):
        return [r[0], [[w, srt(ps)] for w, ps in r[1]]]
    return r


def canon(op, ans):
    """canonical form of an implementation/model answer for the model-vs-implementation comparison"""
    if is_err(ans) or ans is None:
        return ans
    if op in (80, 81):
        # per-coroutine results: reports canonicalised, page lists kept in order, network graphs as sets
        out = []
        for r in ans:
            if isinstance(r, list) and len(r) == 2 and isinstance(r[1], list) and \
                    all(isinstance(e, list) and len(e) == 4 and all(isinstance(x, int) for x in e) for e in r[1]) and \
                    not is_report(r[1]):
                out.append([r[0], srt(r[1])])
            elif isinstance(r, list) and len(r) == 2:
                out.append([r[0], canon_reply(r[1])])
            else:
                out.append(r)
        return out
    if op in REPORT_OPS:
        return canon_reply(ans)
    if op in (24, 25, 28, 29, 30, 32, 33, 34, 35, 36, 37, 42):
        return srt(ans)
    if op == 27:
        return [srt([x[1] for x in ans]), len(ans)]
    if op == 31:
        return [ans[0], ans[1], srt(ans[2]), ans[3]]
    return ans


def eq(a, b):
    return _key(a) == _key(b)


class Mismatch(object):
    def __init__(self, idx, op, side, got, want, note=""):
        self.idx, self.op, self.side, self.got, self.want, self.note = idx, op, side, got, want, note

    def to_json(self):
        return {"index": self.idx, "op": self.op, "against": self.side,
                "implementation": I.fmt(self.got) if not isinstance(self.got, str) else self.got,
                "expected": I.fmt(self.want) if not isinstance(self.want, str) else self.want,
                "note": self.note}


# ---- implementation vs specification (the oracle) ------------------------------------
def spec_check(op, args, got, spec, clean):
    """returns None if the implementation answer satisfies the specification answer,
    else a short note.  `clean`: the prefix list of the query is the webentity's own
    distinct prefix list (the hypothesis of C05/C08)."""
    if spec is None and op not in (22,):
        return None
    if op in REPORT_OPS or op in (7, 8, 9, 10, 12):
        return None if eq(canon_reply(got), canon_reply(spec)) else "reply differs from the specification"
    if op in (20, 21, 22, 23, 38, 45, 46):
        return None if eq(got, spec) else "answer differs from the specification"
    if op in (24, 25, 30):
        if not clean and not is_err(spec) and not is_err(got):
            return None
        return None if eq(srt(got) if not is_err(got) else got, srt(spec) if not is_err(spec) else spec) else \
            "multiset differs from the specification"
    if op in (28, 29, 32, 33, 35, 36, 37, 42):
        if is_err(got) or is_err(spec):
            return None if eq(got, spec) else "error status differs"
        return None if eq(srt(got), srt(spec)) else "set differs from the specification"
    if op == 34:
        if is_err(got):
            return "network query failed"
        links = srt([[x[0], x[2], x[3]] for x in got if x[1] == 0])
        if not eq(links, srt(spec[0])):
            return "network weights differ from the aggregated page links"
        if not args[2]:
            tall = {}
            for x in got:
                if x[1] in (1, 2):
                    tall.setdefault(x[0], [0, 0])[x[1] - 1] = x[3]
            want = dict((w, [c, u]) for w, c, u in spec[1])
            if tall != want:
                return "page tallies differ"
        return None
    if op == 39:
        if is_err(got):
            return "metrics failed"
        return None if got[:4] == [spec[0], spec[1], spec[2], spec[3]] and got[7] == spec[4] else \
            "metrics figures differ from the accounting"
    if op == 41:
        if is_err(got):
            return "lookup failed"
        if bool(got[0]) != bool(spec):
            return "findability differs from 'is a stem-prefix of a submitted LRU'"
        if got[0] and got[1] != args[0]:
            return "bottom-up reconstruction differs from the LRU looked up"
        return None
    if op == 27:
        return most_linked_check(args, got, spec)
    return None


def most_linked_check(args, got, spec):
    """C20 oracle. spec: candidate pages with their true indegree. Returns a note, or a
    note starting with 'F7:' when the only discrepancy is the known finding."""
    if is_err(spec) or is_err(got):
        return None if eq(got, spec) else "error status differs"
    k = args[2]
    truth = {}
    for lru, d in spec:
        truth[lru] = d
    n = len(truth)
    if len(got) != min(k, n):
        return "answer has %d entries, expected min(k, n) = %d" % (len(got), min(k, n))
    lrus = [x[0] for x in got]
    if len(set(lrus)) != len(lrus):
        return "a page is listed twice"
    f7 = False
    for lru, d in got:
        if lru not in truth:
            return "listed page is not a page of the webentity within the depth limit"
        if d != truth[lru]:
            if truth[lru] == 0 and d == 1:
                f7 = True
            else:
                return "reported indegree %d, true indegree %d" % (d, truth[lru])
    degs = [x[1] for x in got]
    if any(degs[i] < degs[i + 1] for i in range(len(degs) - 1)):
        return "not in non-increasing order of indegree"
    if got:
        lo = min(truth[l] for l in lrus)
        for l, d in truth.items():
            if l not in lrus and d > lo:
                if f7 or (d == 1 and lo == 0):
                    f7 = True
                else:
                    return "an omitted page has a larger indegree than a listed one"
    return "F7: true indegree 0 reported as 1" if f7 else None
