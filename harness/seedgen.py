#!/venv/bin/python
"""seedgen.py [seed names...]  -  which of the kept seeded changes are stopped by the translated-code theorems alone?
For every /verif/seeded/<name>/patch.diff: apply it to a scratch worktree of /repo, run every translator on it, and, in a
scratch copy of /verif/coq, recompile the generated files that changed together with the files that depend on them (stopping at
the first proof files that no longer compile).
Prints one line per change: the translators that refused the source, the generated files that changed, the proof files
that no longer compile.  Nothing under /verif or /repo is modified (scratch copies under a temporary directory, removed at
the end).  Not a registered check: a measurement for DESIGN.md section 10."""
import json
import os
import shutil
import subprocess
import sys
import tempfile

HERE = os.path.dirname(os.path.abspath(__file__))
ROOT = os.path.dirname(HERE)
GENS = [("gen_consts.py", "Consts.v"), ("gen_callgraph.py", "CallGraph.v"), ("gen_helpers.py", "GenHelpers.v"),
        ("gen_helpers2.py", "GenHelpers2.v"), ("gen_helpers3.py", "GenHelpers3.v"), ("gen_storage.py", "GenStorage.v"), ("gen_node.py", "GenNode.v"),
        ("gen_links.py", "GenLinks.v"), ("gen_trie.py", "GenTrie.v"), ("gen_triew.py", "GenTrieW.v"),
        ("gen_tried.py", "GenTrieD.v"), ("gen_traph.py", "GenTraph.v"), ("gen_traphw.py", "GenTraphW.v"),
        ("gen_traphl.py", "GenTraphL.v"), ("gen_traphp.py", "GenTraphP.v"), ("gen_traphk.py", "GenTraphK.v"), ("gen_traphb.py", "GenTraphB.v"), ("gen_traphq.py", "GenTraphQ.v"), ("gen_traphm.py", "GenTraphM.v"), ("gen_traphn.py", "GenTraphN.v"), ("gen_traphx.py", "GenTraphX.v"), ("gen_triei.py", "GenTrieI.v"), ("gen_traphg.py", "GenTraphG.v"), ("gen_traphh.py", "GenTraphH.v"), ("gen_traphr.py", "GenTraphR.v"), ("gen_traphn2.py", "GenTraphN2.v"), ("gen_traphz.py", "GenTraphZ.v"), ("gen_traphv.py", "GenTraphV.v"), ("gen_traphi.py", "GenTraphI.v"), ("gen_triem.py", "GenTrieM.v")]


def sh(cmd, cwd=None, env=None, timeout=3600):
    p = subprocess.run(cmd, shell=True, cwd=cwd, env=env, stdout=subprocess.PIPE, stderr=subprocess.STDOUT, timeout=timeout)
    return p.returncode, p.stdout.decode(errors="replace")


def one_worker(args):
    """run the seeds of one worker in its own scratch copy"""
    tmp, wi, names = args
    wd = os.path.join(tmp, "w%d" % wi)
    os.makedirs(wd)
    pristine = os.path.join(tmp, "pristine", "coq")
    coq = os.path.join(wd, "coq")
    sh("cp -a %s %s" % (pristine, coq))
    os.makedirs(os.path.join(wd, "ocaml"), exist_ok=True)       # Extract.v writes ../ocaml/model.ml

    def body(path):
        # without the header line, which names the repository the file was generated from
        return "".join(open(path).readlines()[1:])
    base = dict((v, body(os.path.join(coq, "theories", v))) for _, v in GENS)
    out = {}
    for name in names:
        patch = os.path.join(ROOT, "seeded", name, "patch.diff")
        if not os.path.exists(patch):
            continue
        wt = os.path.join(wd, "repo")
        sh("git -C /repo worktree add -q --detach %s HEAD" % wt)
        res = {"refused": [], "changed": [], "broken": []}
        try:
            rc, o = sh("git apply %s" % patch, cwd=wt)
            if rc != 0:
                res["error"] = o[-200:]
                out[name] = res
                continue
            env = dict(os.environ, VERIF_REPO=wt, PYTHONPATH="")
            for g, v in GENS:
                dst = os.path.join(coq, "theories", v)
                new = dst + ".new"
                rc, o = sh("/venv/bin/python %s %s" % (os.path.join(HERE, g), new), env=env)
                if rc != 0:
                    res["refused"].append(g)
                elif body(new) != base[v]:
                    res["changed"].append(v)
                    shutil.copy(new, dst)
                if os.path.exists(new):
                    os.remove(new)
            if res["changed"]:
                # no -k: the first proof files that stop compiling are enough to say the change is stopped
                rc, o = sh("make -j%d 2>&1 | grep -B1 -A6 '^Error\\|Error:' | head -60" % JOBS, cwd=coq)
                for ln in o.split("\n"):
                    if ln.startswith("File \"./theories/"):
                        f = ln.split('"')[1].replace("./theories/", "")
                        if f not in res["broken"]:
                            res["broken"].append(f)
        finally:
            sh("git -C /repo worktree remove --force %s" % wt)
            if res["changed"]:
                sh("rsync -a --delete %s/ %s/" % (pristine, coq))       # back to the unchanged tree's files, with their timestamps
        out[name] = res
        print("%-10s refused=%s changed=%s broken=%s" % (name, ",".join(res["refused"]) or "-", ",".join(res["changed"]) or "-",
                                                      ",".join(res["broken"]) or "-"), flush=True)
    return out


WORKERS = int(os.environ.get("SEEDGEN_WORKERS", "4"))
JOBS = int(os.environ.get("SEEDGEN_JOBS", "4"))


def main():
    import multiprocessing
    names = sys.argv[1:] or sorted(os.listdir(os.path.join(ROOT, "seeded")))
    tmp = tempfile.mkdtemp(prefix="seedgen-")
    out = {}
    try:
        os.makedirs(os.path.join(tmp, "pristine", "ocaml"))
        coq = os.path.join(tmp, "pristine", "coq")
        sh("cp -a %s %s" % (os.path.join(ROOT, "coq"), coq))
        sh("coq_makefile -f _CoqProject -o Makefile", cwd=coq)
        rc, o = sh("make -j16 2>&1 | tail -3", cwd=coq)        # the unchanged tree builds
        if rc != 0 or "Error" in o:
            print("the unchanged tree does not build:\n" + o)
            return 2
        shards = [(tmp, i, names[i::WORKERS]) for i in range(WORKERS)]
        with multiprocessing.Pool(WORKERS) as pool:
            for r in pool.imap_unordered(one_worker, shards):
                out.update(r)
    finally:
        shutil.rmtree(tmp, ignore_errors=True)
        sh("git -C /repo worktree prune")
    json.dump(out, open(os.path.join(ROOT, "work", "seedgen.json"), "w"), indent=1, sort_keys=True)
    n = len(out)
    ref = sum(1 for r in out.values() if r["refused"])
    brk = sum(1 for r in out.values() if not r["refused"] and r["broken"])
    chg = sum(1 for r in out.values() if not r["refused"] and not r["broken"] and r["changed"])
    print("SUMMARY seeds=%d refused=%d broken_only=%d changed_only=%d untouched=%d" % (n, ref, brk, chg, n - ref - brk - chg))
    return 0


if __name__ == "__main__":
    sys.exit(main())
