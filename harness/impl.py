"""impl.py — runs script commands (same opcodes as coq/theories/Driver.v) on the real
implementation in /repo and returns answers in the same generic shape:
REFUSED | CRASH | None | int | bytes | list.

No hook in /repo is needed: write recording and forced yields are monkey-patches
applied to the instances created here."""
import os
import shutil
import signal
import sys
import tempfile
import threading
import warnings

REPO = os.environ.get("VERIF_REPO", "/repo")
if REPO not in sys.path:
    sys.path.insert(0, REPO)

warnings.simplefilter("ignore")


class _Timeout(BaseException):
    pass


def _on_alarm(signum, frame):
    raise _Timeout()


class _Sentinel(object):
    def __init__(self, name):
        self.name = name
        self.detail = None

    def __repr__(self):
        return self.name


REFUSED = _Sentinel("R")


class Crash(object):
    def __init__(self, detail=""):
        self.detail = detail

    def __repr__(self):
        return "C"

    def __eq__(self, other):
        return isinstance(other, Crash)

    def __hash__(self):
        return 1


_H = r"h:[^\|]+\|"
_SPECIAL = r"h:(localhost|(\d{1,3}\.){3}\d{1,3}|\[[\da-f]*:[\da-f:]*\])\|"
_HEAD = r"s:[a-zA-Z]+\|(t:[0-9]+\|)?"


def rule_regex(kind):
    """Hyphe's rule family (test/config.py): 0 domain, 1 subdomain, 1+n path-n"""
    if kind == 0:
        return ("(" + _HEAD + "(" + _H + "(" + _H + ")|" + _SPECIAL + "))").encode()
    if kind == 1:
        return ("(" + _HEAD + "(" + _H + "(" + _H + ")+|" + _SPECIAL + "))").encode()
    n = kind - 1
    return ("(" + _HEAD + "(" + _H + "(" + _H + ")+|" + _SPECIAL + ")(p:[^\\|]+\\|){%d})" % n).encode()


def _b(x):
    return 1 if x else 0


def _as_text(x):
    """the public API accepts text as well as bytes (Traph.__encode): every third LRU that is valid UTF-8 is handed over as str"""
    if isinstance(x, bytes) and len(x) % 3 == 0:
        try:
            return x.decode("utf-8")          # the default encoding of Traph
        except UnicodeDecodeError:
            return x
    return x


class Impl(object):
    """One index under test. backend: 'f' (folder on disk) or 'm' (memory)."""

    def __init__(self, backend="f", record=False):
        import traph  # noqa: F401  (imported late so VERIF_REPO is honoured)
        self.traph_mod = sys.modules["traph"]
        self.backend = backend
        self.folder = tempfile.mkdtemp(prefix="verif-traph-") if backend == "f" else None
        self.record = record
        self.trace = []          # ('t'|'l', offset or None, bytes)
        self.t = None
        self.dflt = 0
        self.rules = []
        self.open(0, [], overwrite=True)

    # ---- lifecycle ------------------------------------------------------------
    def open(self, dflt, rules, overwrite):
        T = self.traph_mod.Traph
        self.dflt, self.rules = dflt, list(rules)
        self.t = T(folder=self.folder, overwrite=overwrite,
                   default_webentity_creation_rule=rule_regex(dflt),
                   webentity_creation_rules=dict((p, rule_regex(k)) for p, k in rules))
        self._instrument()

    def _instrument(self):
        if not self.record:
            return
        for tag, st in (("t", self.t.lru_trie_storage), ("l", self.t.links_store_storage)):
            if getattr(st, "_verif_wrapped", False):
                continue
            orig = st.write

            def wrapped(data, block=None, _orig=orig, _tag=tag):
                self.trace.append((_tag, block, bytes(data)))
                return _orig(data, block)
            st.write = wrapped
            st._verif_wrapped = True

    def close(self):
        try:
            if self.t is not None:
                self.t.close()
        finally:
            if self.folder:
                shutil.rmtree(self.folder, ignore_errors=True)

    def flush(self):
        if self.backend == "f":
            for f in (self.t.lru_trie_file, self.t.link_store_file):
                try:
                    f.flush()
                except ValueError:
                    pass  # already closed (a failed reopen): the bytes on disk are final

    def file_bytes(self, which):
        if self.backend == "f":
            self.flush()
            path = self.t.lru_trie_path if which == "t" else self.t.link_store_path
            with open(path, "rb") as f:
                return f.read()
        st = self.t.lru_trie_storage if which == "t" else self.t.links_store_storage
        return bytes(st.array)

    # ---- conversions ------------------------------------------------------------
    @staticmethod
    def report(r):
        return [r.nb_created_pages, [[w, list(ps)] for w, ps in r.created_webentities.items()]]

    def call(self, f):
        TE = self.traph_mod.TraphException
        # a request that does not return is a failure of the request, not of the harness
        use_alarm = hasattr(signal, "SIGALRM") and threading.current_thread() is threading.main_thread()
        if use_alarm:
            old = signal.signal(signal.SIGALRM, _on_alarm)
            signal.alarm(int(os.environ.get("VERIF_CMD_TIMEOUT", "4")))
        try:
            return f()
        except TE:
            return REFUSED
        except _Timeout:
            return Crash("Timeout: the request did not return within the time limit")
        except Exception as e:  # any other exception is a crash of the request
            return Crash("%s: %s" % (type(e).__name__, e))
        finally:
            if use_alarm:
                signal.alarm(0)
                signal.signal(signal.SIGALRM, old)

    def yielding(self, f):
        """run a query with every loop iteration of its generator a yield point (drained at once by run_iterator):
        the answer must not depend on how often the generator yields"""
        def go():
            TIS = sys.modules["traph.traph_iterator_state"].TraphIteratorState
            orig = TIS.should_yield

            def always(self_, yield_frequency=1000):
                self_.n_iterations += 1
                return True
            TIS.should_yield = always
            try:
                return f()
            finally:
                TIS.should_yield = orig
        self._yield_toggle = not getattr(self, "_yield_toggle", False)
        return go if self._yield_toggle else f

    # ---- dispatcher -------------------------------------------------------------
    def exec(self, op, a):
        t = self.t
        if op == 1:
            def go1():
                # a new index, alternately through overwrite=True and through the default flags on an empty folder /
                # without folder (an index "created fresh": the constructor flags must not matter)
                self._opens = getattr(self, "_opens", 0) + 1
                default_flags = (self._opens + a[0] + len(a[1])) % 2 == 0
                if self.backend == "f":
                    t.close()
                    if default_flags:
                        for fn in ("lru_trie.dat", "link_store.dat"):
                            try:
                                os.remove(os.path.join(self.folder, fn))
                            except OSError:
                                pass
                self.open(a[0], [(p, k) for p, k in a[1]], overwrite=not default_flags)
                return 1
            return self.call(go1)
        if op == 13:
            def go13():
                if self.backend == "f":
                    t.close()
                    self.open(a[0], [(p, k) for p, k in a[1]], overwrite=False)
                else:
                    # a memory index cannot be reopened: only the RAM rules are replaced
                    import re
                    t.default_webentity_creation_rule = re.compile(rule_regex(a[0]), re.I)
                    t.webentity_creation_rules = {}
                    for p, k in a[1]:
                        t.add_webentity_creation_rule(p, rule_regex(k), False)
                return 1
            return self.call(go13)
        if op == 14:
            def go():
                d = rule_regex(a[0]) if a[0] is not None else None
                rs = dict((p, rule_regex(k)) for p, k in a[1]) if a[1] is not None else None
                t.clear(d, rs)
                self._instrument()
                return 1
            return self.call(go)
        if op == 2:
            return self.call(lambda: self.report(t.add_page(_as_text(a[0]), crawled=bool(a[1]))))
        if op == 3:
            return self.call(lambda: self.report(t.add_pages(list(a[0]), crawled=bool(a[1]))))
        if op == 4:
            return self.call(lambda: self.report(t.add_links([(x, y) for x, y in a[0]])))
        if op == 5:
            def go():
                data = {}
                for src, tgts in a[0]:
                    data[src] = list(tgts)
                return self.report(t.index_batch_crawl(data))
            return self.call(go)
        if op == 6:
            return self.call(lambda: self.report(t.create_webentity(list(a[0]))))
        if op == 7:
            def go7():
                ps = list(a[1])
                # the unchecked form is used where the checked one would succeed (every prefix attributed to that webentity)
                if len(ps) % 2 == 1 and len(set(ps)) == len(ps):
                    try:
                        if all(t.get_webentity_by_prefix(p) == a[0] for p in ps):
                            return _b(t.delete_webentity(a[0], ps, check_for_corruption=False))
                    except TE:
                        pass
                return _b(t.delete_webentity(a[0], ps))
            TE = self.traph_mod.TraphException
            return self.call(go7)
        if op == 8:
            return self.call(lambda: _b(t.add_prefix_to_webentity(a[0], a[1])))
        if op == 9:
            return self.call(lambda: _b(t.remove_prefix_from_webentity(a[0], a[1] if a[1] else False)))
        if op == 10:
            # the explicit alias is used for every other prefix length (same semantics expected)
            mv = t.move_prefix_to_webentity_from_webentity if len(a[0]) % 2 else t.move_prefix_to_webentity
            return self.call(lambda: _b(mv(a[0], a[1], a[2] if a[2] else False)))
        if op == 11:
            return self.call(lambda: self.report(t.add_webentity_creation_rule(a[0], rule_regex(a[1]))))
        if op == 12:
            return self.call(lambda: _b(t.remove_webentity_creation_rule(a[0])))
        # ---- reads ----
        if op == 20:
            return self.call(lambda: t.retrieve_webentity(_as_text(a[0])))
        if op == 21:
            return self.call(lambda: t.retrieve_prefix(_as_text(a[0])))
        if op == 22:
            def go():
                r = t.get_potential_prefix(a[0])
                return None if r is False else (r if isinstance(r, bytes) else (b"" if r == "" else r))
            return self.call(go)
        if op == 23:
            return self.call(lambda: t.get_webentity_by_prefix(_as_text(a[0])))
        if op == 24:
            return self.call(lambda: [[p["lru"], _b(p["crawled"])] for p in t.get_webentity_pages(a[0], list(a[1]))])
        if op == 25:
            return self.call(self.yielding(lambda: [[p["lru"], _b(p["crawled"])] for p in t.get_webentity_crawled_pages(a[0], list(a[1]))]))
        if op == 26:
            def go():
                tok = a[3].decode("ascii") if a[3] is not None else None
                r = t.paginate_webentity_pages(a[0], list(a[1]), page_count=a[2], pagination_token=tok,
                                               crawled_only=bool(a[4]))
                if r["count"] != len(r["pages"]):
                    return Crash("count != len(pages)")
                return [_b(r["done"]), r["count"], r["count_crawled"],
                        [[p["lru"], _b(p["crawled"])] for p in r["pages"]],
                        r["token"].encode("ascii") if "token" in r else None]
            return self.call(go)
        if op == 27:
            return self.call(self.yielding(lambda: [[p["lru"], p["indegree"]] for p in
                                                    t.get_webentity_most_linked_pages(a[0], list(a[1]), pages_count=a[2], max_depth=a[3])]))
        if op == 28:
            return self.call(lambda: list(t.get_webentity_parent_webentities(a[0], list(a[1]))))
        if op == 29:
            return self.call(self.yielding(lambda: list(t.get_webentity_child_webentities(a[0], list(a[1])))))
        if op == 30:
            return self.call(lambda: [list(x) for x in t.get_webentity_pagelinks(
                a[0], list(a[1]), include_inbound=bool(a[2]), include_internal=bool(a[3]), include_outbound=bool(a[4]))])
        if op == 31:
            def go():
                tok = a[5].decode("ascii") if a[5] is not None else None
                r = t.paginate_webentity_pagelinks(a[0], list(a[1]), include_internal=bool(a[2]),
                                                   include_outbound=bool(a[3]), source_page_count=a[4],
                                                   pagination_token=tok)
                if r["count_pagelinks"] != len(r["pagelinks"]):
                    return Crash("count_pagelinks != len(pagelinks)")
                return [_b(r["done"]), r["count_sourcepages"], [list(x) for x in r["pagelinks"]],
                        r["token"].encode("ascii") if "token" in r else None]
            return self.call(go)
        if op == 32:
            def go():
                f = t.get_webentity_outlinks if a[0] else t.get_webentity_inlinks
                g = t.get_webentity_outdegree if a[0] else t.get_webentity_indegree
                s = f(a[1], list(a[2]))
                if g(a[1], list(a[2])) != len(s):
                    return Crash("degree != len(set)")
                if t.get_webentity_degree(a[1], list(a[2])) != t.get_webentity_indegree(a[1], list(a[2])) + t.get_webentity_outdegree(a[1], list(a[2])):
                    return Crash("get_webentity_degree != indegree + outdegree")
                return [0 if w is None else w for w in s]
            return self.call(self.yielding(go))
        if op == 33:
            def go():
                r = [list(x) for x in t.get_page_links(a[0], include_inbound=bool(a[1]),
                                                       include_internal=bool(a[2]), include_outbound=bool(a[3]))]
                return r
            return self.call(go)
        if op == 34:
            def go():
                if a[2]:
                    g = t.get_webentities_links_slow(out=bool(a[0]), include_auto=bool(a[1]))
                else:
                    g = t.get_webentities_links(out=bool(a[0]), include_auto=bool(a[1]))
                    # the directional aliases must give the same answer
                    alias = (t.get_webentities_outlinks if a[0] else t.get_webentities_inlinks)(include_auto=bool(a[1]))
                    if dict((k, dict(v)) for k, v in alias.items()) != dict((k, dict(v)) for k, v in g.items()):
                        return Crash("get_webentities_%slinks differs from get_webentities_links" % ("out" if a[0] else "in"))
                res = []
                for src, cnt in g.items():
                    for k, v in cnt.items():
                        if k == "pages_crawled":
                            res.append([src, 1, 0, v])
                        elif k == "pages_uncrawled":
                            res.append([src, 2, 0, v])
                        else:
                            res.append([src, 0, k, v])
                return res
            return self.call(self.yielding(go))
        if op == 35:
            return self.call(lambda: [[lru, _b(node.is_crawled())] for node, lru in t.pages_iter()])
        if op == 36:
            return self.call(lambda: [[lru, node.webentity()] for node, lru in t.webentity_prefix_iter()])
        if op == 37:
            return self.call(lambda: [[x, y] for x, y in t.links_iter(out=bool(a[0]))])
        if op == 38:
            def go():
                cl = t.count_links()
                if cl * 2 != int(cl * 2):
                    return Crash("count_links not a half-integer")
                return [t.count_pages(), t.count_crawled_pages(), int(cl * 2)]
            return self.call(go)
        if op == 39:
            def go():
                m = t.lru_trie.metrics()
                nl = t.link_store.metrics()["nb_links"]
                return [m["nb_nodes"], m["nb_pages"], m["nb_crawled_pages"], m["nb_tail_nodes"],
                        m["nb_fragmented_nodes"], m["nb_stems"], m["max_tail"], int(nl * 2)]
            return self.call(go)
        if op == 48:
            def go():
                m = t.metrics()
                lk, b = m["links"], m["bst"]
                ref = t.lru_trie.metrics()
                if any(m["lru_trie"][k] != ref[k] for k in ("nb_nodes", "nb_pages", "nb_crawled_pages", "nb_tail_nodes")):
                    return Crash("metrics()['lru_trie'] differs from lru_trie.metrics()")
                nb = b["nb_bst"]
                return [lk["max_inlinks_len"], lk["max_inlinks_lru"] or b"", lk["max_outlinks_len"], lk["max_outlinks_lru"] or b"",
                        nb, b["max_bst_height"], b["max_bst_size"], int(round(b["avg_bst_height"] * nb)), int(round(b["avg_bst_size"] * nb))]
            return self.call(go)
        if op == 46:
            return self.call(lambda: [t.get_page_indegree(a[0]), t.get_page_outdegree(a[0]), t.get_page_degree(a[0]),
                                      t.get_page_indegree(a[0], weighted=True), t.get_page_outdegree(a[0], weighted=True),
                                      t.get_page_degree(a[0], weighted=True)])
        if op == 47:
            def go():
                node = t.lru_trie.lru_node(a[0])
                if not node:
                    return [None, None, None]
                return [node.block, node.block, t.lru_trie.windup_lru(node.block)]
            return self.call(go)
        if op == 40:
            return self.call(lambda: list(t.expand_prefix(a[0])))
        if op == 41:
            def go():
                node = t.lru_trie.lru_node(a[0])
                if not node:
                    return [0]
                return [1, t.lru_trie.windup_lru(node.block)]
            return self.call(go)
        if op == 42:
            return self.call(lambda: [lru for _, lru in t.lru_trie.dfs_iter()])
        if op == 43:
            return self.call(lambda: self.file_bytes("t"))
        if op == 44:
            return self.call(lambda: self.file_bytes("l"))
        if op == 45:
            return self.call(lambda: [len(self.file_bytes("t")), len(self.file_bytes("l"))])
        if op == 80:
            return self.interleave(a[0], a[1])
        if op == 81:
            return self.interleave(a[0], a[1], abandon=True)
        # ---- helpers ----
        H = sys.modules["traph.helpers"]
        if op == 60:
            return self.call(lambda: list(H.lru_iter(a[0])))
        if op == 61:
            return self.call(lambda: H.build_pagination_token(a[0], a[1]).encode("ascii"))
        if op == 62:
            def go():
                try:
                    i, p = H.parse_pagination_token(a[0].decode("latin-1"))
                except (ValueError, KeyError):
                    return None
                return [i, p]
            return self.call(go)
        if op == 63:
            def go():
                import re
                m = re.compile(rule_regex(a[0]), re.I).search(a[1])
                return m.group() if m else None
            return self.call(go)
        if op == 64:
            def go():
                N = sys.modules["traph.lru_trie.node"]
                st = a[0]
                n = N.LRU_TRIE_STEM_SIZE
                head, tail = st[:n], st[n:]
                chunks = [c for _, c in H.detailed_chunks_iter(n, tail)] if tail else []
                return [head] + chunks
            return self.call(go)
        if op == 65:
            return self.call(lambda: H.lru_dirname(a[0]))
        if op == 66:
            return self.call(lambda: [H.base4_append(a[0], a[1]), [int(c) for c in H.int_to_base4(a[0])]])
        return Crash("unknown opcode %r" % op)


def _interleave(self, specs, sched, abandon=False):
    """start the generator requests, advance them in the order of the schedule (every loop iteration a
    yield point), then finish the unfinished ones in index order"""
    TIS = sys.modules["traph.traph_iterator_state"].TraphIteratorState
    TE = self.traph_mod.TraphException
    t = self.t
    orig = TIS.should_yield

    def always(self_, yield_frequency=1000):
        self_.n_iterations += 1
        return True
    TIS.should_yield = always
    try:
        gens, res, done = [], [], []
        for sp in specs:
            if sp[0] == 0:
                data = {}
                for src, tgts in sp[1]:
                    data[src] = list(tgts)
                gens.append(t.index_batch_crawl_iter(data, 1))
            elif sp[0] == 1:
                gens.append(t.add_webentity_creation_rule_iter(sp[1], rule_regex(sp[2])))
            elif sp[0] == 3:
                if sp[2]:
                    gens.append(t.get_webentities_links_iter(out=bool(sp[1]), include_auto=True))
                else:       # the directional aliases
                    gens.append((t.get_webentities_outlinks_iter if sp[1] else t.get_webentities_inlinks_iter)(include_auto=False))
            elif sp[0] == 4:
                gens.append(t.get_webentity_pagelinks_iter(sp[1], list(sp[2]), include_inbound=bool(sp[3]),
                                                           include_internal=bool(sp[4]), include_outbound=bool(sp[5])))
            else:
                gens.append(t.get_webentity_pages_iter(sp[1], list(sp[2])))
            res.append(None)
            done.append(False)

        first = {}

        def advance(i):
            if done[i]:
                return
            if i in moments and i not in first:
                first[i] = max(0, len(moments[i]) - 1)      # the moment just before this query's first step
            try:
                st = next(gens[i])
                if st.done:
                    done[i] = True
                    res[i] = st.result
            except StopIteration:
                done[i] = True
            except TE:
                done[i] = True
                res[i] = REFUSED
            except _Timeout:
                raise
            except Exception as e:
                done[i] = True
                res[i] = Crash("%s: %s" % (type(e).__name__, e))
        # the plain (uninterrupted) answer of every page-link query at every moment of its execution: what "qualified"
        # means for the sandwich clause of the property (side channel, not part of the reply)
        moments = dict((k, []) for k, sp in enumerate(specs) if sp[0] in (2, 3, 4))

        def snapshot():
            for k in moments:
                if done[k]:
                    continue
                sp = specs[k]
                TIS.should_yield = orig
                if sp[0] == 2:
                    TIS.should_yield = orig
                    try:
                        moments[k].append(set(p["lru"] for p in t.get_webentity_pages(sp[1], list(sp[2]))))
                    except Exception:
                        moments[k].append(None)
                    finally:
                        TIS.should_yield = always
                    continue
                if sp[0] == 3:
                    TIS.should_yield = orig
                    try:
                        g = t.get_webentities_links(out=bool(sp[1]), include_auto=bool(sp[2]))
                        coarse = set((a, b) for a, c in g.items() for b in c if not isinstance(b, str))
                        # the page links that sustain the edges: (source page, target page, edge)
                        we = {}

                        def we_of(l):
                            if l not in we:
                                try:
                                    we[l] = t.retrieve_webentity(l)
                                except TE:
                                    we[l] = 0
                            return we[l]
                        fine = set()
                        # the query walks the out-lists (out=True) or the in-lists (out=False) of the pages: a batch writes
                        # the in-lists after the out-lists, so "sustained" is judged on the lists the query reads
                        for a, b in t.links_iter(out=bool(sp[1])):
                            wa, wb = we_of(a), we_of(b)
                            if wa and wb and (sp[2] or wa != wb):
                                fine.add((a, b, (wa, wb)))
                        moments[k].append((coarse, fine))
                    except Exception:
                        moments[k].append(None)
                    finally:
                        TIS.should_yield = always
                    continue
                try:
                    # one answer per requested clause (inbound / internal / outbound): a link qualifies under a clause
                    a = {}
                    for c in range(3):
                        if sp[3 + c]:
                            a[c] = [tuple(x) for x in t.get_webentity_pagelinks(
                                sp[1], list(sp[2]), include_inbound=c == 0, include_internal=c == 1, include_outbound=c == 2)]
                except Exception:
                    a = None
                finally:
                    TIS.should_yield = always
                moments[k].append(a)
        snapshot()
        for i in sched:
            if 0 <= i < len(gens):
                advance(i)
                if moments:
                    snapshot()
        for i in range(len(gens)):
            if abandon:
                # the unfinished requests are dropped where they stand
                if not done[i]:
                    gens[i].close()
                continue
            guard = 0
            while not done[i] and guard < 100000:
                advance(i)
                guard += 1
                if moments:
                    snapshot()
        # a query's execution starts with its first step: only the moments from there on count
        self.last_moments = dict((k, v[first.get(k, 0):]) for k, v in moments.items())
        out = []
        for k, (sp, r) in enumerate(zip(specs, res)):
            if not done[k]:
                out.append([0, None])
            elif r is REFUSED or isinstance(r, Crash):
                out.append([1, r])
            elif sp[0] in (0, 1):
                out.append([1, self.report(r)])
            elif sp[0] == 4:
                out.append([1, [list(x) for x in r]])
            elif sp[0] == 3:
                g = []
                for src, cnt in r.items():
                    for k, v in cnt.items():
                        g.append([src, 1, 0, v] if k == "pages_crawled" else [src, 2, 0, v] if k == "pages_uncrawled" else [src, 0, k, v])
                out.append([1, g])
            else:
                out.append([1, [[p["lru"], _b(p["crawled"])] for p in r]])
        return out
    finally:
        TIS.should_yield = orig


Impl.interleave = lambda self, specs, sched, abandon=False: self.call(lambda: _interleave(self, specs, sched, abandon))


def _ro_make(t, sp, it):
    """a read-only request of the public API, as a generator (it=True) or answered at once (it=False)"""
    k = sp[0]
    if k == "pages":
        return t.get_webentity_pages_iter(sp[1], list(sp[2])) if it else t.get_webentity_pages(sp[1], list(sp[2]))
    if k == "crawled":
        return t.get_webentity_crawled_pages_iter(sp[1], list(sp[2])) if it else t.get_webentity_crawled_pages(sp[1], list(sp[2]))
    if k == "most":
        f = t.get_webentity_most_linked_pages_iter if it else t.get_webentity_most_linked_pages
        return f(sp[1], list(sp[2]), pages_count=sp[3], max_depth=sp[4])
    if k == "children":
        f = t.get_webentity_child_webentities_iter if it else t.get_webentity_child_webentities
        return f(sp[1], list(sp[2]))
    if k == "plinks":
        f = t.get_webentity_pagelinks_iter if it else t.get_webentity_pagelinks
        return f(sp[1], list(sp[2]), include_inbound=bool(sp[3]), include_internal=bool(sp[4]), include_outbound=bool(sp[5]))
    if k == "outlinks":
        return t.get_webentity_outlinks_iter(sp[1], list(sp[2])) if it else t.get_webentity_outlinks(sp[1], list(sp[2]))
    if k == "inlinks":
        return t.get_webentity_inlinks_iter(sp[1], list(sp[2])) if it else t.get_webentity_inlinks(sp[1], list(sp[2]))
    if k == "net":
        f = t.get_webentities_links_iter if it else t.get_webentities_links
        return f(out=bool(sp[1]), include_auto=bool(sp[2]))
    if k == "netslow":
        f = t.get_webentities_links_slow_iter if it else t.get_webentities_links_slow
        return f(out=bool(sp[1]), include_auto=bool(sp[2]))
    raise KeyError(k)


def _ro_canon(sp, r):
    k = sp[0]
    if k in ("pages", "crawled"):
        return [(p["lru"], bool(p["crawled"])) for p in r]
    if k == "most":
        return [(p["lru"], p["indegree"]) for p in r]
    if k in ("children", "outlinks", "inlinks"):
        return sorted(x if x is not None else 0 for x in r)
    if k == "plinks":
        return [tuple(x) for x in r]
    return sorted((a, str(b), v) for a, c in r.items() for b, v in c.items())


def _interleave_ro(self, specs, sched):
    """read-only requests advanced in turns (every loop iteration a yield point): nothing writes, so each must answer
    exactly what it answers when run alone.  Returns (interleaved answers, answers alone), canonical, None for a refusal."""
    TIS = sys.modules["traph.traph_iterator_state"].TraphIteratorState
    TE = self.traph_mod.TraphException
    t = self.t
    alone = []
    for sp in specs:
        try:
            alone.append(_ro_canon(sp, _ro_make(t, sp, False)))
        except TE:
            alone.append(None)
    orig = TIS.should_yield

    def always(self_, yield_frequency=1000):
        self_.n_iterations += 1
        return True
    TIS.should_yield = always
    try:
        gens = [_ro_make(t, sp, True) for sp in specs]
        res, done = [None] * len(gens), [False] * len(gens)

        def advance(i):
            if done[i]:
                return
            try:
                st = next(gens[i])
                if st.done:
                    done[i], res[i] = True, _ro_canon(specs[i], st.result)
            except StopIteration:
                done[i] = True
            except TE:
                done[i] = True
        for i in sched:
            if 0 <= i < len(gens):
                advance(i)
        for i in range(len(gens)):
            guard = 0
            while not done[i] and guard < 100000:
                advance(i)
                guard += 1
        return res, alone
    finally:
        TIS.should_yield = orig


Impl.interleave_ro = lambda self, specs, sched: self.call(lambda: _interleave_ro(self, specs, sched))


# ---- generic syntax (shared with ocaml/driver.ml) -------------------------------------
def fmt(a):
    if a is REFUSED:
        return "R"
    if isinstance(a, Crash):
        return "C"
    if a is None:
        return "-"
    if isinstance(a, bool):
        return "1" if a else "0"
    if isinstance(a, int):
        return str(a)
    if isinstance(a, (bytes, bytearray)):
        return "x" + bytes(a).hex()
    if isinstance(a, (list, tuple)):
        return "[ " + "".join(fmt(x) + " " for x in a) + "]"
    raise TypeError("cannot format %r" % (a,))


def parse(tokens, i=0):
    t = tokens[i]
    if t == "R":
        return REFUSED, i + 1
    if t == "C":
        return Crash(), i + 1
    if t == "-":
        return None, i + 1
    if t == "[":
        out = []
        i += 1
        while tokens[i] != "]":
            v, i = parse(tokens, i)
            out.append(v)
        return out, i + 1
    if t.startswith("x"):
        return bytes.fromhex(t[1:]), i + 1
    return int(t), i + 1


def parse_line(line):
    v, _ = parse(line.split())
    return v
