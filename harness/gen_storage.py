#!/venv/bin/python
"""Translate the two storage classes (traph/storage/memory.py, traph/storage/file.py) into Gallina
state-transition functions: coq/theories/GenStorage.v, regenerated on every run.  GenStorageFacts.v
proves them equal to the hand-written storage machines of Storage.v (mem_step / file_step), which is
what C15 (memory = disk) and C18 (write traces) are proved about.

A method `def m(self, a, b=None)` becomes `py_<cls>_m : state -> A -> option B -> state * result`; the
object's attributes are the fields of the state record (taken from __init__), `self.x = e` is a field
update.  Accepted (anything else fails closed):
  statements : `self.f = e`, `name = e`, `if <test>: ... else: ...`, `return e`, `self.array.extend(e)`,
               `self.array[a : b] = e`, `self.file.seek(e)`, `self.file.seek(0, os.SEEK_END)`,
               `self.file.write(e)`, `name = self.file.read(e)`, and the one try statement of
               MemoryStorage.read (`try: return <slice> or None / except IndexError: return None /
               except: raise`: slicing a bytearray never raises, so it is the body);
  tests      : `name is None`, `name is not None`, truthiness of an integer expression;
  expressions: integers, names, `self.f`, `a + b`, `a - b`, `a % b`, `len(e)`, `self.__len__()`,
               `self.array[a : b]`, `e or None`, `self.file.tell()`.
Integers are N: `a - b` is truncated at 0 where Python would go negative, which happens only when a
store holds less than one block - excluded by the usage discipline (`disciplined` of Storage.v) under
which the theorems are stated.  The file object is the primitive `pyfile` (content, position) with
seek / seek-to-end / tell / read(n) / write(data) as Python's buffered random-access file defines them
(trusted; exercised against the real classes by opcode 70 of the correspondence)."""
import ast
import os
import sys

REPO = os.environ.get("VERIF_REPO", "/repo")


class Unsupported(Exception):
    pass


PREAMBLE = r"""(* the file object: content and position (Python's buffered random-access binary file) *)
Record pyfile := mkPF { pf_content : bytes; pf_pos : N }.
Definition pf_seek (p : N) (f : pyfile) : pyfile := mkPF (pf_content f) p.
Definition pf_seek_end (f : pyfile) : pyfile := mkPF (pf_content f) (N.of_nat (length (pf_content f))).
Definition pf_read (n : N) (f : pyfile) : pyfile * bytes :=
  let d := firstn (N.to_nat n) (skipn (N.to_nat (pf_pos f)) (pf_content f)) in
  (mkPF (pf_content f) (pf_pos f + N.of_nat (length d)), d).
Definition pf_write (data : bytes) (f : pyfile) : pyfile :=
  let padded := pf_content f ++ repeat 0%N (N.to_nat (pf_pos f) - length (pf_content f)) in
  mkPF (firstn (N.to_nat (pf_pos f)) padded ++ data ++ skipn (N.to_nat (pf_pos f) + length data) padded)
       (pf_pos f + N.of_nat (length data)).
Definition py_slice (a b : N) (l : bytes) : bytes := firstn (N.to_nat (b - a)) (skipn (N.to_nat a) l).
(* bytearray slice assignment a[i:j] = data *)
Definition py_slice_assign (a b : N) (data l : bytes) : bytes := firstn (N.to_nat a) l ++ data ++ skipn (N.to_nat (N.max a b)) l.
Definition py_or_none (b : bytes) : option bytes := match b with [] => None | _ => Some b end.
"""


class Cls(object):
    def __init__(self, node, short, fields):
        self.node, self.short, self.fields = node, short, fields     # fields: name -> coq type
        self.rec = "py_%s" % short

    def fld(self, f):
        return "%s_%s" % (self.short, f)

    def setter(self, f, v):
        args = " ".join(v if g == f else "(%s st)" % self.fld(g) for g in self.fields)
        return "(mk_%s %s)" % (self.short, args)

    # ---- expressions ----
    def expr(self, e, env):
        if isinstance(e, ast.Constant) and isinstance(e.value, int) and not isinstance(e.value, bool) and e.value >= 0:
            return "%d%%N" % e.value, "N"
        if isinstance(e, ast.Constant) and e.value is None:
            return "None", "none"
        if isinstance(e, ast.Name):
            if e.id not in env:
                raise Unsupported("unknown name %s" % e.id)
            return "v_%s" % e.id, env[e.id]
        if isinstance(e, ast.Attribute) and isinstance(e.value, ast.Name) and e.value.id == "self":
            if e.attr not in self.fields:
                raise Unsupported("unknown attribute self.%s" % e.attr)
            return "(%s st)" % self.fld(e.attr), self.fields[e.attr]
        if isinstance(e, ast.BinOp) and isinstance(e.op, (ast.Add, ast.Sub, ast.Mod)):
            a, ta = self.expr(e.left, env)
            b, tb = self.expr(e.right, env)
            if ta != "N" or tb != "N":
                raise Unsupported("arithmetic on %s, %s" % (ta, tb))
            op = {ast.Add: "N.add", ast.Sub: "N.sub", ast.Mod: "N.modulo"}[type(e.op)]
            return "(%s %s %s)" % (op, a, b), "N"
        if isinstance(e, ast.Call) and isinstance(e.func, ast.Name) and e.func.id == "len" and len(e.args) == 1 and not e.keywords:
            a, ta = self.expr(e.args[0], env)
            if ta != "bytes":
                raise Unsupported("len of %s" % ta)
            return "(N.of_nat (length %s))" % a, "N"
        if isinstance(e, ast.Call) and isinstance(e.func, ast.Attribute) and isinstance(e.func.value, ast.Name) \
                and e.func.value.id == "self" and e.func.attr == "__len__" and not e.args and not e.keywords:
            if "__len__" not in self.pure_len:
                raise Unsupported("__len__ is not pure here")
            return self.pure_len["__len__"], "N"
        if isinstance(e, ast.Call) and isinstance(e.func, ast.Attribute) and e.func.attr == "tell" and not e.args \
                and self.is_file(e.func.value):
            return "(pf_pos (%s st))" % self.fld("file"), "N"
        if isinstance(e, ast.Subscript) and isinstance(e.slice, ast.Slice) and e.slice.step is None \
                and e.slice.lower is not None and e.slice.upper is not None:
            a, ta = self.expr(e.value, env)
            lo, tl = self.expr(e.slice.lower, env)
            hi, th = self.expr(e.slice.upper, env)
            if ta != "bytes" or tl != "N" or th != "N":
                raise Unsupported("slice types")
            return "(py_slice %s %s %s)" % (lo, hi, a), "bytes"
        if isinstance(e, ast.BoolOp) and isinstance(e.op, ast.Or) and len(e.values) == 2 \
                and isinstance(e.values[1], ast.Constant) and e.values[1].value is None:
            a, ta = self.expr(e.values[0], env)
            if ta != "bytes":
                raise Unsupported("`or None` on %s" % ta)
            return "(py_or_none %s)" % a, "obytes"
        raise Unsupported("expression %s" % ast.dump(e)[:70])

    def is_file(self, e):
        return isinstance(e, ast.Attribute) and isinstance(e.value, ast.Name) and e.value.id == "self" and e.attr == "file" \
            and self.fields.get("file") == "pyfile"

    def test(self, e, env):
        if isinstance(e, ast.Compare) and len(e.ops) == 1 and isinstance(e.comparators[0], ast.Constant) \
                and e.comparators[0].value is None and isinstance(e.left, ast.Name) and env.get(e.left.id) == "oN":
            if isinstance(e.ops[0], ast.Is):
                return ("none", e.left.id)
            if isinstance(e.ops[0], ast.IsNot):
                return ("some", e.left.id)
        a, ta = self.expr(e, env)
        if ta == "N":
            return ("bool", "(negb (N.eqb %s 0%%N))" % a)
        raise Unsupported("test")

    # ---- statements ----
    def block(self, stmts, env, ret):
        """returns a Coq term of type state * ret, with `st` the current state"""
        if not stmts:
            if ret != "unit":
                raise Unsupported("method may fall off its end")
            return "(st, tt)"
        s, rest = stmts[0], stmts[1:]
        nxt = lambda env2=env: self.block(rest, env2, ret)                               # noqa: E731
        if isinstance(s, ast.Expr) and isinstance(s.value, ast.Constant) and isinstance(s.value.value, str):
            return nxt()
        if isinstance(s, ast.Return):
            if s.value is None:
                raise Unsupported("bare return")
            a, ta = self.expr(s.value, env)
            want = {"oN": ("oN",), "N": ("N",), "obytes": ("obytes", "none"), "bool": ("bool",)}[ret]
            if ta not in want:
                raise Unsupported("return type %s, expected %s" % (ta, ret))
            return "(st, %s)" % a
        if isinstance(s, ast.Try):
            ok = (len(s.body) == 1 and isinstance(s.body[0], ast.Return) and not s.orelse and not s.finalbody
                  and len(s.handlers) == 2
                  and isinstance(s.handlers[0].type, ast.Name) and s.handlers[0].type.id == "IndexError"
                  and len(s.handlers[0].body) == 1 and isinstance(s.handlers[0].body[0], ast.Return)
                  and isinstance(s.handlers[0].body[0].value, ast.Constant) and s.handlers[0].body[0].value.value is None
                  and s.handlers[1].type is None and len(s.handlers[1].body) == 1 and isinstance(s.handlers[1].body[0], ast.Raise)
                  and s.handlers[1].body[0].exc is None)
            v = s.body[0].value if ok else None
            if not (ok and isinstance(v, ast.BoolOp) and isinstance(v.values[0], ast.Subscript)):
                raise Unsupported("try statement shape")
            return self.block([s.body[0]], env, ret)
        if isinstance(s, ast.If):
            t = self.test(s.test, env)
            if t[0] in ("none", "some"):
                name = t[1]
                env_some = dict(env)
                env_some[name] = "N"
                some_branch = self.block(list(s.body if t[0] == "some" else s.orelse) + rest, env_some, ret)
                none_stmts = list(s.body if t[0] == "none" else s.orelse)
                # in the None branch the name may be assigned an integer before it is used
                none_branch = self.block(none_stmts + rest, dict(env, **{name: "isnone"}), ret)
                return "(match v_%s with\n | Some v_%s => %s\n | None => %s end)" % (name, name, some_branch, none_branch)
            a = self.block(list(s.body) + rest, dict(env), ret)
            b = self.block(list(s.orelse) + rest, dict(env), ret)
            return "(if %s\n then %s\n else %s)" % (t[1], a, b)
        if isinstance(s, ast.Assign) and len(s.targets) == 1:
            tg, v = s.targets[0], s.value
            # name = self.file.read(e)
            if isinstance(tg, ast.Name) and isinstance(v, ast.Call) and isinstance(v.func, ast.Attribute) and v.func.attr == "read" \
                    and self.is_file(v.func.value) and len(v.args) == 1 and not v.keywords:
                n, tn = self.expr(v.args[0], env)
                if tn != "N":
                    raise Unsupported("read size")
                body = self.block(rest, dict(env, **{tg.id: "bytes"}), ret)
                return "(let '(f1, v_%s) := pf_read %s (%s st) in\n let st := %s in\n %s)" % (
                    tg.id, n, self.fld("file"), self.setter("file", "f1"), body)
            if isinstance(tg, ast.Name):
                a, ta = self.expr(v, env)
                if ta not in ("N", "bytes"):
                    raise Unsupported("assignment of %s" % ta)
                if env.get(tg.id) not in (None, ta, "isnone"):
                    raise Unsupported("retyping %s" % tg.id)
                return "(let v_%s := %s in\n %s)" % (tg.id, a, nxt(dict(env, **{tg.id: ta})))
            if isinstance(tg, ast.Attribute) and isinstance(tg.value, ast.Name) and tg.value.id == "self" and tg.attr in self.fields:
                a, ta = self.expr(v, env)
                if ta != self.fields[tg.attr]:
                    raise Unsupported("type of self.%s" % tg.attr)
                return "(let st := %s in\n %s)" % (self.setter(tg.attr, a), nxt())
            if isinstance(tg, ast.Subscript) and isinstance(tg.slice, ast.Slice) and tg.slice.step is None \
                    and isinstance(tg.value, ast.Attribute) and isinstance(tg.value.value, ast.Name) and tg.value.value.id == "self" \
                    and self.fields.get(tg.value.attr) == "bytes" and tg.slice.lower is not None and tg.slice.upper is not None:
                lo, tl = self.expr(tg.slice.lower, env)
                hi, th = self.expr(tg.slice.upper, env)
                a, ta = self.expr(v, env)
                if (tl, th, ta) != ("N", "N", "bytes"):
                    raise Unsupported("slice assignment types")
                new = "(py_slice_assign %s %s %s (%s st))" % (lo, hi, a, self.fld(tg.value.attr))
                return "(let st := %s in\n %s)" % (self.setter(tg.value.attr, new), nxt())
            raise Unsupported("assignment shape")
        if isinstance(s, ast.Expr) and isinstance(s.value, ast.Call) and isinstance(s.value.func, ast.Attribute):
            c = s.value
            f = c.func
            if c.keywords:
                raise Unsupported("keyword arguments")
            if f.attr == "extend" and isinstance(f.value, ast.Attribute) and isinstance(f.value.value, ast.Name) \
                    and f.value.value.id == "self" and self.fields.get(f.value.attr) == "bytes" and len(c.args) == 1:
                a, ta = self.expr(c.args[0], env)
                if ta != "bytes":
                    raise Unsupported("extend with %s" % ta)
                new = "(%s st ++ %s)" % (self.fld(f.value.attr), a)
                return "(let st := %s in\n %s)" % (self.setter(f.value.attr, new), nxt())
            if self.is_file(f.value):
                cur = "(%s st)" % self.fld("file")
                if f.attr == "seek" and len(c.args) == 1:
                    a, ta = self.expr(c.args[0], env)
                    if ta != "N":
                        raise Unsupported("seek position")
                    new = "(pf_seek %s %s)" % (a, cur)
                elif f.attr == "seek" and len(c.args) == 2 and isinstance(c.args[0], ast.Constant) and c.args[0].value == 0 \
                        and isinstance(c.args[1], ast.Attribute) and isinstance(c.args[1].value, ast.Name) \
                        and c.args[1].value.id == "os" and c.args[1].attr == "SEEK_END":
                    new = "(pf_seek_end %s)" % cur
                elif f.attr == "write" and len(c.args) == 1:
                    a, ta = self.expr(c.args[0], env)
                    if ta != "bytes":
                        raise Unsupported("write of %s" % ta)
                    new = "(pf_write %s %s)" % (a, cur)
                else:
                    raise Unsupported("file method %s" % f.attr)
                return "(let st := %s in\n %s)" % (self.setter("file", new), nxt())
        raise Unsupported("statement %s in %s" % (type(s).__name__, self.short))

    def method(self, name, params, ret):
        fn = [n for n in self.node.body if isinstance(n, ast.FunctionDef) and n.name == name]
        if len(fn) != 1:
            raise Unsupported("method %s.%s" % (self.short, name))
        fn = fn[0]
        a = fn.args
        if a.vararg or a.kwarg or a.kwonlyargs or [x.arg for x in a.args] != ["self"] + [p for p, _ in params]:
            raise Unsupported("signature of %s.%s" % (self.short, name))
        ndef = len(a.defaults)
        for (p, t), d in zip(params[len(params) - ndef:], a.defaults):
            if not (t == "oN" and isinstance(d, ast.Constant) and d.value is None):
                raise Unsupported("default of %s" % p)
        if ndef != sum(1 for _, t in params if t == "oN"):
            raise Unsupported("defaults of %s.%s" % (self.short, name))
        env = dict(params)
        coqt = {"N": "N", "bytes": "bytes", "oN": "option N"}
        ps = " ".join("(v_%s : %s)" % (p, coqt[t]) for p, t in params)
        rt = {"oN": "option N", "N": "N", "obytes": "option bytes", "unit": "unit", "bool": "bool"}[ret]
        body = self.block(list(fn.body), env, ret)
        nm = name.strip("_")
        return "Definition py_%s_%s (st : %s) %s : %s * %s :=\n %s." % (self.short, nm, self.rec, ps, self.rec, rt, body)


def main(out):
    L = ["(* GENERATED by harness/gen_storage.py from %s/traph/storage/{memory,file}.py -- do not edit *)" % REPO,
         "From Coq Require Import List NArith Bool Arith.", "Import ListNotations.", "From Traph Require Import Bytes.", "", PREAMBLE]
    # ---- MemoryStorage ----
    path = os.path.join(REPO, "traph", "storage", "memory.py")
    tree = ast.parse(open(path).read(), path)
    cls = [n for n in tree.body if isinstance(n, ast.ClassDef) and n.name == "MemoryStorage"]
    if len(cls) != 1:
        raise Unsupported("class MemoryStorage")
    init = [n for n in cls[0].body if isinstance(n, ast.FunctionDef) and n.name == "__init__"][0]
    got = [ast.unparse(s) for s in init.body if not (isinstance(s, ast.Expr) and isinstance(s.value, ast.Constant))]
    if got != ["self.block_size = block_size", "self.array = bytearray()", "self.cursor = 0"]:
        raise Unsupported("MemoryStorage.__init__: %r" % got)
    m = Cls(cls[0], "pm", {"block_size": "N", "array": "bytes", "cursor": "N"})
    m.pure_len = {"__len__": "(N.of_nat (length (pm_array st)))"}
    lenfn = [n for n in cls[0].body if isinstance(n, ast.FunctionDef) and n.name == "__len__"][0]
    if [ast.unparse(s) for s in lenfn.body] != ["return len(self.array)"]:
        raise Unsupported("MemoryStorage.__len__")
    L.append("Record py_pm := mk_pm { pm_block_size : N; pm_array : bytes; pm_cursor : N }.")
    L.append("Definition py_pm_init (bs : N) : py_pm := mk_pm bs [] 0%N.")
    L.append(m.method("__len__", [], "N"))
    L.append(m.method("read", [("block", "oN")], "obytes"))
    L.append(m.method("write", [("data", "bytes"), ("block", "oN")], "N"))
    # clear() rebinds the array to a fresh bytearray
    clr = [n for n in cls[0].body if isinstance(n, ast.FunctionDef) and n.name == "clear"][0]
    if [ast.unparse(s) for s in clr.body] != ["self.array = bytearray()"]:
        raise Unsupported("MemoryStorage.clear")
    L.append("Definition py_pm_clear (st : py_pm) : py_pm * unit := (mk_pm (pm_block_size st) [] (pm_cursor st), tt).")
    L.append("")
    # ---- FileStorage ----
    path = os.path.join(REPO, "traph", "storage", "file.py")
    tree = ast.parse(open(path).read(), path)
    cls = [n for n in tree.body if isinstance(n, ast.ClassDef) and n.name == "FileStorage"]
    if len(cls) != 1:
        raise Unsupported("class FileStorage")
    init = [n for n in cls[0].body if isinstance(n, ast.FunctionDef) and n.name == "__init__"][0]
    got = [ast.unparse(s) for s in init.body if not (isinstance(s, ast.Expr) and isinstance(s.value, ast.Constant))]
    if got != ["self.block_size = block_size", "self.file = file"]:
        raise Unsupported("FileStorage.__init__: %r" % got)
    f = Cls(cls[0], "pfs", {"block_size": "N", "file": "pyfile"})
    f.pure_len = {}
    L.append("Record py_pfs := mk_pfs { pfs_block_size : N; pfs_file : pyfile }.")
    L.append(f.method("__len__", [], "N"))
    L.append(f.method("read", [("block", "oN")], "obytes"))
    L.append(f.method("write", [("data", "bytes"), ("block", "oN")], "N"))
    # check_for_corruption calls self.__len__() (which moves the position): inline it as a let on the state
    cfc = [n for n in cls[0].body if isinstance(n, ast.FunctionDef) and n.name == "check_for_corruption"][0]
    body = [ast.unparse(s) for s in cfc.body]
    if body != ["file_length = self.__len__()", "if file_length % self.block_size:\n    return True", "return False"]:
        raise Unsupported("FileStorage.check_for_corruption: %r" % body)
    L.append("Definition py_pfs_check_for_corruption (st : py_pfs) : py_pfs * bool :=\n"
             " (let '(st, v_file_length) := py_pfs_len st in\n"
             " (if (negb (N.eqb (N.modulo v_file_length (pfs_block_size st)) 0%N)) then (st, true) else (st, false))).")
    text = "\n".join(L) + "\n"
    old = open(out).read() if os.path.exists(out) else None
    if old != text:
        with open(out, "w") as fh:
            fh.write(text)
    return 0


if __name__ == "__main__":
    try:
        sys.exit(main(sys.argv[1]))
    except Unsupported as e:
        print("gen_storage: UNSUPPORTED: %s" % e)
        sys.exit(3)
