(* RefCore5.v — the model refines the specification on Rcore.
   Part 5: one request (step) and whole histories (run). *)
From Coq Require Import List NArith Bool Lia Arith.
Import ListNotations.
From Traph Require Import Bytes Consts Helpers Rules Tst TstDefs Traph Spec Ops RefDefs TstFacts
  ViewFacts ViewFacts2 RefCore RefCore2 RefCore3 RefCore4.
Open Scope N_scope.

Theorem step_Rcore : forall s a o, Rcore s a -> wf_op o ->
  Rcore (fst (step s o)) (fst (sstep s a o)) /\ snd (step s o) = snd (sstep s a o).
Proof.
  intros s a o HR Hwf. destruct o; cbn [step sstep wf_op] in *.
  - apply add_page_Rcore; assumption.
  - apply add_pages_Rcore; assumption.
  - apply add_links_Rcore; assumption.
  - destruct Hwf as [Hd _]. apply batch_crawl_Rcore; assumption.
  - destruct Hwf as [_ Hps]. apply create_webentity_Rcore; assumption.
  - destruct Hwf as [_ Hps]. apply delete_webentity_Rcore; assumption.
  - destruct Hwf as [Hp Hw]. apply add_prefix_Rcore; assumption.
  - apply remove_prefix_Rcore; assumption.
  - destruct Hwf as [Hp Hw]. apply move_prefix_Rcore; assumption.
  - apply add_rule_Rcore; assumption.
  - apply remove_rule_Rcore; assumption.
  - cbn [fst snd]. split; [apply reopen_Rcore; exact HR|reflexivity].
  - cbn [fst snd]. split; [apply clear_Rcore; assumption|reflexivity].
Qed.

Lemma run2_Rcore : forall h s a, Rcore s a -> Forall wf_op h ->
  Rcore (fst (fst (run2 h s a))) (snd (fst (run2 h s a))) /\
  Forall (fun p => fst p = snd p) (snd (run2 h s a)).
Proof.
  induction h as [|o h IH]; intros s a HR Hh.
  - cbn [run2 fst snd]. split; [exact HR|constructor].
  - inversion Hh as [|? ? Ho Hh']; subst. cbn [run2].
    pose proof (step_Rcore s a o HR Ho) as (H1 & H2).
    destruct (step s o) as [s1 r]. destruct (sstep s a o) as [a1 r']. cbn [fst snd] in H1, H2.
    specialize (IH s1 a1 H1 Hh').
    destruct (run2 h s1 a1) as [[s2 a2] rs]. cbn [fst snd] in *.
    destruct IH as (I1 & I2). split; [exact I1|]. constructor; [exact H2|exact I2].
Qed.

Theorem run_Rcore : forall d rs h, wf_rules rs -> Forall wf_op h ->
  Rcore (run d rs h) (srun d rs h) /\ Forall (fun p => fst p = snd p) (replies d rs h).
Proof.
  intros d rs h Hrs Hh. unfold run, srun, replies.
  apply run2_Rcore; [apply init_Rcore; exact Hrs|exact Hh].
Qed.

Print Assumptions step_Rcore.
Print Assumptions run_Rcore.
