(* QueryAlone2.v — the NETWORK query coroutine of Sched.v (netq_step: get_webentities_links_iter, the tree read
   LAZILY by block address with an explicit stack, cut at its yields and wherever the fuel of one turn runs out)
   advanced ALONE until it is done is the sequential request Traph.webentities_links: the SAME list, entry for
   entry and in the same order.

   Plan.  (1) [nmic]: one iteration of the loop of netq_step, with a flag telling whether it ends at a yield;
   netq_step (S f) = nmic, then stop or netq_step f (netq_step_S).  (2) [msteps n q q']: n iterations lead from
   q to q'; a coroutine from which n iterations lead to a finished state is brought to exactly that state by
   run_alone, wherever the turns cut the sequence (run_alone_ms).  (3) phase 1, by STRUCTURAL induction on a
   sibling tree t of the index (p1_tree): a stack whose top names the root of t by its block is brought to the
   stack without it, the three registers having absorbed dww w t (child on top, then left, then right = the
   order of dww).  (4) phase 2 by induction on the pointers and on the items (p2_items, p2_ptrs).  (5) the value
   reached is webentities_links; the map block -> webentity is built in reverse order, which is harmless as
   block addresses are distinct (good_nodup). *)
From Coq Require Import List NArith Bool Lia Arith.
Import ListNotations.
From Traph Require Import Bytes Consts Helpers Rules Tst TstDefs Traph Spec Ops RefDefs TstFacts
  ViewFacts LinkFacts2 LinkFacts3 RefFull Sched RuleRunFacts1 RuleRunFacts.
Open Scope N_scope.

(* ====================================================================== *)
(* 1. one iteration of the loop                                           *)
(* ====================================================================== *)

Definition nmic (q : nco) (s : traph) : nco * bool :=
  if n_phase2 q then
    match n_items q with
    | (sw, tg, wt) :: rest =>
        let q' g := mkNC (n_out q) (n_auto q) true [] [] (n_p2w q) (n_ptrs q) rest true g false in
        let tw := p2w_get tg (n_p2w q) in
        if tw =? 0 then (q' (n_graph q), false)
        else if negb (n_auto q) && (sw =? tw) then (q' (n_graph q), false)
        else (q' (gincr (sw, 0, tw) wt (n_graph q)), true)
    | [] =>
        match n_ptrs q with
        | [] => (mkNC (n_out q) (n_auto q) true [] [] (n_p2w q) [] [] true (n_graph q) true, true)
        | (sw, h) :: ptrs =>
            (mkNC (n_out q) (n_auto q) true [] [] (n_p2w q) ptrs
                  (map (fun x => (sw, fst x, snd x)) (weighted (targets_of (stubs s) h)))
                  true (n_graph q) false, false)
        end
    end
  else
    let q0 := if n_started q then q
              else mkNC (n_out q) (n_auto q) true (nz2 (root_addr (tr s)) 0) [] [] [] [] false [] false in
    match n_pend q0 ++ n_stack q0 with
    | [] => (mkNC (n_out q0) (n_auto q0) true [] [] (n_p2w q0) (n_ptrs q0) [] true (n_graph q0) false, false)
    | (a, w) :: rest =>
        match read_at a (tr s) with
        | None => (mkNC (n_out q0) (n_auto q0) true rest [] (n_p2w q0) (n_ptrs q0) [] false (n_graph q0) false, false)
        | Some x =>
            let d := rn_d x in
            let cur := if we d =? 0 then w else we d in
            let pushes := nz2 (rn_child x) cur ++ nz2 (rn_left x) w ++ nz2 (rn_right x) w in
            if page d && negb (cur =? 0) then
              let h := if n_out q0 then outh d else inh d in
              (mkNC (n_out q0) (n_auto q0) true rest pushes ((a, cur) :: n_p2w q0)
                    (n_ptrs q0 ++ (if h =? 0 then [] else [(cur, h)])) [] false
                    (gincr (cur, if crawled d then 1 else 2, 0) 1 (n_graph q0)) false, true)
            else (mkNC (n_out q0) (n_auto q0) true (pushes ++ rest) [] (n_p2w q0) (n_ptrs q0) [] false
                       (n_graph q0) false, false)
        end
    end.

Lemma netq_step_S : forall f q s,
  netq_step (S f) q s = let '(q1, y) := nmic q s in if y then q1 else netq_step f q1 s.
Proof.
  intros f q s. unfold nmic. cbn [netq_step]. cbv zeta.
  destruct (n_phase2 q).
  - destruct (n_items q) as [|[[sw tg] wt] rest].
    + destruct (n_ptrs q) as [|[sw h] ptrs]; reflexivity.
    + destruct (p2w_get tg (n_p2w q) =? 0); [reflexivity|].
      destruct (negb (n_auto q) && (sw =? p2w_get tg (n_p2w q))); reflexivity.
  - match goal with |- context [n_pend ?X ++ n_stack ?X] => destruct (n_pend X ++ n_stack X) as [|[a w] rest] end;
      [reflexivity|].
    destruct (read_at a (tr s)) as [x|]; [|reflexivity].
    match goal with |- context [if ?B then _ else _] => destruct B end; reflexivity.
Qed.

(* ====================================================================== *)
(* 2. iterations, and the turns of run_alone                              *)
(* ====================================================================== *)

Section Alone.
Variable s : traph.

(* n iterations, none of them started from a finished state; an iteration that finishes ends at a yield *)
Inductive msteps : nat -> nco -> nco -> Prop :=
| ms0 : forall q, msteps O q q
| msS : forall n q q1 y q', n_done q = false -> nmic q s = (q1, y) -> (n_done q1 = true -> y = true) ->
    msteps n q1 q' -> msteps (S n) q q'.

Definition reach (q q' : nco) : Prop := exists n, msteps n q q'.

Lemma msteps_trans : forall n q q1, msteps n q q1 -> forall m q2, msteps m q1 q2 -> msteps (n + m) q q2.
Proof.
  intros n q q1 H. induction H as [q|n q q1 y q' Hd Hm Hy H IH]; intros m q2 H2; [exact H2|].
  cbn [Nat.add]. apply (msS _ _ q1 y); auto.
Qed.

Lemma reach_refl : forall q, reach q q.
Proof. intro q. exists O. apply ms0. Qed.

Lemma reach_trans : forall q q1 q2, reach q q1 -> reach q1 q2 -> reach q q2.
Proof. intros q q1 q2 (n & H1) (m & H2). exists (n + m)%nat. apply (msteps_trans _ _ _ H1 _ _ H2). Qed.

Lemma reach_step : forall q q1 y q', n_done q = false -> nmic q s = (q1, y) -> n_done q1 = false ->
  reach q1 q' -> reach q q'.
Proof.
  intros q q1 y q' Hd Hm Hd1 (n & H). exists (S n). apply (msS _ _ q1 y); auto. congruence.
Qed.

(* one turn (any positive fuel) advances along the sequence, and not beyond its finished end *)
Lemma netq_adv : forall f n q qf, msteps n q qf -> n_done qf = true -> n_done q = false ->
  exists n', (n' < n)%nat /\ msteps n' (netq_step (S f) q s) qf.
Proof.
  induction f as [|f IH]; intros n q qf H Hdf Hd.
  - inversion H as [|n0 q0 q1 y q' Hd0 Hm Hy H1]; subst; [congruence|].
    rewrite netq_step_S, Hm. exists n0. split; [lia|]. destruct y; exact H1.
  - inversion H as [|n0 q0 q1 y q' Hd0 Hm Hy H1]; subst; [congruence|].
    rewrite netq_step_S, Hm. destruct y.
    + exists n0. split; [lia|exact H1].
    + destruct (n_done q1) eqn:Hd1; [specialize (Hy eq_refl); discriminate|].
      destruct (IH n0 q1 qf H1 Hdf Hd1) as (n' & Hlt & H'). exists n'. split; [lia|exact H'].
Qed.

Lemma run_alone_ms : forall n q qf, msteps n q qf -> n_done qf = true ->
  exists fuel, run_alone fuel (CNet q) s = (CNet qf, s).
Proof.
  induction n as [n IH] using lt_wf_ind. intros q qf H Hdf.
  destruct (n_done q) eqn:Hd.
  - inversion H; subst; [|congruence]. exists O. reflexivity.
  - destruct (netq_adv (S (S (tree_size (tr s) + length (stubs s) + length (n_items q) + length (n_ptrs q)
                               + length (n_stack q) + length (n_pend q)))) n q qf H Hdf Hd) as (n' & Hlt & H').
    destruct (IH n' Hlt _ _ H' Hdf) as (fuel & Hf).
    exists (S fuel). cbn [run_alone co_done]. rewrite Hd. unfold co_step. cbn [co_done]. rewrite Hd. exact Hf.
Qed.

(* ====================================================================== *)
(* 3. phase 2: the link lists of the pages                                *)
(* ====================================================================== *)

Variables out auto : bool.

Definition st2 (p2w ptrs : list (N * N)) (items : list (N * N * N)) (g : list (N * N * N * N)) : nco :=
  mkNC out auto true [] [] p2w ptrs items true g false.

Definition item_f (p2w : list (N * N)) (g : list (N * N * N * N)) (x : N * N * N) : list (N * N * N * N) :=
  let '(sw, tg, wt) := x in
  let tw := p2w_get tg p2w in
  if tw =? 0 then g else if negb auto && (sw =? tw) then g else gincr (sw, 0, tw) wt g.

Definition items_of (sw h : N) : list (N * N * N) :=
  map (fun x => (sw, fst x, snd x)) (weighted (targets_of (stubs s) h)).

Definition ptr_f (p2w : list (N * N)) (g : list (N * N * N * N)) (x : N * N) : list (N * N * N * N) :=
  fold_left (item_f p2w) (items_of (fst x) (snd x)) g.

Lemma p2_items : forall p2w ptrs items g,
  reach (st2 p2w ptrs items g) (st2 p2w ptrs [] (fold_left (item_f p2w) items g)).
Proof.
  intros p2w ptrs items. induction items as [|[[sw tg] wt] rest IH]; intro g; [apply reach_refl|].
  cbn [fold_left].
  assert (E : exists y, nmic (st2 p2w ptrs ((sw, tg, wt) :: rest) g) s
                        = (st2 p2w ptrs rest (item_f p2w g (sw, tg, wt)), y)).
  { unfold nmic, st2, item_f. cbn [n_phase2 n_items n_out n_auto n_p2w n_ptrs n_graph].
    destruct (p2w_get tg p2w =? 0); [eexists; reflexivity|].
    destruct (negb auto && (sw =? p2w_get tg p2w)); eexists; reflexivity. }
  destruct E as (y & E).
  eapply reach_step; [|exact E| |]; [reflexivity|reflexivity|]. apply IH.
Qed.

Definition fin2 (p2w : list (N * N)) (g : list (N * N * N * N)) : nco :=
  mkNC out auto true [] [] p2w [] [] true g true.

Lemma p2_ptrs : forall ptrs p2w g,
  reach (st2 p2w ptrs [] g) (fin2 p2w (fold_left (ptr_f p2w) ptrs g)).
Proof.
  induction ptrs as [|[sw h] ptrs IH]; intros p2w g.
  - cbn [fold_left]. exists 1%nat. apply (msS _ _ (fin2 p2w g) true); [reflexivity|reflexivity|reflexivity|apply ms0].
  - cbn [fold_left].
    apply (reach_step _ (st2 p2w ptrs (items_of sw h) g) false); [reflexivity|reflexivity|reflexivity|].
    eapply reach_trans; [apply p2_items|]. apply IH.
Qed.

(* ====================================================================== *)
(* 4. phase 1: the walk                                                   *)
(* ====================================================================== *)

Definition st1 (stk pend p2w ptrs : list (N * N)) (g : list (N * N * N * N)) : nco :=
  mkNC out auto true stk pend p2w ptrs [] false g false.

Definition pwf (l : list (nd * N)) : list (nd * N) := filter (fun x => page (fst x) && negb (snd x =? 0)) l.
Definition KK (l : list (nd * N)) : list (N * N) := map (fun x => (addr (fst x), snd x)) (pwf l).
Definition ptr_of (x : nd * N) : list (N * N) :=
  if head_dir out (fst x) =? 0 then [] else [(snd x, head_dir out (fst x))].
Definition PT (l : list (nd * N)) : list (N * N) := flat_map ptr_of (pwf l).
Definition g0f (g : list (N * N * N * N)) (x : nd * N) : list (N * N * N * N) :=
  gincr (snd x, if crawled (fst x) then 1 else 2, 0) 1 g.
Definition G0 (l : list (nd * N)) (g : list (N * N * N * N)) : list (N * N * N * N) := fold_left g0f (pwf l) g.

Lemma pwf_app : forall a b, pwf (a ++ b) = pwf a ++ pwf b.
Proof. intros. apply filter_app. Qed.
Lemma KK_app : forall a b, KK (a ++ b) = KK a ++ KK b.
Proof. intros. unfold KK. rewrite pwf_app. apply map_app. Qed.
Lemma PT_app : forall a b, PT (a ++ b) = PT a ++ PT b.
Proof. intros. unfold PT. rewrite pwf_app. apply flat_map_app. Qed.
Lemma G0_app : forall a b g, G0 (a ++ b) g = G0 b (G0 a g).
Proof. intros. unfold G0. rewrite pwf_app. apply fold_left_app. Qed.

(* a sibling tree of the index, or nothing *)
Definition sub (t : tst) : Prop := t = Lf \/ exists pp, occ [] (tr s) pp t.

Lemma sub_kids : forall d l c r, sub (Nd d l c r) -> sub c /\ sub l /\ sub r.
Proof.
  intros d l c r [H|(pp & H)]; [discriminate|].
  split; [|split].
  - destruct c as [|dc lc cc rc]; [left; reflexivity|right]. eexists.
    apply (occ_trans _ _ _ _ H). apply occ_c. apply occ_here.
  - destruct l as [|dl ll cl rl]; [left; reflexivity|right]. eexists.
    apply (occ_trans _ _ _ _ H). apply occ_l. apply occ_here.
  - destruct r as [|dr lr cr rr]; [left; reflexivity|right]. eexists.
    apply (occ_trans _ _ _ _ H). apply occ_r. apply occ_here.
Qed.

Hypothesis Hgood : good s.

Lemma p1_tree : forall t, sub t -> forall w rest stk pend p2w ptrs g,
  pend ++ stk = nz2 (root_addr t) w ++ rest ->
  exists stk' pend', pend' ++ stk' = rest /\
    reach (st1 stk pend p2w ptrs g)
          (st1 stk' pend' (rev (KK (dww w t)) ++ p2w) (ptrs ++ PT (dww w t)) (G0 (dww w t) g)).
Proof.
  induction t as [|d l IHl c IHc r IHr]; intros Hsub w rest stk pend p2w ptrs g Hst.
  - exists stk, pend. split; [exact Hst|]. cbn [dww]. unfold KK, PT, G0. cbn. rewrite app_nil_r. apply reach_refl.
  - destruct (sub_kids _ _ _ _ Hsub) as (Sc & Sl & Sr).
    destruct Hsub as [Hsub|(pp & Hocc)]; [discriminate|].
    pose proof (good_nodup s Hgood) as Hnd.
    pose proof (occ_addr _ _ _ _ Hocc) as Hin. cbn [root_addr] in Hin, Hst.
    pose proof (good_nz s _ Hgood Hin) as Hnz.
    assert (Enz : nz2 (addr d) w = [(addr d, w)]).
    { unfold nz2. destruct (addr d =? 0) eqn:E; [apply N.eqb_eq in E; contradiction|reflexivity]. }
    rewrite Enz in Hst. cbn [app] in Hst.
    assert (Hrd : read_at (addr d) (tr s) = Some (mkRN d (root_addr l) (root_addr r) (root_addr c))).
    { rewrite (read_at_sub (tr s) [] (addr d)).
      pose proof (occ_sub_at _ _ _ _ Hocc Hnd) as E. cbn [root_addr] in E. rewrite E. reflexivity. }
    set (cur := if we d =? 0 then w else we d).
    set (pushes := nz2 (root_addr c) cur ++ nz2 (root_addr l) w ++ nz2 (root_addr r) w).
    assert (E1 : exists stk1 pend1 y, pend1 ++ stk1 = pushes ++ rest /\
               nmic (st1 stk pend p2w ptrs g) s =
               (st1 stk1 pend1 (rev (KK [(d, cur)]) ++ p2w) (ptrs ++ PT [(d, cur)]) (G0 [(d, cur)] g), y)).
    { unfold nmic, st1. cbn [n_phase2 n_started n_pend n_stack n_out n_auto n_p2w n_ptrs n_graph].
      rewrite Hst, Hrd. cbn [rn_d rn_left rn_right rn_child]. fold cur. fold pushes.
      unfold KK, PT, G0, pwf, ptr_of, g0f, head_dir. cbn [filter fst snd].
      destruct (page d && negb (cur =? 0)).
      - exists rest, pushes, true. split; [reflexivity|].
        cbn [map flat_map fold_left rev app fst snd]. rewrite app_nil_r. reflexivity.
      - exists (pushes ++ rest), [], false. split; [reflexivity|].
        cbn [map flat_map fold_left rev app]. rewrite app_nil_r. reflexivity. }
    destruct E1 as (stk1 & pend1 & y & Hst1 & Em).
    unfold pushes in Hst1. rewrite <- !app_assoc in Hst1.
    set (P1 := rev (KK [(d, cur)]) ++ p2w) in *. set (A1 := ptrs ++ PT [(d, cur)]) in *. set (G1 := G0 [(d, cur)] g) in *.
    destruct (IHc Sc cur _ stk1 pend1 P1 A1 G1 Hst1) as (stk2 & pend2 & Hst2 & R2).
    set (P2 := rev (KK (dww cur c)) ++ P1) in *. set (A2 := A1 ++ PT (dww cur c)) in *. set (G2 := G0 (dww cur c) G1) in *.
    destruct (IHl Sl w _ stk2 pend2 P2 A2 G2 Hst2) as (stk3 & pend3 & Hst3 & R3).
    set (P3 := rev (KK (dww w l)) ++ P2) in *. set (A3 := A2 ++ PT (dww w l)) in *. set (G3 := G0 (dww w l) G2) in *.
    destruct (IHr Sr w _ stk3 pend3 P3 A3 G3 Hst3) as (stk4 & pend4 & Hst4 & R4).
    unfold P3, P2, P1, A3, A2, A1, G3, G2, G1 in *.
    exists stk4, pend4. split; [exact Hst4|].
    eapply reach_step; [|exact Em| |]; [reflexivity|reflexivity|].
    eapply reach_trans; [exact R2|]. eapply reach_trans; [exact R3|].
    replace (rev (KK (dww w (Nd d l c r))) ++ p2w)
      with (rev (KK (dww w r)) ++ rev (KK (dww w l)) ++ rev (KK (dww cur c)) ++ rev (KK [(d, cur)]) ++ p2w).
    2:{ cbn [dww]. fold cur. change ((d, cur) :: dww cur c ++ dww w l ++ dww w r)
          with ([(d, cur)] ++ dww cur c ++ dww w l ++ dww w r).
        rewrite !KK_app, !rev_app_distr, <- !app_assoc. reflexivity. }
    replace (ptrs ++ PT (dww w (Nd d l c r)))
      with ((((ptrs ++ PT [(d, cur)]) ++ PT (dww cur c)) ++ PT (dww w l)) ++ PT (dww w r)).
    2:{ cbn [dww]. fold cur. change ((d, cur) :: dww cur c ++ dww w l ++ dww w r)
          with ([(d, cur)] ++ dww cur c ++ dww w l ++ dww w r).
        rewrite !PT_app, <- !app_assoc. reflexivity. }
    replace (G0 (dww w (Nd d l c r)) g)
      with (G0 (dww w r) (G0 (dww w l) (G0 (dww cur c) (G0 [(d, cur)] g)))).
    2:{ cbn [dww]. fold cur. change ((d, cur) :: dww cur c ++ dww w l ++ dww w r)
          with ([(d, cur)] ++ dww cur c ++ dww w l ++ dww w r).
        rewrite !G0_app. reflexivity. }
    exact R4.
Qed.

(* ====================================================================== *)
(* 5. the value reached is the sequential answer                          *)
(* ====================================================================== *)

Lemma fold_left_ext : forall (A B : Type) (f f' : A -> B -> A) (l : list B) (a : A),
  (forall a x, f a x = f' a x) -> fold_left f l a = fold_left f' l a.
Proof.
  intros A B f f' l. induction l as [|x l IH]; intros a H; [reflexivity|].
  cbn [fold_left]. rewrite (H a x). apply IH. exact H.
Qed.

Lemma fold_left_flat_map : forall (A B C : Type) (f : A -> B -> A) (F : C -> list B) (l : list C) (a : A),
  fold_left f (flat_map F l) a = fold_left (fun a x => fold_left f (F x) a) l a.
Proof.
  intros A B C f F l. induction l as [|x l IH]; intro a; [reflexivity|].
  cbn [flat_map fold_left]. rewrite fold_left_app. apply IH.
Qed.

Lemma fold_left_map : forall (A B C : Type) (f : A -> B -> A) (h : C -> B) (l : list C) (a : A),
  fold_left f (map h l) a = fold_left (fun a x => f a (h x)) l a.
Proof.
  intros A B C f h l. induction l as [|x l IH]; intro a; [reflexivity|]. cbn [map fold_left]. apply IH.
Qed.

(* looking a key up in a list with distinct keys *)
Lemma find_key_in : forall (m : list (N * N)) a w, NoDup (map fst m) -> In (a, w) m ->
  List.find (fun x => fst x =? a) m = Some (a, w).
Proof.
  induction m as [|[k v] m IH]; intros a w Hnd Hin; [destruct Hin|].
  cbn [map fst] in Hnd. inversion Hnd as [|? ? Hn Hnd']; subst.
  cbn [List.find fst]. destruct (k =? a) eqn:E.
  - apply N.eqb_eq in E. subst k. destruct Hin as [Hin|Hin]; [congruence|].
    exfalso. apply Hn. apply (in_map fst) in Hin. exact Hin.
  - destruct Hin as [Hin|Hin]; [injection Hin as -> _; rewrite N.eqb_refl in E; discriminate|].
    apply IH; assumption.
Qed.

Lemma p2w_get_rev : forall (m : list (N * N)) a, NoDup (map fst m) -> p2w_get a (rev m) = p2w_get a m.
Proof.
  intros m a Hnd. unfold p2w_get.
  assert (Hnd' : NoDup (map fst (rev m))) by (rewrite map_rev; apply NoDup_rev; exact Hnd).
  destruct (List.find (fun x => fst x =? a) m) as [[k w]|] eqn:E.
  - apply find_some in E. destruct E as (Hin & Hk). cbn [fst] in Hk. apply N.eqb_eq in Hk. subst k.
    rewrite (find_key_in (rev m) a w Hnd'); [reflexivity|]. apply -> in_rev. exact Hin.
  - destruct (List.find (fun x => fst x =? a) (rev m)) as [[k w]|] eqn:E'; [|reflexivity].
    apply find_some in E'. destruct E' as (Hin & Hk). cbn [fst] in Hk. apply N.eqb_eq in Hk. subst k.
    apply in_rev in Hin. rewrite (find_key_in m a w Hnd Hin) in E. discriminate.
Qed.

Lemma p2w_get_map : forall (pw : list (nd * N)) a,
  p2w_get a (map (fun x => (addr (fst x), snd x)) pw) =
  match List.find (fun x => addr (fst x) =? a) pw with Some (_, w) => w | None => 0 end.
Proof.
  intros pw a. unfold p2w_get. induction pw as [|[d w] pw IH]; [reflexivity|].
  cbn [map List.find fst snd]. destruct (addr d =? a); [reflexivity|exact IH].
Qed.

Lemma dww_addrs : forall t w, map (fun x => addr (fst x)) (dww w t) = addrs t.
Proof.
  induction t as [|d l IHl c IHc r IHr]; intro w; [reflexivity|].
  cbn [dww addrs map fst]. rewrite !map_app, IHc, IHl, IHr. reflexivity.
Qed.

Lemma NoDup_map_filter : forall (A B : Type) (f : A -> B) (p : A -> bool) (l : list A),
  NoDup (map f l) -> NoDup (map f (filter p l)).
Proof.
  intros A B f p l. induction l as [|x l IH]; intro H; [constructor|].
  cbn [map] in H. inversion H as [|? ? Hn Hd]; subst. cbn [filter].
  destruct (p x); [|apply IH; exact Hd].
  cbn [map]. constructor; [|apply IH; exact Hd].
  intro Hin. apply Hn. apply in_map_iff in Hin. destruct Hin as (y & E & Hy).
  apply filter_In in Hy. rewrite <- E. apply in_map. tauto.
Qed.

Definition DW : list (nd * N) := dww 0 (tr s).

Lemma value_eq :
  fold_left (ptr_f (rev (KK DW) ++ [])) (PT DW) (G0 DW []) = webentities_links out auto s.
Proof.
  unfold webentities_links. cbv zeta. fold DW. fold (pwf DW).
  assert (Hk : NoDup (map fst (KK DW))).
  { unfold KK. rewrite map_map. cbn [fst].
    apply (NoDup_map_filter _ _ (fun x : nd * N => addr (fst x))). unfold DW. rewrite dww_addrs.
    apply good_nodup. exact Hgood. }
  assert (Hp : forall a, p2w_get a (rev (KK DW) ++ []) =
                         match List.find (fun x => addr (fst x) =? a) (pwf DW) with Some (_, w) => w | None => 0 end).
  { intro a. rewrite app_nil_r, (p2w_get_rev _ a Hk). apply p2w_get_map. }
  unfold PT, G0. rewrite fold_left_flat_map.
  rewrite (fold_left_ext _ _ g0f (fun g '(d, w) => gincr (w, if crawled d then 1 else 2, 0) 1 g))
    by (intros g [d w]; reflexivity).
  apply fold_left_ext. intros g [d w]. unfold ptr_of. cbn [fst snd].
  destruct (head_dir out d =? 0); [reflexivity|].
  cbn [fold_left]. unfold ptr_f, items_of. cbn [fst snd]. rewrite fold_left_map.
  apply fold_left_ext. intros g' [tg wt]. unfold item_f. cbn [fst snd]. rewrite Hp. reflexivity.
Qed.

(* the first iteration installs the root on the stack *)
Lemma nmic_start :
  nmic (netq_start out auto) s = nmic (st1 (nz2 (root_addr (tr s)) 0) [] [] [] []) s.
Proof. reflexivity. Qed.

Lemma sub_root : sub (tr s).
Proof. unfold sub. destruct (tr s) as [|d l c r]; [left; reflexivity|right]. exists []. apply occ_here. Qed.

Theorem network_query_alone_state0 :
  exists fuel q, run_alone fuel (CNet (netq_start out auto)) s = (CNet q, s) /\ n_done q = true /\
    n_graph q = webentities_links out auto s.
Proof.
  destruct (p1_tree (tr s) sub_root 0 [] (nz2 (root_addr (tr s)) 0) [] [] [] [] (eq_sym (app_nil_r _)))
    as (stk' & pend' & Hst & R1).
  apply app_eq_nil in Hst. destruct Hst as (-> & ->). fold DW in R1. cbn [app] in R1.
  set (P := rev (KK DW) ++ []) in *.
  assert (R2 : reach (st1 [] [] P (PT DW) (G0 DW [])) (st2 P (PT DW) [] (G0 DW []))).
  { eapply reach_step; [| | |apply reach_refl]; [reflexivity|reflexivity|reflexivity]. }
  pose proof (reach_trans _ _ _ R1 (reach_trans _ _ _ R2 (p2_ptrs (PT DW) P (G0 DW [])))) as (n & Hn).
  set (qf := fin2 P (fold_left (ptr_f P) (PT DW) (G0 DW []))) in *.
  assert (Hn' : msteps n (netq_start out auto) qf).
  { inversion Hn as [q0 E0 E1|n0 q0 q1 y q' Hd Hm Hy H1]; subst.
    apply (msS _ _ q1 y); [reflexivity|rewrite nmic_start; exact Hm|exact Hy|exact H1]. }
  destruct (run_alone_ms n _ qf Hn' eq_refl) as (fuel & Hf).
  exists fuel, qf. split; [exact Hf|]. split; [reflexivity|].
  unfold qf, fin2. cbn [n_graph]. apply value_eq.
Qed.

End Alone.

(* ====================================================================== *)
(* main theorems                                                          *)
(* ====================================================================== *)

(* state-level: any index whose tree is well formed with distinct, in-range block addresses *)
Theorem network_query_alone_state : forall s, good s -> forall out auto,
  exists fuel q, run_alone fuel (CNet (netq_start out auto)) s = (CNet q, s) /\ n_done q = true /\
    n_graph q = webentities_links out auto s.
Proof. intros s Hg out auto. apply network_query_alone_state0. exact Hg. Qed.

(* the coroutine run alone from any reachable state is the sequential request: the same list *)
Theorem network_query_alone : forall d rs h, wf_rules rs -> Forall wf_op h ->
  let s := run d rs h in
  forall out auto,
  exists fuel q, run_alone fuel (CNet (netq_start out auto)) s = (CNet q, s) /\ n_done q = true /\
    n_graph q = webentities_links out auto s.
Proof.
  intros d rs h H1 H2 s out auto. apply network_query_alone_state. apply run_good; assumption.
Qed.

(* non-vacuity: on the example state (two webentities and a created one, four pages, links between them) the
   coroutine finishes within 40 turns and its list is the sequential one, for the four settings of the switches *)
From Traph Require PropsEx.
Example network_query_alone_ex :
  forallb (fun '(out, auto) =>
             match run_alone 40 (CNet (netq_start out auto)) PropsEx.exs with
             | (CNet q, _) => n_done q && Nat.eqb (length (n_graph q)) 7
                              && forallb (fun '((a, b, c, v), (a', b', c', v')) => (a =? a') && (b =? b') && (c =? c') && (v =? v'))
                                         (combine (n_graph q) (webentities_links out auto PropsEx.exs))
                              && Nat.eqb (length (webentities_links out auto PropsEx.exs)) 7
             | _ => false
             end) [(true, false); (false, true); (true, true); (false, false)] = true.
Proof. vm_compute. reflexivity. Qed.

Print Assumptions network_query_alone_state.
Print Assumptions network_query_alone.
