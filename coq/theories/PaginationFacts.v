(* PaginationFacts.v — the token chain of paginate_webentity_pages:
   the answers of successive calls, each fed the token of the previous one,
   are consecutive chunks of the in-order walk over the prefixes (C09). *)
From Coq Require Import List NArith Bool Lia Arith Sorted Permutation.
Import ListNotations.
From Traph Require Import Bytes Consts Helpers Rules Tst TstDefs Traph InorderFacts TokenFacts.
Open Scope N_scope.

(* ------------------------------------------------------------------------- *)
(* generic list facts                                                         *)
(* ------------------------------------------------------------------------- *)

Lemma app_split_mid : forall (A : Type) (l1 l2 a b : list A) (x : A),
  l1 ++ l2 = a ++ x :: b ->
  (exists b', l1 = a ++ x :: b' /\ b = b' ++ l2) \/
  (exists a', a = l1 ++ a' /\ l2 = a' ++ x :: b).
Proof.
  intros A l1. induction l1 as [|y l1 IH]; intros l2 a b x E.
  - right. exists a. split; [reflexivity|exact E].
  - destruct a as [|z a]; cbn [app] in E.
    + injection E as E1 E2. subst y. left. exists l1. split; [reflexivity|symmetry; exact E2].
    + injection E as E1 E2. subst z. destruct (IH _ _ _ _ E2) as [[b' [H1 H2]]|[a' [H1 H2]]].
      * left. exists b'. split; [cbn [app]; rewrite H1; reflexivity|exact H2].
      * right. exists a'. split; [cbn [app]; rewrite H1; reflexivity|exact H2].
Qed.

Lemma map_filter_split : forall (A B : Type) (f : A -> bool) (g : A -> B) l a x b,
  map g (filter f l) = a ++ x :: b ->
  exists l1 y l2, l = l1 ++ y :: l2 /\ f y = true /\ g y = x /\
                  map g (filter f l1) = a /\ map g (filter f l2) = b.
Proof.
  intros A B f g l. induction l as [|z l IH]; intros a x b E.
  - destruct a; discriminate.
  - cbn [filter] in E. destruct (f z) eqn:Fz.
    + cbn [map] in E. destruct a as [|a0 a]; cbn [app] in E.
      * injection E as E1 E2. exists [], z, l. repeat split; auto.
      * injection E as E1 E2. destruct (IH _ _ _ E2) as [l1 [y [l2 [H1 [H2 [H3 [H4 H5]]]]]]].
        exists (z :: l1), y, l2. repeat split; auto.
        -- cbn [app]. rewrite H1. reflexivity.
        -- cbn [filter]. rewrite Fz. cbn [map]. rewrite H4, E1. reflexivity.
    + destruct (IH _ _ _ E) as [l1 [y [l2 [H1 [H2 [H3 [H4 H5]]]]]]].
      exists (z :: l1), y, l2. repeat split; auto.
      * cbn [app]. rewrite H1. reflexivity.
      * cbn [filter]. rewrite Fz. exact H4.
Qed.

Lemma firstn_skipn_last : forall (A : Type) (m : nat) (l : list A),
  (m < length l)%nat -> exists l1 x, firstn (S m) l = l1 ++ [x].
Proof.
  intros A m. induction m as [|m IH]; intros l H.
  - destruct l as [|y l]; [simpl in H; lia|]. exists [], y. reflexivity.
  - destruct l as [|y l]; [simpl in H; lia|]. simpl in H.
    destruct (IH l ltac:(lia)) as [l1 [x E]]. exists (y :: l1), x.
    change (firstn (S (S m)) (y :: l)) with (y :: firstn (S m) l). rewrite E. reflexivity.
Qed.

(* ------------------------------------------------------------------------- *)
(* definitions                                                                *)
(* ------------------------------------------------------------------------- *)

Definition pfilt (co : bool) (x : bytes * nd * N) : bool :=
  page (snd (fst x)) && (negb co || crawled (snd (fst x))).
Definition pmk (i : N) (x : bytes * nd * N) : pitem :=
  PI i (fst (fst x)) (crawled (snd (fst x))) (snd x).

(* qualifying page items of prefix number i *)
Definition seg (co : bool) (i : N) (p : bytes) (t : tst) : list pitem :=
  match find_sub (lru_iter p) t with
  | Some sub => map (fun x => PI i (fst (fst x)) (crawled (snd (fst x))) (snd x))
                    (filter (fun x => page (snd (fst x)) && (negb co || crawled (snd (fst x))))
                            (ino_at (lru_dirname p) sub))
  | None => []
  end.

(* the segments of prefixes i, i+1, ... one after the other *)
Fixpoint segs (co : bool) (i : N) (ps : list bytes) (t : tst) : list pitem :=
  match ps with
  | [] => []
  | p :: ps' => seg co i p t ++ segs co (i + 1) ps' t
  end.

(* what an answer shows of an item *)
Definition pout (it : pitem) : bytes * bool :=
  match it with PI _ lru cr _ => (lru, cr) | PErr _ => ([], false) end.

Definition full_pages (co : bool) (ps : list bytes) (t : tst) : list (bytes * bool) :=
  map pout (segs co 0 ps t).

(* the token chain: call, feed the token back, until done *)
Fixpoint chainp (fuel : nat) (ps : list bytes) (k : N) (co : bool) (tok : option bytes) (s : traph)
  : option (list page_result) :=
  match fuel with
  | O => None
  | S f =>
      match paginate_pages ps (Some k) tok co s with
      | ROk r => if pr_done r then Some [r]
                 else match pr_token r with
                      | Some tk => option_map (cons r) (chainp f ps k co (Some tk) s)
                      | None => None
                      end
      | _ => None
      end
  end.

Definition all_found (ps : list bytes) (t : tst) : Prop :=
  forall p, In p ps -> find_sub (lru_iter p) t <> None.

Definition is_PI (it : pitem) : Prop := match it with PI _ _ _ _ => True | PErr _ => False end.

Lemma seg_eq : forall co i p t,
  seg co i p t = match find_sub (lru_iter p) t with
                 | Some sub => map (pmk i) (filter (pfilt co) (ino_at (lru_dirname p) sub))
                 | None => []
                 end.
Proof. reflexivity. Qed.

Lemma seg_is_PI : forall co i p t, Forall is_PI (seg co i p t).
Proof.
  intros co i p t. rewrite seg_eq. destruct (find_sub (lru_iter p) t); [|constructor].
  apply Forall_forall. intros x Hx. apply in_map_iff in Hx. destruct Hx as [y [E _]]. subst x. exact I.
Qed.

Lemma segs_is_PI : forall co ps i t, Forall is_PI (segs co i ps t).
Proof.
  intros co ps. induction ps as [|p ps IH]; intros i t; cbn [segs]; [constructor|].
  apply Forall_app. split; [apply seg_is_PI|apply IH].
Qed.

(* ------------------------------------------------------------------------- *)
(* T1 - the item list of a first call                                         *)
(* ------------------------------------------------------------------------- *)

Lemma page_items_cons_none : forall co i p ps t sub,
  find_sub (lru_iter p) t = Some sub ->
  page_items co i (p :: ps) None t
  = map (pmk i) (filter (pfilt co) (ino_at (lru_dirname p) sub)) ++ page_items co (i + 1) ps None t.
Proof.
  intros co i p ps t sub Hf. cbn [page_items]. unfold inorder_items, path_fails. rewrite Hf. reflexivity.
Qed.

Lemma page_items_segs : forall co ps i t, all_found ps t ->
  page_items co i ps None t = segs co i ps t.
Proof.
  intros co ps. induction ps as [|p ps IH]; intros i t Hall; [reflexivity|].
  destruct (find_sub (lru_iter p) t) as [sub|] eqn:Hf;
    [|exfalso; apply (Hall p (or_introl eq_refl)); exact Hf].
  rewrite (page_items_cons_none _ _ _ _ _ _ Hf). cbn [segs]. rewrite seg_eq, Hf.
  rewrite IH; [reflexivity|]. intros q Hq. apply Hall. right. exact Hq.
Qed.

Theorem page_items_full : forall co ps s, all_found ps (tr s) ->
  page_items co 0 ps None (tr s) = segs co 0 ps (tr s).
Proof. intros co ps s H. apply page_items_segs. exact H. Qed.

(* ------------------------------------------------------------------------- *)
(* one call: what pag_scan returns on an error-free item list                 *)
(* ------------------------------------------------------------------------- *)

(* (prefix index, path) of the last item of a list, [d] if there is none *)
Fixpoint lastik (d : option (N * N)) (its : list pitem) : option (N * N) :=
  match its with
  | [] => d
  | PI i _ _ path :: its' => lastik (Some (i, path)) its'
  | PErr _ :: its' => lastik d its'
  end.

Lemma lastik_app_last : forall its d i lru cr path,
  lastik d (its ++ [PI i lru cr path]) = Some (i, path).
Proof.
  induction its as [|x its IH]; intros d i lru cr path; [reflexivity|].
  cbn [app lastik]. destruct x; apply IH.
Qed.

Definition ncr (l : list (bytes * bool)) : N := N.of_nat (length (filter (fun x => snd x) l)).

Lemma ncr_cons : forall (lru : bytes) (cr : bool) l c,
  (if cr then c + 1 else c) + ncr l = c + ncr ((lru, cr) :: l).
Proof.
  intros lru cr l c. unfold ncr. cbn [filter snd]. destruct cr; cbn [length]; lia.
Qed.

(* [m] = how many more items the answer may take *)
Lemma pag_scan_spec : forall k its, Forall is_PI its -> forall m n c acc last,
  n + N.of_nat m = k ->
  pag_scan (Some k) its n c acc last =
    if (length its <=? m)%nat
    then ROk (mkPR true (n + N.of_nat (length its)) (c + ncr (map pout its)) (acc ++ map pout its) None)
    else let its1 := firstn m its in
         match lastik last its1 with
         | Some (li, lp) =>
             ROk (mkPR false (n + N.of_nat (length its1)) (c + ncr (map pout its1))
                       (acc ++ map pout its1) (Some (build_token li lp)))
         | None => RCrash
         end.
Proof.
  intros k its Hall. induction Hall as [|x its Hx Hall IH]; intros m n c acc last Hk.
  - cbn [pag_scan length Nat.leb map]. unfold ncr. cbn [filter length].
    rewrite !N.add_0_r, app_nil_r. reflexivity.
  - destruct x as [i lru cr path|cr]; [|contradiction]. cbn [pag_scan].
    destruct m as [|m].
    + replace (k <=? n) with true by (symmetry; apply N.leb_le; lia).
      cbn [length Nat.leb firstn lastik map]. unfold ncr. cbn [filter length].
      rewrite !N.add_0_r, app_nil_r. reflexivity.
    + replace (k <=? n) with false by (symmetry; apply N.leb_gt; lia).
      rewrite (IH m) by lia.
      change (length (PI i lru cr path :: its) <=? S m)%nat with (length its <=? m)%nat.
      cbn [firstn length map pout lastik].
      rewrite !(ncr_cons lru). rewrite <- !app_assoc. cbn [app].
      replace (n + 1 + N.of_nat (length its)) with (n + N.of_nat (S (length its))) by lia.
      replace (n + 1 + N.of_nat (length (firstn m its)))
        with (n + N.of_nat (S (length (firstn m its)))) by lia.
      reflexivity.
Qed.

(* the form used below: a fresh call, k >= 1 *)
Lemma pag_scan_call : forall k its, Forall is_PI its -> 1 <= k ->
  let m := N.to_nat k in
  (length its <= m)%nat /\
    pag_scan (Some k) its 0 0 [] None
    = ROk (mkPR true (N.of_nat (length its)) (ncr (map pout its)) (map pout its) None)
  \/
  (m < length its)%nat /\ exists its1 i lru cr path,
    firstn m its = its1 ++ [PI i lru cr path] /\
    pag_scan (Some k) its 0 0 [] None
    = ROk (mkPR false k (ncr (map pout (firstn m its))) (map pout (firstn m its))
                (Some (build_token i path))).
Proof.
  intros k its Hall Hk m.
  rewrite (pag_scan_spec k its Hall m 0 0 [] None) by (unfold m; lia).
  destruct (Nat.leb_spec (length its) m) as [Hle|Hgt].
  - left. split; [exact Hle|]. rewrite !N.add_0_l. reflexivity.
  - right. split; [exact Hgt|].
    assert (Hm : exists m', m = S m') by (exists (pred m); unfold m in *; lia).
    destruct Hm as [m' Em].
    destruct (firstn_skipn_last _ m' its ltac:(lia)) as [its1 [x E]]. rewrite <- Em in E.
    assert (Hx : is_PI x).
    { rewrite Forall_forall in Hall. apply Hall.
      rewrite <- (firstn_skipn m its). apply in_or_app. left.
      rewrite E. apply in_or_app. right. left. reflexivity. }
    destruct x as [i lru cr path|cr]; [|contradiction].
    exists its1, i, lru, cr, path. split; [exact E|].
    cbv zeta. rewrite E at 1. rewrite lastik_app_last. rewrite !N.add_0_l. cbn [app].
    rewrite firstn_length_le by lia. unfold m. rewrite N2Nat.id. reflexivity.
Qed.

(* ------------------------------------------------------------------------- *)
(* resuming: the token of an item makes the next call see what follows it     *)
(* ------------------------------------------------------------------------- *)

(* inside one prefix, for any filter and any rendering of the items *)
Lemma seg_resume : forall (X : Type) (f : item -> bool) (g : item -> X) pre sub a x b,
  wf_tst sub -> map g (filter f (ino_at pre sub)) = a ++ x :: b ->
  exists lru d path, g (lru, d, path) = x /\ f (lru, d, path) = true /\
    In (lru, d, path) (ino_at pre sub) /\
    follow_path (path_digits path) pre sub = Some lru /\
    map g (filter f (ino_from_at (path_digits path) lru pre sub)) = b.
Proof.
  intros X f g pre sub a x b Hwf E.
  destruct (map_filter_split _ _ _ _ _ _ _ _ E) as [l1 [[[lru d] path] [l2 [H1 [H2 [H3 [H4 H5]]]]]]].
  exists lru, d, path.
  assert (Hin : In (lru, d, path) (ino_at pre sub))
    by (rewrite H1; apply in_or_app; right; left; reflexivity).
  split; [exact H3|]. split; [exact H2|]. split; [exact Hin|]. split.
  - apply (ino_at_path_follow _ _ _ _ _ Hin).
  - rewrite (ino_from_suffix_split sub pre lru d path l1 l2 Hwf H1). exact H5.
Qed.

Lemma page_items_cons_some : forall co i p ps t sub path lru,
  find_sub (lru_iter p) t = Some sub ->
  follow_path (path_digits path) (lru_dirname p) sub = Some lru ->
  page_items co i (p :: ps) (Some path) t
  = map (pmk i) (filter (pfilt co) (ino_from_at (path_digits path) lru (lru_dirname p) sub))
      ++ page_items co (i + 1) ps None t.
Proof.
  intros co i p ps t sub path lru Hf Hfo. cbn [page_items]. unfold inorder_items, path_fails.
  rewrite Hf. change (if path =? 0 then [] else int_to_base4 path) with (path_digits path).
  rewrite Hfo. reflexivity.
Qed.

Lemma seg_index : forall co j p t x, In x (seg co j p t) ->
  exists lru cr path, x = PI j lru cr path.
Proof.
  intros co j p t x Hx. rewrite seg_eq in Hx. destruct (find_sub (lru_iter p) t); [|contradiction].
  apply in_map_iff in Hx. destruct Hx as [y [E _]]. subst x. unfold pmk. eauto.
Qed.

Lemma segs_resume : forall co ps j t a i lru cr path b,
  wf_tst t -> all_found ps t ->
  segs co j ps t = a ++ PI i lru cr path :: b ->
  exists m : nat, i = j + N.of_nat m /\ page_items co i (skipn m ps) (Some path) t = b.
Proof.
  intros co ps. induction ps as [|p ps IH]; intros j t a i lru cr path b Hwf Hall E.
  - destruct a; discriminate.
  - cbn [segs] in E. apply app_split_mid in E. destruct E as [[b' [E1 E2]]|[a' [E1 E2]]].
    + exists O. rewrite seg_eq in E1.
      destruct (find_sub (lru_iter p) t) as [sub|] eqn:Hf; [|destruct a; discriminate].
      assert (Hwsub : wf_tst sub) by (eapply find_sub_wf; eauto).
      destruct (seg_resume _ _ _ _ _ _ _ _ Hwsub E1) as [lru0 [d [path0 [Hg [_ [_ [Hfo Hb]]]]]]].
      unfold pmk in Hg. cbn [fst snd] in Hg. injection Hg as Ei El Ec Ep. subst i lru0 path0.
      split; [lia|]. cbn [skipn].
      rewrite (page_items_cons_some _ _ _ _ _ _ _ _ Hf Hfo), E2.
      f_equal; [exact Hb|].
      apply page_items_segs. intros q Hq. apply Hall. right. exact Hq.
    + destruct (IH (j + 1) t a' i lru cr path b Hwf) as [m [Hi Hp]];
        [intros q Hq; apply Hall; right; exact Hq|exact E2|].
      exists (S m). split; [lia|]. exact Hp.
Qed.

(* ------------------------------------------------------------------------- *)
(* T2 - the chain                                                             *)
(* ------------------------------------------------------------------------- *)

(* the items a call looks at *)
Definition seen (ps : list bytes) (co : bool) (tok : option bytes) (t : tst) : list pitem :=
  match tok with
  | None => page_items co 0 ps None t
  | Some tk =>
      match parse_token tk with
      | None => [PErr true]
      | Some (i, path) => page_items co i (skipn (N.to_nat i) ps) (Some path) t
      end
  end.

Lemma paginate_pages_seen : forall ps k tok co s,
  paginate_pages ps k tok co s = pag_scan k (seen ps co tok (tr s)) 0 0 [] None.
Proof.
  intros ps k [tk|] co s; unfold paginate_pages, seen; [|reflexivity].
  destruct (parse_token tk) as [[i path]|]; reflexivity.
Qed.

Definition pr0 : page_result := mkPR true 0 0 [] None.

Definition answer_ok (r : page_result) : Prop :=
  pr_count r = N.of_nat (length (pr_pages r)) /\
  pr_count_crawled r = N.of_nat (length (filter (fun x => snd x) (pr_pages r))).

Lemma chainp_S : forall f ps k co tok s,
  chainp (S f) ps k co tok s =
  match paginate_pages ps (Some k) tok co s with
  | ROk r => if pr_done r then Some [r]
             else match pr_token r with
                  | Some tk => option_map (cons r) (chainp f ps k co (Some tk) s)
                  | None => None
                  end
  | _ => None
  end.
Proof. reflexivity. Qed.

(* any call that sees a suffix [b] of the full item list starts a chain that
   delivers exactly [b] *)
Lemma chain_from_suffix : forall co ps k s, wf_tst (tr s) -> all_found ps (tr s) -> 1 <= k ->
  forall n b a tok, (length b <= n)%nat ->
  segs co 0 ps (tr s) = a ++ b -> seen ps co tok (tr s) = b ->
  exists rs, chainp (S n) ps k co tok s = Some rs /\ rs <> [] /\
    concat (map pr_pages rs) = map pout b /\
    (forall r, In r (removelast rs) -> pr_done r = false /\ length (pr_pages r) = N.to_nat k) /\
    pr_done (last rs pr0) = true /\
    (forall r, In r rs -> answer_ok r).
Proof.
  intros co ps k s Hwf Hall Hk. induction n as [|n IH]; intros b a tok Hlen Hsplit Hseen.
  - destruct b; [|simpl in Hlen; lia].
    rewrite chainp_S, paginate_pages_seen, Hseen. cbn [pag_scan pr_done].
    eexists. split; [reflexivity|]. split; [discriminate|]. split; [reflexivity|].
    split; [intros r []|]. split; [reflexivity|].
    intros r [E|[]]. subst r. split; reflexivity.
  - assert (Hb : Forall is_PI b).
    { assert (H := segs_is_PI co ps 0 (tr s)). rewrite Hsplit in H.
      apply Forall_app in H. apply H. }
    rewrite chainp_S, paginate_pages_seen, Hseen.
    destruct (pag_scan_call k b Hb Hk) as [[Hle Hcall]|[Hgt [b1 [i [lru [cr [path [Hfirst Hcall]]]]]]]];
      rewrite Hcall; cbn [pr_done pr_token].
    + eexists. split; [reflexivity|]. split; [discriminate|].
      split; [cbn [map concat pr_pages]; apply app_nil_r|].
      split; [intros r []|]. split; [reflexivity|].
      intros r [E|[]]. subst r. split; cbn [pr_count pr_pages pr_count_crawled]; [|reflexivity].
      rewrite map_length. reflexivity.
    + set (m := N.to_nat k) in *.
      assert (Hb12 : b = (b1 ++ [PI i lru cr path]) ++ skipn m b)
        by (rewrite <- Hfirst; symmetry; apply firstn_skipn).
      assert (Hsplit' : segs co 0 ps (tr s) = (a ++ b1) ++ PI i lru cr path :: skipn m b).
      { rewrite Hsplit. rewrite Hb12 at 1. rewrite <- !app_assoc. reflexivity. }
      destruct (segs_resume _ _ _ _ _ _ _ _ _ _ Hwf Hall Hsplit') as [mi [Hi Hnext]].
      rewrite N.add_0_l in Hi.
      assert (Hseen' : seen ps co (Some (build_token i path)) (tr s) = skipn m b).
      { unfold seen. rewrite token_roundtrip. subst i. rewrite Nat2N.id. exact Hnext. }
      assert (Hsplit'' : segs co 0 ps (tr s) = (a ++ b1 ++ [PI i lru cr path]) ++ skipn m b).
      { rewrite Hsplit'. rewrite <- !app_assoc. reflexivity. }
      assert (Hlen' : (length (skipn m b) <= n)%nat).
      { rewrite skipn_length. unfold m in *. lia. }
      destruct (IH _ _ _ Hlen' Hsplit'' Hseen') as [rs [Hch [Hne [Hcat [Hmid [Hlast Hok]]]]]].
      rewrite Hch. cbn [option_map]. eexists. split; [reflexivity|]. split; [discriminate|].
      split.
      { cbn [map concat pr_pages]. rewrite Hcat, <- map_app, firstn_skipn. reflexivity. }
      split.
      { intros r Hr. destruct rs as [|r1 rs]; [contradiction Hne; reflexivity|].
        change (removelast (?x :: r1 :: rs)) with (x :: removelast (r1 :: rs)) in Hr.
        destruct Hr as [Hr|Hr]; [|apply Hmid; exact Hr].
        subst r. cbn [pr_done pr_pages]. split; [reflexivity|].
        rewrite map_length, firstn_length_le by lia. reflexivity. }
      split.
      { destruct rs as [|r1 rs]; [contradiction Hne; reflexivity|]. exact Hlast. }
      intros r [Hr|Hr]; [|apply Hok; exact Hr].
      subst r. split; cbn [pr_count pr_pages pr_count_crawled]; [|reflexivity].
      rewrite map_length, firstn_length_le by lia. unfold m. rewrite N2Nat.id. reflexivity.
Qed.

Theorem C09_chunks : forall co ps k s,
  wf_tst (tr s) -> (forall p, In p ps -> find_sub (lru_iter p) (tr s) <> None) -> 1 <= k ->
  exists fuel rs, chainp fuel ps k co None s = Some rs /\
    concat (map pr_pages rs) = full_pages co ps (tr s) /\
    (forall r, In r (removelast rs) -> pr_done r = false /\ length (pr_pages r) = N.to_nat k) /\
    pr_done (last rs pr0) = true /\
    (forall r, In r rs ->
       pr_count r = N.of_nat (length (pr_pages r)) /\
       pr_count_crawled r = N.of_nat (length (filter (fun x => snd x) (pr_pages r)))).
Proof.
  intros co ps k s Hwf Hall Hk.
  destruct (chain_from_suffix co ps k s Hwf Hall Hk (length (segs co 0 ps (tr s)))
              (segs co 0 ps (tr s)) [] None (le_n _) eq_refl)
    as [rs [Hch [_ [Hcat [Hmid [Hlast Hok]]]]]].
  { unfold seen. apply page_items_segs. exact Hall. }
  exists (S (length (segs co 0 ps (tr s)))), rs. split; [exact Hch|].
  split; [exact Hcat|]. split; [exact Hmid|]. split; [exact Hlast|exact Hok].
Qed.

(* ------------------------------------------------------------------------- *)
(* T3 - the order of the full answer                                          *)
(* ------------------------------------------------------------------------- *)

Lemma SSorted_filter : forall (A : Type) (R : A -> A -> Prop) (f : A -> bool) l,
  StronglySorted R l -> StronglySorted R (filter f l).
Proof.
  intros A R f l H. induction H as [|x l Hs IH Hf]; cbn [filter]; [constructor|].
  destruct (f x); [|exact IH]. constructor; [exact IH|].
  rewrite Forall_forall in *. intros y Hy. apply filter_In in Hy. apply Hf. apply Hy.
Qed.

Lemma SSorted_map : forall (A B : Type) (R : B -> B -> Prop) (g : A -> B) l,
  StronglySorted (fun x y => R (g x) (g y)) l -> StronglySorted R (map g l).
Proof.
  intros A B R g l H. induction H as [|x l Hs IH Hf]; cbn [map]; [constructor|].
  constructor; [exact IH|]. rewrite Forall_forall in *. intros y Hy.
  apply in_map_iff in Hy. destruct Hy as [z [E Hz]]. subst y. apply Hf. exact Hz.
Qed.

(* the (lru, crawled) pairs of the qualifying pages below one prefix *)
Definition seg_pages (co : bool) (p : bytes) (t : tst) : list (bytes * bool) :=
  map pout (seg co 0 p t).

Lemma seg_pout : forall co i p t, map pout (seg co i p t) = seg_pages co p t.
Proof.
  intros co i p t. unfold seg_pages. rewrite !seg_eq. destruct (find_sub (lru_iter p) t); [|reflexivity].
  rewrite !map_map. reflexivity.
Qed.

Theorem full_pages_by_prefix : forall co ps t,
  full_pages co ps t = flat_map (fun p => seg_pages co p t) ps.
Proof.
  intros co ps t. unfold full_pages. generalize 0. induction ps as [|p ps IH]; intros i; [reflexivity|].
  cbn [segs flat_map]. rewrite map_app, seg_pout, IH. reflexivity.
Qed.

Theorem C09_sorted : forall co i p t, wf_tst t ->
  StronglySorted (fun x y => lex (fst (pout x)) (fst (pout y)) = Lt) (seg co i p t).
Proof.
  intros co i p t Hwf. rewrite seg_eq. destruct (find_sub (lru_iter p) t) as [sub|] eqn:Hf; [|constructor].
  apply SSorted_map. apply SSorted_filter.
  apply (ino_at_sorted sub (lru_dirname p)). eapply find_sub_wf; eauto.
Qed.

Corollary C09_sorted_pages : forall co p t, wf_tst t ->
  StronglySorted (fun x y => lex (fst x) (fst y) = Lt) (seg_pages co p t).
Proof.
  intros co p t Hwf. unfold seg_pages. apply SSorted_map. apply C09_sorted. exact Hwf.
Qed.

(* ------------------------------------------------------------------------- *)
(* T4 - same pages as the unpaginated queries                                 *)
(* ------------------------------------------------------------------------- *)

Definition inode (x : bytes * nd * N) : bytes * nd := (fst (fst x), snd (fst x)).

Lemma ino_wdfs_perm_sib : forall t path lvl pre,
  Permutation (map inode (ino path pre t)) (wdfs None lvl pre t).
Proof.
  induction t as [|d l IHl c IHc r IHr]; intros path lvl pre; cbn [ino wdfs map]; [constructor|].
  rewrite !map_app. rewrite Permutation_app_swap_app.
  apply Permutation_app; [|apply Permutation_app; [apply IHl|apply IHr]].
  destruct (we d =? 0); [|constructor]. cbn [map depth_ok]. unfold inode at 1. cbn [fst snd].
  constructor. apply IHc.
Qed.

Theorem ino_wdfs_perm : forall pre sub,
  Permutation (map (fun x => (fst (fst x), snd (fst x))) (ino_at pre sub)) (wdfs_at None pre sub).
Proof.
  intros pre [|d l c r]; cbn [ino_at wdfs_at map depth_ok]; [constructor|].
  cbn [fst snd]. constructor. apply (ino_wdfs_perm_sib c 2 1 (pre ++ stem d)).
Qed.

Lemma Permutation_filter : forall (A : Type) (f : A -> bool) l l',
  Permutation l l' -> Permutation (filter f l) (filter f l').
Proof.
  intros A f l l' H. induction H as [|x l l' H IH|x y l|l l' l'' H1 IH1 H2 IH2]; cbn [filter].
  - constructor.
  - destruct (f x); [constructor|]; exact IH.
  - destruct (f x), (f y); try apply Permutation_refl. constructor.
  - eapply Permutation_trans; eauto.
Qed.

Lemma filter_map_comm : forall (A B : Type) (f : B -> bool) (g : A -> B) l,
  filter f (map g l) = map g (filter (fun x => f (g x)) l).
Proof.
  intros A B f g l. induction l as [|x l IH]; cbn [map filter]; [reflexivity|].
  destruct (f (g x)); cbn [map]; rewrite IH; reflexivity.
Qed.

(* over_prefixes when every prefix is found *)
Definition opl {A} (f : bytes -> tst -> list A) (ps : list bytes) (t : tst) : list A :=
  flat_map (fun p => match find_sub (lru_iter p) t with Some sub => f p sub | None => [] end) ps.

Lemma over_prefixes_found : forall A (f : bytes -> tst -> list A) ps t, all_found ps t ->
  over_prefixes f ps t = ROk (opl f ps t).
Proof.
  intros A f ps t. induction ps as [|p ps IH]; intros Hall; [reflexivity|].
  cbn [over_prefixes opl flat_map].
  destruct (find_sub (lru_iter p) t) as [sub|] eqn:Hf;
    [|exfalso; apply (Hall p (or_introl eq_refl)); exact Hf].
  rewrite IH by (intros q Hq; apply Hall; right; exact Hq). reflexivity.
Qed.

(* the page nodes of one prefix in walk order, and the same through the dfs *)
Definition ino_pages_of (p : bytes) (sub : tst) : list (bytes * nd) :=
  map inode (filter (fun x => page (snd (fst x))) (ino_at (lru_dirname p) sub)).
Definition dfs_pages_of (p : bytes) (sub : tst) : list (bytes * nd) :=
  filter (fun x => page (snd x)) (wdfs_at None (lru_dirname p) sub).

Lemma ino_dfs_pages_perm : forall p sub, Permutation (ino_pages_of p sub) (dfs_pages_of p sub).
Proof.
  intros p sub. unfold ino_pages_of, dfs_pages_of.
  rewrite <- (filter_map_comm _ _ (fun y : bytes * nd => page (snd y)) inode).
  apply Permutation_filter. apply ino_wdfs_perm.
Qed.

(* page nodes of all prefixes in walk order *)
Definition ino_pages (ps : list bytes) (t : tst) : list (bytes * nd) := opl ino_pages_of ps t.

Lemma ino_pages_perm : forall ps t,
  Permutation (ino_pages ps t) (opl dfs_pages_of ps t).
Proof.
  intros ps t. unfold ino_pages, opl. induction ps as [|p ps IH]; cbn [flat_map]; [constructor|].
  apply Permutation_app; [|exact IH].
  destruct (find_sub (lru_iter p) t); [apply ino_dfs_pages_perm|constructor].
Qed.

Lemma we_page_nodes_found : forall ps s, all_found ps (tr s) ->
  we_page_nodes None ps s = ROk (opl dfs_pages_of ps (tr s)).
Proof. intros ps s H. unfold we_page_nodes. apply over_prefixes_found. exact H. Qed.

Lemma seg_pages_false : forall p t,
  seg_pages false p t
  = map (fun x => (fst x, crawled (snd x)))
        (match find_sub (lru_iter p) t with Some sub => ino_pages_of p sub | None => [] end).
Proof.
  intros p t. unfold seg_pages. rewrite seg_eq. destruct (find_sub (lru_iter p) t) as [sub|]; [|reflexivity].
  unfold ino_pages_of. rewrite !map_map. unfold pmk, pout, inode. cbn [fst snd].
  f_equal. apply filter_ext. intros x. unfold pfilt. cbn [negb orb]. apply andb_true_r.
Qed.

Lemma seg_pages_true : forall p t,
  seg_pages true p t
  = map (fun x => (fst x, true))
        (filter (fun x => crawled (snd x))
           (match find_sub (lru_iter p) t with Some sub => ino_pages_of p sub | None => [] end)).
Proof.
  intros p t. unfold seg_pages. rewrite seg_eq. destruct (find_sub (lru_iter p) t) as [sub|]; [|reflexivity].
  unfold ino_pages_of. generalize (ino_at (lru_dirname p) sub). intros l.
  induction l as [|x l IH]; [reflexivity|].
  cbn [filter]. unfold pfilt at 1. cbn [negb orb].
  destruct (page (snd (fst x))) eqn:Ep; cbn [andb]; [|exact IH].
  cbn [map filter]. unfold inode at 1. cbn [fst snd].
  destruct (crawled (snd (fst x))) eqn:Ec; [|exact IH].
  cbn [map]. rewrite IH. unfold pmk at 1, pout at 1. cbn [fst snd]. rewrite Ec. reflexivity.
Qed.

Lemma flat_map_map : forall (A B C : Type) (f : A -> list B) (g : B -> C) l,
  map g (flat_map f l) = flat_map (fun x => map g (f x)) l.
Proof.
  intros A B C f g l. induction l as [|x l IH]; cbn [flat_map map]; [reflexivity|].
  rewrite map_app, IH. reflexivity.
Qed.

Lemma flat_map_filter : forall (A B : Type) (f : A -> list B) (g : B -> bool) l,
  filter g (flat_map f l) = flat_map (fun x => filter g (f x)) l.
Proof.
  intros A B f g l. induction l as [|x l IH]; cbn [flat_map filter]; [reflexivity|].
  rewrite filter_app, IH. reflexivity.
Qed.

Lemma full_pages_false : forall ps t,
  full_pages false ps t = map (fun x => (fst x, crawled (snd x))) (ino_pages ps t).
Proof.
  intros ps t. rewrite full_pages_by_prefix. unfold ino_pages, opl. rewrite flat_map_map.
  apply flat_map_ext. intros p. apply seg_pages_false.
Qed.

Lemma full_pages_true : forall ps t,
  full_pages true ps t
  = map (fun x => (fst x, true)) (filter (fun x => crawled (snd x)) (ino_pages ps t)).
Proof.
  intros ps t. rewrite full_pages_by_prefix. unfold ino_pages, opl.
  rewrite flat_map_filter, flat_map_map.
  apply flat_map_ext. intros p. apply seg_pages_true.
Qed.

Theorem C09_same_pages : forall ps s, all_found ps (tr s) ->
  match webentity_pages ps s with
  | ROk l => Permutation (full_pages false ps (tr s)) l
  | _ => False
  end.
Proof.
  intros ps s Hall. unfold webentity_pages. rewrite (we_page_nodes_found ps s Hall).
  rewrite full_pages_false. apply Permutation_map. apply ino_pages_perm.
Qed.

Theorem C09_same_crawled_pages : forall ps s, all_found ps (tr s) ->
  match webentity_crawled_pages ps s with
  | ROk l => Permutation (full_pages true ps (tr s)) l
  | _ => False
  end.
Proof.
  intros ps s Hall. unfold webentity_crawled_pages. rewrite (we_page_nodes_found ps s Hall).
  rewrite full_pages_true. apply Permutation_map. apply Permutation_filter. apply ino_pages_perm.
Qed.

(* ------------------------------------------------------------------------- *)
(* tokens handed out by a call name an item the call has seen                 *)
(* ------------------------------------------------------------------------- *)

Lemma pag_scan_token : forall k its n c acc last r tk,
  pag_scan k its n c acc last = ROk r -> pr_token r = Some tk ->
  exists li lp, tk = build_token li lp /\
    (last = Some (li, lp) \/ exists lru cr, In (PI li lru cr lp) its).
Proof.
  intros k its. induction its as [|x its IH]; intros n c acc last r tk H Ht.
  - cbn [pag_scan] in H. injection H as E. subst r. discriminate.
  - destruct x as [i lru cr path|crash]; cbn [pag_scan] in H; [|destruct crash; discriminate].
    destruct (match k with Some k0 => k0 <=? n | None => false end).
    + destruct last as [[li lp]|]; [|discriminate]. injection H as E. subst r.
      cbn [pr_token] in Ht. injection Ht as E. exists li, lp. split; [symmetry; exact E|left; reflexivity].
    + destruct (IH _ _ _ _ _ _ H Ht) as [li [lp [E [Hl|[lru' [cr' Hin]]]]]]; exists li, lp; (split; [exact E|]).
      * injection Hl as E1 E2. subst li lp. right. exists lru, cr. left. reflexivity.
      * right. exists lru', cr'. right. exact Hin.
Qed.

Theorem call_token_item : forall ps k tok co s r tk,
  paginate_pages ps k tok co s = ROk r -> pr_token r = Some tk ->
  exists i lru cr path, tk = build_token i path /\ In (PI i lru cr path) (seen ps co tok (tr s)).
Proof.
  intros ps k tok co s r tk H Ht. rewrite paginate_pages_seen in H.
  destruct (pag_scan_token _ _ _ _ _ _ _ _ H Ht) as [li [lp [E [Hl|[lru [cr Hin]]]]]]; [discriminate|].
  exists li, lru, cr, lp. split; assumption.
Qed.

(* an item of the full list is a page node of the walk below its prefix *)
Lemma segs_item : forall co ps j t i lru cr path,
  In (PI i lru cr path) (segs co j ps t) ->
  exists (m : nat) p sub d, i = j + N.of_nat m /\ nth_error ps m = Some p /\
    find_sub (lru_iter p) t = Some sub /\ In (lru, d, path) (ino_at (lru_dirname p) sub) /\
    page d = true /\ cr = crawled d /\ (co = true -> cr = true).
Proof.
  intros co ps. induction ps as [|p ps IH]; intros j t i lru cr path Hin; [contradiction|].
  cbn [segs] in Hin. apply in_app_or in Hin. destruct Hin as [Hin|Hin].
  - rewrite seg_eq in Hin. destruct (find_sub (lru_iter p) t) as [sub|] eqn:Hf; [|contradiction].
    apply in_map_iff in Hin. destruct Hin as [[[lru0 d] path0] [E Hy]].
    unfold pmk in E. cbn [fst snd] in E. injection E as E1 E2 E3 E4. subst i lru0 cr path0.
    apply filter_In in Hy. destruct Hy as [Hy Hq]. unfold pfilt in Hq. cbn [fst snd] in Hq.
    apply andb_true_iff in Hq. destruct Hq as [Hp Hc].
    exists O, p, sub, d. split; [lia|]. split; [reflexivity|]. split; [exact Hf|].
    split; [exact Hy|]. split; [exact Hp|]. split; [reflexivity|].
    intros Eco. subst co. exact Hc.
  - destruct (IH _ _ _ _ _ _ Hin) as [m [q [sub [d [H1 [H2 H3]]]]]].
    exists (S m), q, sub, d. split; [lia|]. split; [exact H2|exact H3].
Qed.

(* ------------------------------------------------------------------------- *)
(* T5 - resuming after the tree has grown                                     *)
(* ------------------------------------------------------------------------- *)

Lemma skipn_nth : forall (A : Type) (n : nat) (l : list A) x,
  nth_error l n = Some x -> skipn n l = x :: skipn (S n) l.
Proof.
  intros A n. induction n as [|n IH]; intros [|y l] x H; try discriminate.
  - injection H as E. subst y. reflexivity.
  - cbn [nth_error] in H. change (skipn (S n) (y :: l)) with (skipn n l).
    change (skipn (S (S n)) (y :: l)) with (skipn (S n) l). apply IH. exact H.
Qed.

(* the qualifying items of prefix i in tree t' whose LRU is above [lru] *)
Definition seg_after (co : bool) (i : N) (p : bytes) (lru : bytes) (sub' : tst) : list pitem :=
  map (pmk i) (filter (pfilt co)
                 (filter (fun y => bgt (fst (fst y)) lru) (ino_at (lru_dirname p) sub'))).

(* a token (i, path) obtained on s for the item [lru] of prefix i, used on s' *)
Theorem C09_stable : forall co ps i p s s' sub sub' lru d path,
  nth_error ps (N.to_nat i) = Some p ->
  find_sub (lru_iter p) (tr s) = Some sub ->
  In (lru, d, path) (ino_at (lru_dirname p) sub) ->
  find_sub (lru_iter p) (tr s') = Some sub' -> extw sub sub' -> wf_tst (tr s') ->
  page_items co i (skipn (N.to_nat i) ps) (Some path) (tr s')
  = seg_after co i p lru sub'
      ++ page_items co (i + 1) (skipn (S (N.to_nat i)) ps) None (tr s').
Proof.
  intros co ps i p s s' sub sub' lru d path Hnth Hf Hin Hf' He Hwf'.
  assert (Hwsub' : wf_tst sub') by (eapply find_sub_wf; eauto).
  destruct (ino_from_suffix_extw sub sub' (lru_dirname p) lru d path He Hwsub' Hin)
    as [_ [Hfo Hfrom]].
  rewrite (skipn_nth _ _ _ _ Hnth).
  rewrite (page_items_cons_some _ _ _ _ _ _ _ _ Hf' Hfo), Hfrom. reflexivity.
Qed.

(* the same when the whole tree has only grown / had flags and link heads rewritten *)
Corollary C09_stable_tree : forall co ps i p s s' sub lru d path,
  nth_error ps (N.to_nat i) = Some p ->
  find_sub (lru_iter p) (tr s) = Some sub ->
  In (lru, d, path) (ino_at (lru_dirname p) sub) ->
  extw (tr s) (tr s') -> wf_tst (tr s') ->
  exists sub', find_sub (lru_iter p) (tr s') = Some sub' /\ extw sub sub' /\
    page_items co i (skipn (N.to_nat i) ps) (Some path) (tr s')
    = seg_after co i p lru sub'
        ++ page_items co (i + 1) (skipn (S (N.to_nat i)) ps) None (tr s').
Proof.
  intros co ps i p s s' sub lru d path Hnth Hf Hin He Hwf'.
  destruct (extw_find_sub _ _ _ _ He Hf) as [sub' [Hf' He']].
  exists sub'. split; [exact Hf'|]. split; [exact He'|].
  apply (C09_stable co ps i p s s' sub sub' lru d path); assumption.
Qed.

(* nothing is repeated: what prefix i still yields lies strictly above the item *)
Theorem C09_stable_no_repeat : forall co i p lru sub' y,
  In y (seg_after co i p lru sub') ->
  exists lru' cr path', y = PI i lru' cr path' /\ lex lru' lru = Gt.
Proof.
  intros co i p lru sub' y Hy. unfold seg_after in Hy.
  apply in_map_iff in Hy. destruct Hy as [[[lru' d'] path'] [E Hy]]. subst y.
  apply filter_In in Hy. destruct Hy as [Hy _]. apply filter_In in Hy. destruct Hy as [_ Hg].
  exists lru', (crawled d'), path'. split; [reflexivity|].
  unfold bgt in Hg. cbn [fst snd] in Hg. destruct (lex lru' lru); try discriminate. reflexivity.
Qed.

(* nothing is skipped: every qualifying page of s' above the item is still to come *)
Theorem C09_stable_no_skip : forall co i p lru sub' lru' d' path',
  In (lru', d', path') (ino_at (lru_dirname p) sub') ->
  page d' = true -> (co = true -> crawled d' = true) -> lex lru' lru = Gt ->
  In (PI i lru' (crawled d') path') (seg_after co i p lru sub').
Proof.
  intros co i p lru sub' lru' d' path' Hin Hp Hc Hg. unfold seg_after.
  apply in_map_iff. exists (lru', d', path'). split; [reflexivity|].
  apply filter_In. split.
  - apply filter_In. split; [exact Hin|]. unfold bgt. cbn [fst snd]. rewrite Hg. reflexivity.
  - unfold pfilt. cbn [fst snd]. rewrite Hp. destruct co; [|reflexivity].
    rewrite (Hc eq_refl). reflexivity.
Qed.

(* and in ascending order *)
Theorem C09_stable_sorted : forall co i p lru sub', wf_tst sub' ->
  StronglySorted (fun x y => lex (fst (pout x)) (fst (pout y)) = Lt) (seg_after co i p lru sub').
Proof.
  intros co i p lru sub' Hwf. unfold seg_after.
  apply SSorted_map. apply SSorted_filter. apply SSorted_filter.
  apply (ino_at_sorted sub' (lru_dirname p) Hwf).
Qed.

(* the chain resumed on s' delivers exactly that remainder, then the later prefixes *)
Lemma segs_skipn : forall co (m : nat) ps j t,
  exists a, segs co j ps t = a ++ segs co (j + N.of_nat m) (skipn m ps) t.
Proof.
  intros co m. induction m as [|m IH]; intros ps j t.
  - exists []. cbn [skipn app]. rewrite N.add_0_r. reflexivity.
  - destruct ps as [|p ps].
    + exists []. reflexivity.
    + destruct (IH ps (j + 1) t) as [a E]. exists (seg co j p t ++ a).
      cbn [segs skipn]. rewrite E, <- app_assoc.
      replace (j + 1 + N.of_nat m) with (j + N.of_nat (S m)) by lia. reflexivity.
Qed.

Lemma all_found_skipn : forall (m : nat) ps t, all_found ps t -> all_found (skipn m ps) t.
Proof.
  intros m ps t H q Hq. apply H. rewrite <- (firstn_skipn m ps). apply in_or_app. right. exact Hq.
Qed.

Theorem C09_stable_chain : forall co ps k i p s s' sub sub' lru d path,
  nth_error ps (N.to_nat i) = Some p ->
  find_sub (lru_iter p) (tr s) = Some sub ->
  In (lru, d, path) (ino_at (lru_dirname p) sub) ->
  find_sub (lru_iter p) (tr s') = Some sub' -> extw sub sub' ->
  wf_tst (tr s') -> all_found ps (tr s') -> 1 <= k ->
  exists fuel rs, chainp fuel ps k co (Some (build_token i path)) s' = Some rs /\
    concat (map pr_pages rs)
      = map pout (seg_after co i p lru sub')
          ++ map pout (segs co (i + 1) (skipn (S (N.to_nat i)) ps) (tr s')) /\
    (forall r, In r (removelast rs) -> pr_done r = false /\ length (pr_pages r) = N.to_nat k) /\
    pr_done (last rs pr0) = true /\
    (forall r, In r rs -> answer_ok r).
Proof.
  intros co ps k i p s s' sub sub' lru d path Hnth Hf Hin Hf' He Hwf' Hall' Hk.
  assert (Hwsub' : wf_tst sub') by (eapply find_sub_wf; eauto).
  set (b := seg_after co i p lru sub' ++ segs co (i + 1) (skipn (S (N.to_nat i)) ps) (tr s')).
  assert (Hseen : seen ps co (Some (build_token i path)) (tr s') = b).
  { unfold seen. rewrite token_roundtrip.
    rewrite (C09_stable co ps i p s s' sub sub' lru d path Hnth Hf Hin Hf' He Hwf').
    unfold b. f_equal. apply page_items_segs. apply all_found_skipn. exact Hall'. }
  assert (Hsuffix : exists a, segs co 0 ps (tr s') = a ++ b).
  { destruct (segs_skipn co (N.to_nat i) ps 0 (tr s')) as [a0 E0].
    rewrite N.add_0_l, N2Nat.id, (skipn_nth _ _ _ _ Hnth) in E0. cbn [segs] in E0.
    destruct (ino_from_suffix_extw sub sub' (lru_dirname p) lru d path He Hwsub' Hin)
      as [[d' [Hin' _]] _].
    destruct (in_split _ _ Hin') as [l1 [l2 El]].
    assert (Hs := ino_at_sorted sub' (lru_dirname p) Hwsub'). rewrite El in Hs.
    assert (Hfl : filter (fun y : bytes * nd * N => bgt (fst (fst y)) lru)
                         (l1 ++ (lru, d', path) :: l2) = l2)
      by exact (filter_sorted_suffix l1 l2 (lru, d', path) Hs).
    exists (a0 ++ map (pmk i) (filter (pfilt co) (l1 ++ [(lru, d', path)]))).
    rewrite E0. rewrite seg_eq, Hf', El. unfold b, seg_after. rewrite El.
    rewrite Hfl.
    replace (l1 ++ (lru, d', path) :: l2) with ((l1 ++ [(lru, d', path)]) ++ l2)
      by (rewrite <- app_assoc; reflexivity).
    rewrite filter_app, map_app, <- !app_assoc. reflexivity. }
  destruct Hsuffix as [a Ha].
  destruct (chain_from_suffix co ps k s' Hwf' Hall' Hk (length b) b a
              (Some (build_token i path)) (le_n _) Ha Hseen)
    as [rs [Hch [_ [Hcat [Hmid [Hlast Hok]]]]]].
  exists (S (length b)), rs. split; [exact Hch|].
  split; [rewrite Hcat; unfold b; apply map_app|]. split; [exact Hmid|]. split; [exact Hlast|exact Hok].
Qed.

Print Assumptions page_items_full.
Print Assumptions C09_chunks.
Print Assumptions C09_sorted.
Print Assumptions full_pages_by_prefix.
Print Assumptions ino_wdfs_perm.
Print Assumptions C09_same_pages.
Print Assumptions C09_same_crawled_pages.
Print Assumptions call_token_item.
Print Assumptions C09_stable.
Print Assumptions C09_stable_tree.
Print Assumptions C09_stable_no_repeat.
Print Assumptions C09_stable_no_skip.
Print Assumptions C09_stable_chain.
