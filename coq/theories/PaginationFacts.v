(* PaginationFacts.v — the token chain of paginate_webentity_pages:
   the answers of successive calls, each fed the token of the previous one,
   are consecutive chunks of the in-order walk over the prefixes (C09). *)
From Coq Require Import List NArith Bool Lia Arith Sorted Permutation.
Import ListNotations.
From Traph Require Import Bytes Consts Helpers Rules Tst TstDefs Traph InorderFacts TokenFacts.
Open Scope N_scope.

(* ------------------------------------------------------------------------- *)
(* generic list facts                                                         *)
(* ------------------------------------------------------------------------- *)

Lemma app_split_mid : forall (A : Type) (l1 l2 a b : list A) (x : A),
  l1 ++ l2 = a ++ x :: b ->
  (exists b', l1 = a ++ x :: b' /\ b = b' ++ l2) \/
  (exists a', a = l1 ++ a' /\ l2 = a' ++ x :: b).
Proof.
  intros A l1. induction l1 as [|y l1 IH]; intros l2 a b x E.
  - right. exists a. split; [reflexivity|exact E].
  - destruct a as [|z a]; cbn [app] in E.
    + injection E as E1 E2. subst y. left. exists l1. split; [reflexivity|symmetry; exact E2].
    + injection E as E1 E2. subst z. destruct (IH _ _ _ _ E2) as [[b' [H1 H2]]|[a' [H1 H2]]].
      * left. exists b'. split; [cbn [app]; rewrite H1; reflexivity|exact H2].
      * right. exists a'. split; [cbn [app]; rewrite H1; reflexivity|exact H2].
Qed.

Lemma map_filter_split : forall (A B : Type) (f : A -> bool) (g : A -> B) l a x b,
  map g (filter f l) = a ++ x :: b ->
  exists l1 y l2, l = l1 ++ y :: l2 /\ f y = true /\ g y = x /\
                  map g (filter f l1) = a /\ map g (filter f l2) = b.
Proof.
  intros A B f g l. induction l as [|z l IH]; intros a x b E.
  - destruct a; discriminate.
  - cbn [filter] in E. destruct (f z) eqn:Fz.
    + cbn [map] in E. destruct a as [|a0 a]; cbn [app] in E.
      * injection E as E1 E2. exists [], z, l. repeat split; auto.
      * injection E as E1 E2. destruct (IH _ _ _ E2) as [l1 [y [l2 [H1 [H2 [H3 [H4 H5]]]]]]].
        exists (z :: l1), y, l2. repeat split; auto.
        -- cbn [app]. rewrite H1. reflexivity.
        -- cbn [filter]. rewrite Fz. cbn [map]. rewrite H4, E1. reflexivity.
    + destruct (IH _ _ _ E) as [l1 [y [l2 [H1 [H2 [H3 [H4 H5]]]]]]].
      exists (z :: l1), y, l2. repeat split; auto.
      * cbn [app]. rewrite H1. reflexivity.
      * cbn [filter]. rewrite Fz. exact H4.
Qed.

Lemma firstn_skipn_last : forall (A : Type) (m : nat) (l : list A),
  (m < length l)%nat -> exists l1 x, firstn (S m) l = l1 ++ [x].
Proof.
  intros A m. induction m as [|m IH]; intros l H.
  - destruct l as [|y l]; [simpl in H; lia|]. exists [], y. reflexivity.
  - destruct l as [|y l]; [simpl in H; lia|]. simpl in H.
    destruct (IH l ltac:(lia)) as [l1 [x E]]. exists (y :: l1), x.
    change (firstn (S (S m)) (y :: l)) with (y :: firstn (S m) l). rewrite E. reflexivity.
Qed.

(* ------------------------------------------------------------------------- *)
(* definitions                                                                *)
(* ------------------------------------------------------------------------- *)

Definition pfilt (co : bool) (x : bytes * nd * N) : bool :=
  page (snd (fst x)) && (negb co || crawled (snd (fst x))).
Definition pmk (i : N) (x : bytes * nd * N) : pitem :=
  PI i (fst (fst x)) (crawled (snd (fst x))) (snd x).

(* qualifying page items of prefix number i *)
Definition seg (co : bool) (i : N) (p : bytes) (t : tst) : list pitem :=
  match find_sub (lru_iter p) t with
  | Some sub => map (fun x => PI i (fst (fst x)) (crawled (snd (fst x))) (snd x))
                    (filter (fun x => page (snd (fst x)) && (negb co || crawled (snd (fst x))))
                            (ino_at (lru_dirname p) sub))
  | None => []
  end.

(* the segments of prefixes i, i+1, ... one after the other *)
Fixpoint segs (co : bool) (i : N) (ps : list bytes) (t : tst) : list pitem :=
  match ps with
  | [] => []
  | p :: ps' => seg co i p t ++ segs co (i + 1) ps' t
  end.

(* what an answer shows of an item *)
Definition pout (it : pitem) : bytes * bool :=
  match it with PI _ lru cr _ => (lru, cr) | PErr _ => ([], false) end.

Definition full_pages (co : bool) (ps : list bytes) (t : tst) : list (bytes * bool) :=
  map pout (segs co 0 ps t).

(* the token chain: call, feed the token back, until done *)
Fixpoint chainp (fuel : nat) (ps : list bytes) (k : N) (co : bool) (tok : option bytes) (s : traph)
  : option (list page_result) :=
  match fuel with
  | O => None
  | S f =>
      match paginate_pages ps (Some k) tok co s with
      | ROk r => if pr_done r then Some [r]
                 else match pr_token r with
                      | Some tk => option_map (cons r) (chainp f ps k co (Some tk) s)
                      | None => None
                      end
      | _ => None
      end
  end.

Definition all_found (ps : list bytes) (t : tst) : Prop :=
  forall p, In p ps -> find_sub (lru_iter p) t <> None.

Definition is_PI (it : pitem) : Prop := match it with PI _ _ _ _ => True | PErr _ => False end.

Lemma seg_eq : forall co i p t,
  seg co i p t = match find_sub (lru_iter p) t with
                 | Some sub => map (pmk i) (filter (pfilt co) (ino_at (lru_dirname p) sub))
                 | None => []
                 end.
Proof. reflexivity. Qed.

Lemma seg_is_PI : forall co i p t, Forall is_PI (seg co i p t).
Proof.
  intros co i p t. rewrite seg_eq. destruct (find_sub (lru_iter p) t); [|constructor].
  apply Forall_forall. intros x Hx. apply in_map_iff in Hx. destruct Hx as [y [E _]]. subst x. exact I.
Qed.

Lemma segs_is_PI : forall co ps i t, Forall is_PI (segs co i ps t).
Proof.
  intros co ps. induction ps as [|p ps IH]; intros i t; cbn [segs]; [constructor|].
  apply Forall_app. split; [apply seg_is_PI|apply IH].
Qed.

(* ------------------------------------------------------------------------- *)
(* T1 - the item list of a first call                                         *)
(* ------------------------------------------------------------------------- *)

Lemma page_items_cons_none : forall co i p ps t sub,
  find_sub (lru_iter p) t = Some sub ->
  page_items co i (p :: ps) None t
  = map (pmk i) (filter (pfilt co) (ino_at (lru_dirname p) sub)) ++ page_items co (i + 1) ps None t.
Proof.
  intros co i p ps t sub Hf. cbn [page_items]. unfold inorder_items, path_fails. rewrite Hf. reflexivity.
Qed.

Lemma page_items_segs : forall co ps i t, all_found ps t ->
  page_items co i ps None t = segs co i ps t.
Proof.
  intros co ps. induction ps as [|p ps IH]; intros i t Hall; [reflexivity|].
  destruct (find_sub (lru_iter p) t) as [sub|] eqn:Hf;
    [|exfalso; apply (Hall p (or_introl eq_refl)); exact Hf].
  rewrite (page_items_cons_none _ _ _ _ _ _ Hf). cbn [segs]. rewrite seg_eq, Hf.
  rewrite IH; [reflexivity|]. intros q Hq. apply Hall. right. exact Hq.
Qed.

Theorem page_items_full : forall co ps s, all_found ps (tr s) ->
  page_items co 0 ps None (tr s) = segs co 0 ps (tr s).
Proof. intros co ps s H. apply page_items_segs. exact H. Qed.

(* ------------------------------------------------------------------------- *)
(* one call: what pag_scan returns on an error-free item list                 *)
(* ------------------------------------------------------------------------- *)

(* (prefix index, path) of the last item of a list, [d] if there is none *)
Fixpoint lastik (d : option (N * N)) (its : list pitem) : option (N * N) :=
  match its with
  | [] => d
  | PI i _ _ path :: its' => lastik (Some (i, path)) its'
  | PErr _ :: its' => lastik d its'
  end.

Lemma lastik_app_last : forall its d i lru cr path,
  lastik d (its ++ [PI i lru cr path]) = Some (i, path).
Proof.
  induction its as [|x its IH]; intros d i lru cr path; [reflexivity|].
  cbn [app lastik]. destruct x; apply IH.
Qed.

Definition ncr (l : list (bytes * bool)) : N := N.of_nat (length (filter (fun x => snd x) l)).

Lemma ncr_cons : forall lru cr l c,
  (if cr then c + 1 else c) + ncr l = c + ncr ((lru, cr) :: l).
Proof.
  intros lru cr l c. unfold ncr. cbn [filter snd]. destruct cr; cbn [length]; lia.
Qed.

(* [m] = how many more items the answer may take *)
Lemma pag_scan_spec : forall k its, Forall is_PI its -> forall m n c acc last,
  n + N.of_nat m = k ->
  pag_scan (Some k) its n c acc last =
    if (length its <=? m)%nat
    then ROk (mkPR true (n + N.of_nat (length its)) (c + ncr (map pout its)) (acc ++ map pout its) None)
    else let its1 := firstn m its in
         match lastik last its1 with
         | Some (li, lp) =>
             ROk (mkPR false (n + N.of_nat (length its1)) (c + ncr (map pout its1))
                       (acc ++ map pout its1) (Some (build_token li lp)))
         | None => RCrash
         end.
Proof.
  intros k its Hall. induction Hall as [|x its Hx Hall IH]; intros m n c acc last Hk.
  - cbn [pag_scan length Nat.leb map]. unfold ncr. cbn [filter length].
    rewrite !N.add_0_r, app_nil_r. reflexivity.
  - destruct x as [i lru cr path|cr]; [|contradiction]. cbn [pag_scan].
    destruct m as [|m].
    + replace (k <=? n) with true by (symmetry; apply N.leb_le; lia).
      cbn [length Nat.leb firstn lastik map]. unfold ncr. cbn [filter length].
      rewrite !N.add_0_r, app_nil_r. reflexivity.
    + replace (k <=? n) with false by (symmetry; apply N.leb_gt; lia).
      rewrite (IH m) by lia.
      change (length (PI i lru cr path :: its) <=? S m)%nat with (length its <=? m)%nat.
      cbn [firstn length map pout lastik].
      rewrite !ncr_cons. rewrite <- !app_assoc. cbn [app].
      replace (n + 1 + N.of_nat (length its)) with (n + N.of_nat (S (length its))) by lia.
      replace (n + 1 + N.of_nat (length (firstn m its)))
        with (n + N.of_nat (S (length (firstn m its)))) by lia.
      reflexivity.
Qed.

(* the form used below: a fresh call, k >= 1 *)
Lemma pag_scan_call : forall k its, Forall is_PI its -> 1 <= k ->
  let m := N.to_nat k in
  (length its <= m)%nat /\
    pag_scan (Some k) its 0 0 [] None
    = ROk (mkPR true (N.of_nat (length its)) (ncr (map pout its)) (map pout its) None)
  \/
  (m < length its)%nat /\ exists its1 i lru cr path,
    firstn m its = its1 ++ [PI i lru cr path] /\
    pag_scan (Some k) its 0 0 [] None
    = ROk (mkPR false k (ncr (map pout (firstn m its))) (map pout (firstn m its))
                (Some (build_token i path))).
Proof.
  intros k its Hall Hk m.
  rewrite (pag_scan_spec k its Hall m 0 0 [] None) by (unfold m; lia).
  destruct (Nat.leb_spec (length its) m) as [Hle|Hgt].
  - left. split; [exact Hle|]. rewrite !N.add_0_l. reflexivity.
  - right. split; [exact Hgt|].
    assert (Hm : exists m', m = S m') by (exists (pred m); unfold m in *; lia).
    destruct Hm as [m' Em].
    destruct (firstn_skipn_last _ m' its ltac:(lia)) as [its1 [x E]]. rewrite <- Em in E.
    assert (Hx : is_PI x).
    { rewrite Forall_forall in Hall. apply Hall.
      apply (In_firstn_to_In its m x). rewrite E. apply in_or_app. right. left. reflexivity. }
    destruct x as [i lru cr path|cr]; [|contradiction].
    exists its1, i, lru, cr, path. split; [exact E|].
    cbv zeta. rewrite E at 1. rewrite lastik_app_last. rewrite !N.add_0_l. cbn [app].
    rewrite firstn_length_le by lia. unfold m. rewrite N2Nat.id. reflexivity.
Qed.
