(* RuleFacts.v — the pages the index re-inserts when a creation rule is installed are
   exactly the specification's pages beneath the anchor. *)
From Coq Require Import List NArith Bool Lia Permutation.
Import ListNotations.
From Traph Require Import Bytes Consts Helpers Rules Tst TstDefs Traph Spec Ops RefDefs TstFacts
  ViewFacts QueryCore QueryCore2 QueryCore3 RefCore4.
Open Scope N_scope.

Lemma find_prefix_closed_gen : forall r p t, p <> [] -> find (p ++ r) t <> None -> find p t <> None.
Proof.
  intro r. induction r as [|x r IH] using rev_ind; intros p t Hp H.
  - rewrite app_nil_r in H. exact H.
  - rewrite app_assoc in H. apply (IH p t Hp).
    apply (find_prefix_closed (p ++ r) x t); [|exact H].
    destruct p; [congruence|discriminate].
Qed.

Section Under.
  Variables (s : traph) (a : astate).
  Hypothesis HR : Rcore s a.

  Lemma under_nodes : forall p sub x d, wf_lru p -> find_sub (lru_iter p) (tr s) = Some sub ->
    (In (x, d) (dfs_at false (lru_dirname p) sub) <->
     exists r, x = p ++ concat r /\ find (lru_iter p ++ r) (tr s) = Some d).
  Proof.
    intros p sub x d Hp Hsub.
    destruct (sub_setup s a HR p sub Hp Hsub) as (d0 & l0 & c0 & r0 & -> & Hd0 & Hbelow & Hwc & Hdir).
    unfold dfs_at. cbv zeta. rewrite Hdir. cbn [In]. rewrite (dfs_in c0 p x d (proj1 Hwc)). split.
    - intros [E|(r & -> & Hr)].
      + inversion E; subst. exists []. cbn [concat]. rewrite !app_nil_r. auto.
      + exists r. split; [reflexivity|]. rewrite Hbelow; [exact Hr|].
        intros ->. rewrite find_nil in Hr. discriminate.
    - intros (r & -> & Hr). destruct r as [|r1 r].
      + left. cbn [concat]. rewrite app_nil_r in Hr. rewrite app_nil_r. f_equal. congruence.
      + right. exists (r1 :: r). split; [reflexivity|]. rewrite <- Hbelow; [exact Hr|discriminate].
  Qed.

  Theorem pages_under_exact : forall p x, wf_lru p ->
    (In x (pages_under p s) <-> In x (pages_beneath p a)).
  Proof.
    intros p x Hp. unfold pages_under, pages_beneath.
    pose proof (lru_iter_nonempty p Hp) as Hne.
    assert (Hback : forall c, In (x, c) (a_pages a) -> is_stem_prefix p x = true ->
              exists r d, lru_iter x = lru_iter p ++ r /\ find (lru_iter p ++ r) (tr s) = Some d /\
                          page d = true /\ wf_lru x).
    { intros c Hin Hsp.
      assert (Hx : wf_lru x).
      { pose proof (R_pages_wf s a HR) as H. rewrite Forall_forall in H. apply (H (x, c) Hin). }
      apply (R_pages s a HR x c Hx) in Hin. destruct Hin as (d & Hd & Hpg & _).
      apply (is_stem_prefix_iff p x Hp) in Hsp. destruct Hsp as (r & Er).
      exists r, d. unfold nodeof in Hd. rewrite Er in Hd. auto. }
    destruct (find_sub (lru_iter p) (tr s)) as [sub|] eqn:Hsub.
    - rewrite in_map_iff. split.
      + intros ([x' d] & <- & Hin). apply filter_In in Hin. destruct Hin as [Hin Hpg]. cbn [fst snd] in *.
        apply (under_nodes p sub x' d Hp Hsub) in Hin. destruct Hin as (r & -> & Hr).
        destruct (find_nodeof s a HR _ _ Hr) as (Hw & Hn).
        rewrite (concat_below p r Hp) in Hw, Hn.
        apply in_map_iff. exists (p ++ concat r, crawled d). split; [reflexivity|].
        apply filter_In. split.
        * apply (R_pages s a HR _ _ Hw). exists d. auto.
        * cbn [fst]. apply (is_stem_prefix_iff p _ Hp). exists r.
          rewrite <- (concat_below p r Hp).
          apply (find_path_lru (tr s) _ d (R_wf s a HR) Hr).
      + intro Hin. apply in_map_iff in Hin. destruct Hin as ([x' c] & <- & Hin).
        apply filter_In in Hin. destruct Hin as [Hin Hsp]. cbn [fst] in *.
        destruct (Hback c Hin Hsp) as (r & d & Er & Hr & Hpg & Hx).
        exists (x', d). split; [reflexivity|]. apply filter_In. split; [|exact Hpg].
        apply (under_nodes p sub x' d Hp Hsub). exists r. split; [|exact Hr].
        rewrite <- (concat_below p r Hp), <- Er. symmetry. apply lru_iter_concat. exact Hx.
    - split; [intros []|]. intro Hin. exfalso.
      apply in_map_iff in Hin. destruct Hin as ([x' c] & <- & Hin).
      apply filter_In in Hin. destruct Hin as [Hin Hsp]. cbn [fst] in *.
      destruct (Hback c Hin Hsp) as (r & d & Er & Hr & _).
      apply (find_prefix_closed_gen r (lru_iter p) (tr s) Hne); [congruence|].
      apply QueryCore2.find_sub_none. exact Hsub.
  Qed.

  Lemma pages_under_nodup : forall p, NoDup (pages_under p s).
  Proof.
    intro p. unfold pages_under. destruct (find_sub (lru_iter p) (tr s)) as [sub|] eqn:Hsub; [|constructor].
    apply NoDup_map_filter.
    pose proof (dfs_at_sublist (lru_iter p) (tr s) sub [] Hsub) as Hsl. cbn [app] in Hsl.
    eapply sublist_NoDup; [apply sublist_map; exact Hsl|].
    apply (all_nodes_nodup (tr s) (R_wf s a HR)).
  Qed.

  Lemma pages_beneath_nodup : forall p, NoDup (pages_beneath p a).
  Proof. intro p. unfold pages_beneath. apply NoDup_map_filter. apply (R_pages_nodup s a HR). Qed.

  Theorem pages_under_perm : forall p, wf_lru p -> Permutation (pages_under p s) (pages_beneath p a).
  Proof.
    intros p Hp. apply NoDup_Permutation; [apply pages_under_nodup|apply pages_beneath_nodup|].
    intro x. apply pages_under_exact. exact Hp.
  Qed.
End Under.

(* the order parameter of the specification step for a rule installation *)
Theorem rule_order_perm : forall s a p, Rcore s a -> wf_lru p ->
  Permutation (pages_under p (fst (add_lru false p s))) (pages_beneath p a).
Proof.
  intros s a p HR Hp.
  apply (pages_under_perm _ _ (add_lru_Rcore false p s a Hp HR) p Hp).
Qed.

Print Assumptions pages_under_exact.
Print Assumptions rule_order_perm.
