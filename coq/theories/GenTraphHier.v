(* GenTraphHier.v — the hierarchy requests of the public API translated from /repo/traph/traph.py on every run
   (GenTraph.v: Traph.get_webentity_parent_webentities, get_webentity_child_webentities, over the translated
   LRUTrie.lru_node / node_parents_iter / dfs_iter) answer exactly what the model's Traph.parent_webentities /
   child_webentities answer, on the trie file of every state satisfying the block invariant Inv18: same webentity
   ids in the same order (the Python set, kept as a list without repetition in insertion order, is the model's
   [deduped]); a refusal (TraphException: a prefix that is not in the trie) is None on both sides; the translated
   code never fails otherwise and leaves the bytes of the file untouched. *)
From Coq Require Import List NArith Bool Lia Arith.
Import ListNotations.
From Traph Require Import Bytes Consts Layout Helpers Rules Tst TstDefs Traph Traphw TraceDefs Codec CodecFacts
  TstFacts Store StoreFacts GenStorage GenNode GenNodeFacts GenLinks GenTrie GenTrieFacts GenTrieW GenTrieWDefs
  GenTrieD GenTrieDDefs GenTraph.
From Traph Require GenHelpers2 GenHelpers2Facts QueryCore2 IdFacts PropsEx.
Open Scope N_scope.

Arguments N.shiftr : simpl never.
Arguments N.shiftl : simpl never.
Arguments N.modulo : simpl never.
Arguments N.div : simpl never.
Arguments N.land : simpl never.
Arguments N.lor : simpl never.
Arguments N.mul : simpl never.
Arguments N.add : simpl never.
Arguments N.sub : simpl never.
Arguments N.ltb : simpl never.
Arguments N.eqb : simpl never.

(* ====================================================================================== *)
(* 1. reading never changes the bytes of the file (no invariant needed)                   *)
(* ====================================================================================== *)
Lemma py_node_read_o_eq : forall nd sg ob,
  py_node_read_o nd sg ob =
  (let '(sg, v_data) := py_pm_read sg ob in
   match v_data with
   | None => (nd_set_tail [] (py_node_set_default_data (nd_set_exists false nd) None), sg)
   | Some v_data =>
       let nd := nd_set_tail [] (nd_set_block ob
                   (nd_set_data (unpack node_format v_data) (nd_set_exists true nd))) in
       if py_node_has_tail nd
       then let '(sg, v_chunks) := rd_loop (S (length (pm_array sg))) (sg, []) in
            (nd_set_tail (concat v_chunks) nd, sg)
       else (nd, sg)
   end).
Proof. intros nd sg ob. reflexivity. Qed.

Lemma pm_read_arr : forall sg ob, pm_array (fst (py_pm_read sg ob)) = pm_array sg.
Proof. intros sg [a|]; reflexivity. Qed.

Lemma rd_loop_arr : forall fuel sg ch, pm_array (fst (rd_loop fuel (sg, ch))) = pm_array sg.
Proof.
  induction fuel as [|k IH]; intros sg ch; [reflexivity|].
  cbn [rd_loop]. pose proof (pm_read_arr sg None) as Hp.
  destruct (py_pm_read sg None) as [sg1 [data|]]; cbn [fst] in Hp; [|exact Hp].
  destruct (negb _); [exact Hp|]. rewrite IH. exact Hp.
Qed.

Lemma read_o_arr : forall nd sg ob, pm_array (snd (py_node_read_o nd sg ob)) = pm_array sg.
Proof.
  intros nd sg ob. rewrite py_node_read_o_eq. pose proof (pm_read_arr sg ob) as Hp.
  destruct (py_pm_read sg ob) as [sg1 [data|]]; cbn [fst] in Hp; [|exact Hp].
  cbv zeta. destruct (py_node_has_tail _); [|exact Hp].
  pose proof (rd_loop_arr (S (length (pm_array sg1))) sg1 []) as Hl.
  destruct (rd_loop (S (length (pm_array sg1))) (sg1, [])) as [sg2 ch]. cbn [fst snd] in *. rewrite Hl. exact Hp.
Qed.

Lemma init_arr : forall sg a, pm_array (snd (py_node_init sg None (Some a) None)) = pm_array sg.
Proof. intros sg a. rewrite init_read. apply read_o_arr. Qed.

(* what a run of the descent keeps: the bytes *)
Definition keeps (A : bytes) (x : R + St) : Prop :=
  match x with
  | inl None => True
  | inl (Some (sg', _)) => pm_array sg' = A
  | inr (sg', _) => pm_array sg' = A
  end.

Lemma inner_arr : forall x fuel sg n, keeps (pm_array sg) (inner x fuel (sg, n)).
Proof.
  intros x. induction fuel as [|k IH]; intros sg n; [reflexivity|].
  cbn [inner]. destruct (beq (py_node_stem n) x); [reflexivity|].
  destruct (blt x (py_node_stem n)).
  - destruct (py_node_has_left n) eqn:Eh; [|reflexivity].
    unfold py_node_read_left. rewrite Eh. cbn [negb].
    pose proof (read_o_arr n sg (py_node_left n)) as Ha.
    destruct (py_node_read_o n sg (py_node_left n)) as [n1 sg1]. cbn [snd] in Ha.
    rewrite <- Ha. apply IH.
  - destruct (py_node_has_right n) eqn:Eh; [|reflexivity].
    unfold py_node_read_right. rewrite Eh. cbn [negb].
    pose proof (read_o_arr n sg (py_node_right n)) as Ha.
    destruct (py_node_read_o n sg (py_node_right n)) as [n1 sg1]. cbn [snd] in Ha.
    rewrite <- Ha. apply IH.
Qed.

Lemma step_arr : forall A stems l acc i, keeps A acc -> keeps A (step stems l acc i).
Proof.
  intros A stems l [r|[sg n]] i H; [exact H|]. cbn [keeps] in H. subst A.
  cbn [step].
  pose proof (inner_arr (nth (N.to_nat i) stems []) (S (length (pm_array sg))) sg n) as Hi.
  destruct (inner _ _ (sg, n)) as [r|[sg1 n1]]; [exact Hi|]. cbn [keeps] in Hi.
  destruct (i <? l - 1); [|exact Hi].
  destruct (py_node_has_child n1) eqn:Eh; cbn [negb]; [|exact Hi].
  unfold py_node_read_child. rewrite Eh. cbn [negb].
  pose proof (read_o_arr n1 sg1 (py_node_child n1)) as Ha.
  destruct (py_node_read_o n1 sg1 (py_node_child n1)) as [n2 sg2]. cbn [snd keeps] in *. congruence.
Qed.

Lemma fold_step_arr : forall A stems l is acc, keeps A acc -> keeps A (fold_left (step stems l) is acc).
Proof.
  intros A stems l is. induction is as [|i is IH]; intros acc H; [exact H|].
  cbn [fold_left]. apply IH, step_arr, H.
Qed.

(* LRUTrie.lru_node leaves the bytes alone *)
Lemma py_trie_lru_node_arr : forall sg lru sg' r,
  py_trie_lru_node sg lru = Some (sg', r) -> pm_array sg' = pm_array sg.
Proof.
  intros sg lru sg' r H. rewrite lru_node_eq in H.
  pose proof (init_arr sg py_first_data_block) as Hi.
  destruct (py_node_init sg None (Some py_first_data_block) None) as [n0 sg0]. cbn [snd] in Hi. cbv zeta in H.
  pose proof (fold_step_arr (pm_array sg0) (GenHelpers2.py_lru_iter lru)
                (N.of_nat (length (GenHelpers2.py_lru_iter lru)))
                (py_range (N.of_nat (length (GenHelpers2.py_lru_iter lru)))) (inr (sg0, n0)) eq_refl) as Hk.
  destruct (fold_left _ _ _) as [[[sg1 on]|]|[sg1 n1]]; cbn [keeps] in Hk.
  - injection H as <- _. congruence.
  - discriminate H.
  - injection H as <- _. congruence.
Qed.

(* ====================================================================================== *)
(* 2. the model's list of ancestors, one stem at a time from the far end                   *)
(* ====================================================================================== *)
Lemma ancestors_single : forall x acc t, ancestors [x] acc t = acc.
Proof. intros x acc t. rewrite QueryCore2.ancestors_sib. destruct (sib_find x t) as [[d c]|]; reflexivity. Qed.

(* the nearest ancestor of the node at q ++ [x] is the node at q, followed by the ancestors of that one *)
Lemma ancestors_snoc : forall q x t acc d dq, q <> [] ->
  find (q ++ [x]) t = Some d -> find q t = Some dq ->
  ancestors (q ++ [x]) acc t = dq :: ancestors q acc t.
Proof.
  induction q as [|y q' IH]; intros x t acc d dq Hq Hf Hfq; [congruence|].
  cbn [app] in *. rewrite QueryCore2.ancestors_sib. rewrite (QueryCore2.ancestors_sib y q').
  rewrite find_sib in Hf, Hfq.
  destruct (sib_find y t) as [[d1 c]|]; [|discriminate].
  destruct q' as [|z q''].
  - cbn [app] in *. injection Hfq as ->. apply ancestors_single.
  - change ((z :: q'') ++ [x]) with (z :: (q'' ++ [x])) in *. cbv iota.
    change (z :: (q'' ++ [x])) with ((z :: q'') ++ [x]) in *.
    apply (IH x c (d1 :: acc) d dq); [discriminate|exact Hf|exact Hfq].
Qed.

(* ====================================================================================== *)
(* 3. the Python set of webentity ids and the model's deduped                             *)
(* ====================================================================================== *)
Definition dd (acc l : list N) : list N :=
  fold_left (fun acc x => if memN x acc then acc else acc ++ [x]) l acc.
Lemma deduped_dd : forall l, deduped l = dd [] l.
Proof. reflexivity. Qed.
Lemma dd_app : forall acc l1 l2, dd acc (l1 ++ l2) = dd (dd acc l1) l2.
Proof. intros acc l1 l2. unfold dd. apply fold_left_app. Qed.

Definition keepw (w x : N) : bool := negb (x =? 0) && negb (x =? w).

(* the body of the loop `for node ...: weid2 = node.webentity(); if weid2 and weid2 > 0 and weid2 != weid: weids.add(weid2)` *)
Definition addw (w : N) (weids : list (option N)) (n : py_node) : list (option N) :=
  let v_weid2 := py_node_webentity n in
  if (match v_weid2 with None => false | Some v => negb (v =? 0) && (0 <? v) && negb (v =? w) end)
  then py_set_add v_weid2 weids else weids.

Lemma mem_some : forall x acc, existsb (oN_eqb (Some x)) (map Some acc) = memN x acc.
Proof.
  intros x acc. unfold memN. induction acc as [|y acc IH]; [reflexivity|].
  cbn [map existsb oN_eqb]. rewrite IH. reflexivity.
Qed.

Lemma get_we : forall b, py_get_num pos_we (tblock_vals b) = b_we b.
Proof. intros [st fl w l r c p o i]. reflexivity. Qed.

Lemma addw_rep : forall w d l c r n acc, node_at (Nd d l c r) n ->
  addw w (map Some acc) n = map Some (dd acc (filter (keepw w) [we d])).
Proof.
  intros w d l c r n acc (_ & _ & Hd & _). unfold addw, py_node_webentity, keepw.
  rewrite Hd, get_we. cbn [main_block b_we filter].
  destruct (N.eqb_spec (we d) 0) as [Ez|Ez]; cbn [negb andb]; [reflexivity|].
  assert (Hpos : (0 <? we d) = true) by (apply N.ltb_lt; lia).
  destruct (N.eqb_spec (we d) 0) as [Ez'|_]; [contradiction|]. rewrite Hpos. cbn [negb andb].
  destruct (we d =? w); cbn [negb]; [reflexivity|].
  unfold py_set_add, dd. cbn [fold_left]. rewrite mem_some.
  destruct (memN (we d) acc); [reflexivity|]. rewrite map_app. reflexivity.
Qed.

Lemma fold_addw : forall w (P : py_node -> nd -> Prop),
  (forall n d, P n d -> exists l c r, node_at (Nd d l c r) n) ->
  forall items ds acc, Forall2 P items ds ->
  fold_left (addw w) items (map Some acc) = map Some (dd acc (filter (keepw w) (map we ds))).
Proof.
  intros w P HP items ds acc H. revert acc. induction H as [|n d items ds Hnd _ IH]; intro acc; [reflexivity|].
  destruct (HP n d Hnd) as (l & c & r & Hn).
  cbn [fold_left map]. rewrite (addw_rep w d l c r n acc Hn), IH.
  assert (E : filter (keepw w) (we d :: map we ds) = filter (keepw w) [we d] ++ filter (keepw w) (map we ds))
    by (cbn [filter]; destruct (keepw w (we d)); reflexivity).
  rewrite E, dd_app. reflexivity.
Qed.

Lemma fold_left_ext : forall (A B : Type) (f g : A -> B -> A), (forall a x, f a x = g a x) ->
  forall l a, fold_left f l a = fold_left g l a.
Proof. intros A B f g H l. induction l as [|x l IH]; intro a; [reflexivity|]. cbn [fold_left]. rewrite H. apply IH. Qed.

Lemma fold_left_map : forall (A B C : Type) (f : A -> C -> A) (g : B -> C) l a,
  fold_left f (map g l) a = fold_left (fun a x => f a (g x)) l a.
Proof. intros A B C f g l. induction l as [|x l IH]; intro a; [reflexivity|]. cbn [map fold_left]. apply IH. Qed.

Lemma Forall2_map2 : forall (A B C D : Type) (R0 : A -> B -> Prop) (R : C -> D -> Prop) (f : A -> C) (g : B -> D) l1 l2,
  (forall a b, R0 a b -> R (f a) (g b)) -> Forall2 R0 l1 l2 -> Forall2 R (map f l1) (map g l2).
Proof. intros A B C D R0 R f g l1 l2 HR H. induction H; cbn [map]; constructor; [apply HR|]; assumption. Qed.

(* ====================================================================================== *)
(* 4. the generated requests, re-stated                                                   *)
(* ====================================================================================== *)
Definition WSt : Type := option (py_pm * list (option N)).

Definition Fp (w : N) (st : WSt) (v_prefix : bytes) : WSt :=
 match st with
 | None => None
 | Some (sg, v_weids) =>
 (match py_trie_lru_node sg v_prefix with
 | None => None
 | Some (sg, v_starting_node) => (match v_starting_node with
 | None => None
 | Some v_starting_node => (match py_trie_node_parents_iter sg v_starting_node with
 | None => None
 | Some (v__items, sg) => Some (sg, fold_left (addw w) v__items v_weids) end) end) end) end.

Lemma parents_req_eq : forall sg w ps,
  py_traph_get_webentity_parent_webentities sg w ps =
  match fold_left (Fp w) ps (Some (sg, [])) with None => None | Some (sg, ws) => Some (sg, ws) end.
Proof. reflexivity. Qed.

Definition Fc (w : N) (st : WSt) (v_prefix : bytes) : WSt :=
 match st with
 | None => None
 | Some (sg, v_weids) =>
 (match py_trie_lru_node sg v_prefix with
 | None => None
 | Some (sg, v_starting_node) => (match v_starting_node with
 | None => None
 | Some v_starting_node => (match py_trie_dfs_iter sg (Some v_starting_node) v_prefix true with
 | None => None
 | Some (v__items, sg) =>
     Some (sg, fold_left (fun (st : list (option N)) (v__it : (py_node * bytes)) =>
                            let '(v_node, v__) := v__it in addw w st v_node) v__items v_weids) end) end) end) end.

Lemma children_req_eq : forall sg w ps,
  py_traph_get_webentity_child_webentities sg w ps =
  match fold_left (Fc w) ps (Some (sg, [])) with None => None | Some (sg, ws) => Some (sg, ws) end.
Proof. reflexivity. Qed.

Lemma fold_Fp_none : forall w ps, fold_left (Fp w) ps None = None.
Proof. intros w ps. induction ps as [|p ps IH]; [reflexivity|exact IH]. Qed.
Lemma fold_Fc_none : forall w ps, fold_left (Fc w) ps None = None.
Proof. intros w ps. induction ps as [|p ps IH]; [reflexivity|exact IH]. Qed.

(* ====================================================================================== *)
(* 5. on the trie file of a state satisfying Inv18                                        *)
(* ====================================================================================== *)
Section Hier.
  (* the translated dfs_iter from a starting node (proved in GenTrieDDfs.v: py_trie_dfs_iter_at_spec) *)
  Hypothesis dfs_at_spec : forall s, Inv18 s -> forall sg skip t n lru,
    trep (files_of s) sg -> subt t (tr s) -> node_at t n ->
    exists items sg', py_trie_dfs_iter sg (Some n) lru skip = Some (items, sg') /\
      trep (files_of s) sg' /\ pm_array sg' = pm_array sg /\
      Forall2 (item_rep s) items (dfs_at skip (lru_dirname lru) t).

Section OnState.
  Variable s : traph.
  Hypothesis Hinv : Inv18 s.

  (* a node object stands for a node of the tree: it is what reading that node's block yields *)
  Definition anc_rep (n : py_node) (d : nd) : Prop :=
    exists l c r, subt (Nd d l c r) (tr s) /\ node_at (Nd d l c r) n.

  (* the loop over the parent registers from a node object of the node at path p: the node objects of its proper ancestors,
     nearest first *)
  Lemma ploop_anc : forall p d l c r n sg fuel out,
    find p (tr s) = Some d -> subt (Nd d l c r) (tr s) -> node_at (Nd d l c r) n -> trep (files_of s) sg ->
    (length p <= fuel)%nat ->
    exists sg' nl items, ploop fuel (sg, n, out) = Some (sg', nl, out ++ items) /\ trep (files_of s) sg' /\
      pm_array sg' = pm_array sg /\ Forall2 anc_rep items (ancestors p [] (tr s)).
  Proof.
    intros p. remember (length p) as len eqn:Hlen. revert p Hlen.
    induction len as [|len IH]; intros p Hlen d l c r n sg fuel out Hf Hsub Hn Hrep Hfuel.
    - destruct p; [rewrite find_nil in Hf; discriminate|discriminate Hlen].
    - destruct (exists_last (l := p)) as (q & x & ->); [intro E; subst p; discriminate Hlen|].
      rewrite app_length in Hlen. cbn [length] in Hlen.
      destruct fuel as [|k]; [lia|].
      destruct (parent_reg s q x d l c r n Hf Hn) as [Hp _].
      cbn [ploop]. unfold py_node_has_parent. rewrite Hp.
      pose proof (I_pars _ Hinv q x d Hf) as HP.
      destruct q as [|y q'].
      + rewrite HP. change (0 =? 0) with true. cbn [negb].
        exists sg, n, []. rewrite app_nil_r. split; [reflexivity|]. split; [exact Hrep|]. split; [reflexivity|].
        cbn [app]. rewrite ancestors_single. constructor.
      + destruct HP as (dp & Hdp & Epar).
        destruct (find_subt _ _ _ Hdp) as (l' & c' & r' & _ & Hsub').
        pose proof (root_addr_ge s Hinv dp l' c' r' Hsub') as Hge.
        assert (Hnz : (par d =? 0) = false).
        { apply N.eqb_neq. rewrite Epar. change py_first_data_block with 128 in Hge. lia. }
        rewrite Hnz. cbn [negb]. unfold py_node_read_parent, py_node_parent. rewrite Hp, Epar.
        destruct (N.ltb_spec (addr dp) py_first_data_block) as [Hlt|_]; [lia|].
        pose proof (read_subt s Hinv dp l' c' r' n sg Hsub' Hrep) as HR. cbv zeta in HR.
        pose proof (read_o_arr n sg (Some (addr dp))) as Ha.
        destruct (py_node_read_o n sg (Some (addr dp))) as [n1 sg1]. cbn [fst snd] in HR, Ha. destruct HR as [Hn1 Hrep1].
        destruct (IH (y :: q') ltac:(lia) dp l' c' r' n1 sg1 k (out ++ [n1]) Hdp Hsub' Hn1 Hrep1)
          as (sg' & nl & items & E & Hrep' & Harr' & HF).
        { cbn [length] in *. lia. }
        exists sg', nl, (n1 :: items). rewrite E, <- app_assoc. split; [reflexivity|]. split; [exact Hrep'|].
        split; [rewrite Harr'; exact Ha|].
        rewrite (ancestors_snoc (y :: q') x (tr s) [] d dp ltac:(discriminate) Hf Hdp).
        constructor; [|exact HF]. exists l', c', r'. split; assumption.
  Qed.

  (* LRUTrie.node_parents_iter(node) from the node object of the node at path p *)
  Theorem py_trie_node_parents_iter_spec : forall p d l c r n sg,
    find p (tr s) = Some d -> subt (Nd d l c r) (tr s) -> node_at (Nd d l c r) n -> trep (files_of s) sg ->
    exists items sg', py_trie_node_parents_iter sg n = Some (items, sg') /\ trep (files_of s) sg' /\
      pm_array sg' = pm_array sg /\ Forall2 anc_rep items (ancestors p [] (tr s)).
  Proof.
    intros p d l c r n sg Hf Hsub Hn Hrep.
    destruct (exists_last (l := p)) as (q & x & ->); [intro E; subst p; rewrite find_nil in Hf; discriminate|].
    destruct (parent_reg s q x d l c r n Hf Hn) as [Hp Hs].
    rewrite parents_iter_eq. unfold py_node_has_parent. rewrite Hp.
    pose proof (I_pars _ Hinv q x d Hf) as HP.
    destruct q as [|y q'].
    - rewrite HP. change (0 =? 0) with true. cbn [negb app]. rewrite ancestors_single.
      exists [], sg. split; [reflexivity|]. split; [exact Hrep|]. split; [reflexivity|constructor].
    - destruct HP as (dp & Hdp & Epar).
      destruct (find_subt _ _ _ Hdp) as (l' & c' & r' & _ & Hsub').
      pose proof (root_addr_ge s Hinv dp l' c' r' Hsub') as Hge.
      assert (Hnz : (par d =? 0) = false).
      { apply N.eqb_neq. rewrite Epar. change py_first_data_block with 128 in Hge. lia. }
      rewrite Hnz. cbn [negb]. unfold py_node_parent_node, py_node_parent. rewrite Hp, Epar, init_read.
      set (nd0 := nd_set_tail [] (nd_set_exists false (nd_set_block None py_node_new))).
      pose proof (read_subt s Hinv dp l' c' r' nd0 sg Hsub' Hrep) as HR. cbv zeta in HR.
      pose proof (read_o_arr nd0 sg (Some (addr dp))) as Ha.
      destruct (py_node_read_o nd0 sg (Some (addr dp))) as [n1 sg1]. cbn [fst snd] in HR, Ha.
      destruct HR as [Hn1 Hrep1].
      destruct (ploop_anc (y :: q') dp l' c' r' n1 sg1 (S (length (pm_array sg1))) [n1] Hdp Hsub' Hn1 Hrep1)
        as (sg' & nl & items & E & Hrep' & Harr' & HF).
      { pose proof (find_length_size _ _ _ Hdp). pose proof (fuel_enough s (tr s) sg1 (subt_here _) Hrep1). lia. }
      rewrite E. exists ([n1] ++ items), sg'. split; [reflexivity|]. split; [exact Hrep'|].
      split; [rewrite Harr'; exact Ha|].
      rewrite (ancestors_snoc (y :: q') x (tr s) [] d dp ltac:(discriminate) Hf Hdp).
      constructor; [|exact HF]. exists l', c', r'. split; assumption.
  Qed.

  Hypothesis Hroot : root_first s.

  (* lru_node with everything the requests need: the subtree found is a subtree of the trie, the bytes are untouched *)
  Lemma lru_node_full : forall sg p, trep (files_of s) sg -> wf_lru p ->
    exists sg', trep (files_of s) sg' /\ pm_array sg' = pm_array sg /\
      match find_sub (lru_iter p) (tr s) with
      | Some t' => exists d l c r n', t' = Nd d l c r /\ py_trie_lru_node sg p = Some (sg', Some n') /\
                     node_at t' n' /\ subt t' (tr s) /\ find (lru_iter p) (tr s) = Some d
      | None => py_trie_lru_node sg p = Some (sg', None)
      end.
  Proof.
    intros sg p Hrep Hwf.
    destruct (py_trie_lru_node_spec s Hinv sg p Hroot Hrep Hwf) as (sg' & Hrep' & H).
    exists sg'. split; [exact Hrep'|].
    destruct (find_sub (lru_iter p) (tr s)) as [t'|] eqn:Efs.
    - destruct H as (n' & E & Hn'). split; [apply (py_trie_lru_node_arr _ _ _ _ E)|].
      destruct t' as [|d l c r]; [destruct Hn'|]. exists d, l, c, r, n'.
      split; [reflexivity|]. split; [exact E|]. split; [exact Hn'|].
      split; [apply (find_sub_subt _ _ _ Efs)|]. unfold find. rewrite Efs. reflexivity.
    - split; [apply (py_trie_lru_node_arr _ _ _ _ H)|exact H].
  Qed.

  (* ---- get_webentity_parent_webentities ---- *)
  Lemma parents_fold : forall w ps sg acc, trep (files_of s) sg -> Forall wf_lru ps ->
    match parents_of w ps (tr s) with
    | ROk l => exists sg', fold_left (Fp w) ps (Some (sg, map Some acc)) = Some (sg', map Some (dd acc l)) /\
                 trep (files_of s) sg' /\ pm_array sg' = pm_array sg
    | _ => fold_left (Fp w) ps (Some (sg, map Some acc)) = None
    end.
  Proof.
    intros w ps. induction ps as [|p ps IH]; intros sg acc Hrep Hwf.
    - cbn [parents_of fold_left]. exists sg. split; [reflexivity|]. split; [exact Hrep|reflexivity].
    - inversion Hwf as [|? ? Hp Hps]; subst.
      cbn [parents_of fold_left].
      destruct (lru_node_full sg p Hrep Hp) as (sg1 & Hrep1 & Harr1 & H).
      destruct (find_sub (lru_iter p) (tr s)) as [t'|].
      + destruct H as (d & l & c & r & n' & -> & E & Hn' & Hsub & Hf).
        destruct (py_trie_node_parents_iter_spec (lru_iter p) d l c r n' sg1 Hf Hsub Hn' Hrep1)
          as (items & sg2 & E2 & Hrep2 & Harr2 & HF).
        assert (EF : Fp w (Some (sg, map Some acc)) p =
                     Some (sg2, map Some (dd acc (filter (keepw w) (map we (ancestors (lru_iter p) [] (tr s))))))).
        { cbn [Fp]. rewrite E, E2. f_equal. f_equal.
          apply (fold_addw w anc_rep); [|exact HF].
          intros n0 d0 (l0 & c0 & r0 & _ & Hn0). exists l0, c0, r0. exact Hn0. }
        rewrite EF.
        specialize (IH sg2 (dd acc (filter (keepw w) (map we (ancestors (lru_iter p) [] (tr s))))) Hrep2 Hps).
        destruct (parents_of w ps (tr s)) as [| |rl].
        * exact IH.
        * exact IH.
        * destruct IH as (sg' & E' & Hrep' & Harr'). exists sg'. rewrite E'.
          split; [rewrite dd_app; reflexivity|]. split; [exact Hrep'|]. congruence.
      + assert (EF : Fp w (Some (sg, map Some acc)) p = None) by (cbn [Fp]; rewrite H; reflexivity).
        rewrite EF. apply fold_Fp_none.
  Qed.

  Theorem parents_on_state : forall sg w ps, trep (files_of s) sg -> Forall wf_lru ps ->
    match parent_webentities w ps s with
    | ROk l => exists sg', py_traph_get_webentity_parent_webentities sg w ps = Some (sg', map Some l) /\
                 trep (files_of s) sg' /\ pm_array sg' = pm_array sg
    | _ => py_traph_get_webentity_parent_webentities sg w ps = None
    end.
  Proof.
    intros sg w ps Hrep Hwf. rewrite parents_req_eq. unfold parent_webentities.
    pose proof (parents_fold w ps sg [] Hrep Hwf) as H. cbn [map] in H.
    destruct (parents_of w ps (tr s)) as [| |l].
    - rewrite H. reflexivity.
    - rewrite H. reflexivity.
    - destruct H as (sg' & E & Hrep' & Harr'). exists sg'. rewrite E.
      split; [reflexivity|]. split; assumption.
  Qed.

  (* ---- get_webentity_child_webentities ---- *)
  Definition cf (w : N) (p : bytes) (sub : tst) : list N :=
    filter (fun x => negb (x =? 0) && negb (x =? w)) (map (fun y => we (snd y)) (dfs_at true (lru_dirname p) sub)).

  Lemma children_fold : forall w ps sg acc, trep (files_of s) sg -> Forall wf_lru ps ->
    match over_prefixes (cf w) ps (tr s) with
    | ROk l => exists sg', fold_left (Fc w) ps (Some (sg, map Some acc)) = Some (sg', map Some (dd acc l)) /\
                 trep (files_of s) sg' /\ pm_array sg' = pm_array sg
    | _ => fold_left (Fc w) ps (Some (sg, map Some acc)) = None
    end.
  Proof.
    intros w ps. induction ps as [|p ps IH]; intros sg acc Hrep Hwf.
    - cbn [over_prefixes fold_left]. exists sg. split; [reflexivity|]. split; [exact Hrep|reflexivity].
    - inversion Hwf as [|? ? Hp Hps]; subst.
      cbn [over_prefixes fold_left].
      destruct (lru_node_full sg p Hrep Hp) as (sg1 & Hrep1 & Harr1 & H).
      destruct (find_sub (lru_iter p) (tr s)) as [t'|].
      + destruct H as (d & l & c & r & n' & -> & E & Hn' & Hsub & Hf).
        destruct (dfs_at_spec s Hinv sg1 true (Nd d l c r) n' p Hrep1 Hsub Hn')
          as (items & sg2 & E2 & Hrep2 & Harr2 & HF).
        assert (EF : Fc w (Some (sg, map Some acc)) p = Some (sg2, map Some (dd acc (cf w p (Nd d l c r))))).
        { cbn [Fc]. rewrite E, E2. f_equal. f_equal.
          rewrite (fold_left_ext _ _ _ (fun st it => addw w st (fst it))) by (intros a [n0 x0]; reflexivity).
          rewrite <- (fold_left_map _ _ _ (addw w) fst).
          unfold cf. rewrite <- (map_map snd we).
          apply (fold_addw w anc_rep).
          - intros n0 d0 (l0 & c0 & r0 & _ & Hn0). exists l0, c0, r0. exact Hn0.
          - apply (Forall2_map2 _ _ _ _ (item_rep s)); [|exact HF].
            intros it m (_ & l0 & c0 & r0 & Hs0 & Hn0). exists l0, c0, r0. split; assumption. }
        rewrite EF.
        specialize (IH sg2 (dd acc (cf w p (Nd d l c r))) Hrep2 Hps).
        destruct (over_prefixes (cf w) ps (tr s)) as [| |rl].
        * exact IH.
        * exact IH.
        * destruct IH as (sg' & E' & Hrep' & Harr'). exists sg'. rewrite E'.
          split; [rewrite dd_app; reflexivity|]. split; [exact Hrep'|]. congruence.
      + assert (EF : Fc w (Some (sg, map Some acc)) p = None) by (cbn [Fc]; rewrite H; reflexivity).
        rewrite EF. apply fold_Fc_none.
  Qed.

  Theorem children_on_state : forall sg w ps, trep (files_of s) sg -> Forall wf_lru ps ->
    match child_webentities w ps s with
    | ROk l => exists sg', py_traph_get_webentity_child_webentities sg w ps = Some (sg', map Some l) /\
                 trep (files_of s) sg' /\ pm_array sg' = pm_array sg
    | _ => py_traph_get_webentity_child_webentities sg w ps = None
    end.
  Proof.
    intros sg w ps Hrep Hwf. rewrite children_req_eq. unfold child_webentities.
    pose proof (children_fold w ps sg [] Hrep Hwf) as H. cbn [map] in H. unfold cf in H.
    destruct (over_prefixes _ ps (tr s)) as [| |l].
    - rewrite H. reflexivity.
    - rewrite H. reflexivity.
    - destruct H as (sg' & E & Hrep' & Harr'). exists sg'. rewrite E.
      split; [reflexivity|]. split; assumption.
  Qed.
End OnState.

  (* Traph.get_webentity_child_webentities(weid, prefixes): None stands for TraphException, RRefused on the model's side *)
  Theorem py_traph_children_spec : forall s, Inv18 s -> root_first s -> forall sg w ps,
    trep (files_of s) sg -> Forall wf_lru ps ->
    match child_webentities w ps s with
    | ROk l => exists sg', py_traph_get_webentity_child_webentities sg w ps = Some (sg', map Some l) /\
                 trep (files_of s) sg' /\ pm_array sg' = pm_array sg
    | _ => py_traph_get_webentity_child_webentities sg w ps = None
    end.
  Proof. intros s Hinv Hroot sg w ps. apply (children_on_state s Hinv Hroot). Qed.
End Hier.

(* Traph.get_webentity_parent_webentities(weid, prefixes) *)
Theorem py_traph_parents_spec : forall s, Inv18 s -> root_first s -> forall sg w ps,
  trep (files_of s) sg -> Forall wf_lru ps ->
  match parent_webentities w ps s with
  | ROk l => exists sg', py_traph_get_webentity_parent_webentities sg w ps = Some (sg', map Some l) /\
               trep (files_of s) sg' /\ pm_array sg' = pm_array sg
  | _ => py_traph_get_webentity_parent_webentities sg w ps = None
  end.
Proof. intros s Hinv Hroot sg w ps. apply (parents_on_state s Hinv Hroot). Qed.

(* the children request with the translated dfs_iter theorem of GenTrieDDfs.v plugged in: no hypothesis left *)
From Traph Require GenTrieDDfs.
Theorem py_traph_children_full : forall s, Inv18 s -> root_first s -> forall sg w ps,
  trep (files_of s) sg -> Forall wf_lru ps ->
  match child_webentities w ps s with
  | ROk l => exists sg', py_traph_get_webentity_child_webentities sg w ps = Some (sg', map Some l) /\
               trep (files_of s) sg' /\ pm_array sg' = pm_array sg
  | _ => py_traph_get_webentity_child_webentities sg w ps = None
  end.
Proof. exact (py_traph_children_spec GenTrieDDfs.py_trie_dfs_iter_at_spec). Qed.

Print Assumptions py_trie_node_parents_iter_spec.
Print Assumptions py_traph_parents_spec.
Print Assumptions py_traph_children_spec.
Print Assumptions py_traph_children_full.

(* ====================================================================================== *)
(* 6. non-vacuity: the translated requests run on the bytes of the trie file of a concrete state (PropsEx.exs) *)
(* ====================================================================================== *)
Definition ex_reply (r : option (py_pm * list (option N))) : res (list N) :=
  match r with
  | None => RRefused
  | Some (_, l) => ROk (map (fun o => match o with Some w => w | None => 0 end) l)
  end.
Definition ex_s : bytes := firstn 7 PropsEx.ex_px.                               (* s:http| *)
Definition ex_absent : bytes := PropsEx.ex_px ++ [112; 58; 122; 124].             (* ...|p:x|p:z| *)

(* webentity 3 (prefix ...|h:a|p:x|) lies under webentity 1 (prefix ...|h:a|) *)
Example ex_parents :
  option_map snd (py_traph_get_webentity_parent_webentities ex_sg 3 [PropsEx.ex_px]) = Some [Some 1] /\
  parent_webentities 3 [PropsEx.ex_px] PropsEx.exs = ROk [1].
Proof. split; vm_compute; reflexivity. Qed.
(* two prefixes with the same ancestors: the id is reported once; the webentity asked about is left out *)
Example ex_parents_two :
  ex_reply (py_traph_get_webentity_parent_webentities ex_sg 3 [PropsEx.ex_pxy; PropsEx.ex_px])
  = parent_webentities 3 [PropsEx.ex_pxy; PropsEx.ex_px] PropsEx.exs /\
  parent_webentities 3 [PropsEx.ex_pxy; PropsEx.ex_px] PropsEx.exs = ROk [1] /\
  parent_webentities 7 [PropsEx.ex_pxy; PropsEx.ex_px] PropsEx.exs = ROk [3; 1].
Proof. repeat split; vm_compute; reflexivity. Qed.
Example ex_parents_two_other :
  option_map snd (py_traph_get_webentity_parent_webentities ex_sg 7 [PropsEx.ex_pxy; PropsEx.ex_px]) = Some [Some 3; Some 1].
Proof. vm_compute. reflexivity. Qed.
(* below s:http| : webentity 3 is met before webentity 2, webentity 1 itself is left out *)
Example ex_children :
  option_map snd (py_traph_get_webentity_child_webentities ex_sg 1 [ex_s]) = Some [Some 3; Some 2] /\
  child_webentities 1 [ex_s] PropsEx.exs = ROk [3; 2].
Proof. split; vm_compute; reflexivity. Qed.
Example ex_children_two :
  ex_reply (py_traph_get_webentity_child_webentities ex_sg 2 [IdFacts.ex_pa; ex_s])
  = child_webentities 2 [IdFacts.ex_pa; ex_s] PropsEx.exs /\
  child_webentities 2 [IdFacts.ex_pa; ex_s] PropsEx.exs = ROk [1; 3].
Proof. split; vm_compute; reflexivity. Qed.
(* a prefix that is not in the trie: TraphException / RRefused, wherever it stands in the list *)
Example ex_parents_absent :
  py_traph_get_webentity_parent_webentities ex_sg 3 [PropsEx.ex_px; ex_absent] = None /\
  parent_webentities 3 [PropsEx.ex_px; ex_absent] PropsEx.exs = RRefused /\
  py_traph_get_webentity_parent_webentities ex_sg 3 [ex_absent; PropsEx.ex_px] = None /\
  parent_webentities 3 [ex_absent; PropsEx.ex_px] PropsEx.exs = RRefused.
Proof. repeat split; vm_compute; reflexivity. Qed.
Example ex_children_absent :
  py_traph_get_webentity_child_webentities ex_sg 1 [ex_s; ex_absent] = None /\
  child_webentities 1 [ex_s; ex_absent] PropsEx.exs = RRefused.
Proof. split; vm_compute; reflexivity. Qed.

(* the hypotheses of the theorems are met by that state and its file, and the theorems then give the replies above *)
From Traph Require StoreFacts2.
Definition blk_encb (b : tblock) : bool :=
  Nat.leb (length (b_stem b)) 74 && (b_flags b <? 256) && (b_we b <? 2 ^ 32) && (b_left b <? 2 ^ 64) &&
  (b_right b <? 2 ^ 64) && (b_child b <? 2 ^ 64) && (b_parent b <? 2 ^ 64) && (b_out b <? 2 ^ 64) && (b_in b <? 2 ^ 64).
Lemma blk_encb_ok : forall b, blk_encb b = true -> blk_encodable b.
Proof.
  intros b H. unfold blk_encb in H. repeat (apply andb_true_iff in H; destruct H as [H ?]).
  repeat split; try (apply N.ltb_lt; assumption). apply Nat.leb_le. exact H.
Qed.
Lemma ex_trep : trep (files_of PropsEx.exs) ex_sg.
Proof.
  apply (trep_of_file PropsEx.exs 0). apply Forall_forall. intros b Hb. apply blk_encb_ok. revert b Hb.
  apply forallb_forall. vm_compute. reflexivity.
Qed.
Lemma ex_inv : Inv18 PropsEx.exs.
Proof. apply StoreFacts2.run_Inv18. exact PropsEx.exh_wf. Qed.
Lemma ex_root : root_first PropsEx.exs.
Proof. apply StoreFacts2.run_root_first. Qed.

Example ex_parents_by_theorem : exists sg',
  py_traph_get_webentity_parent_webentities ex_sg 3 [PropsEx.ex_px] = Some (sg', [Some 1]) /\
  trep (files_of PropsEx.exs) sg' /\ pm_array sg' = pm_array ex_sg.
Proof.
  assert (Hwf : Forall wf_lru [PropsEx.ex_px]) by (constructor; [PropsEx.wf_lru_tac|constructor]).
  pose proof (py_traph_parents_spec PropsEx.exs ex_inv ex_root ex_sg 3 [PropsEx.ex_px] ex_trep Hwf) as H.
  replace (parent_webentities 3 [PropsEx.ex_px] PropsEx.exs) with (ROk [1]) in H by (vm_compute; reflexivity).
  exact H.
Qed.
Example ex_children_by_theorem : exists sg',
  py_traph_get_webentity_child_webentities ex_sg 1 [ex_s] = Some (sg', [Some 3; Some 2]) /\
  trep (files_of PropsEx.exs) sg' /\ pm_array sg' = pm_array ex_sg.
Proof.
  assert (Hwf : Forall wf_lru [ex_s]) by (constructor; [PropsEx.wf_lru_tac|constructor]).
  pose proof (py_traph_children_full PropsEx.exs ex_inv ex_root ex_sg 1 [ex_s] ex_trep Hwf) as H.
  replace (child_webentities 1 [ex_s] PropsEx.exs) with (ROk [3; 2]) in H by (vm_compute; reflexivity).
  exact H.
Qed.
