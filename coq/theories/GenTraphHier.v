(* GenTraphHier.v — the hierarchy requests of the public API translated from /repo/traph/traph.py on every run
   (GenTraph.v: Traph.get_webentity_parent_webentities, get_webentity_child_webentities, over the translated
   LRUTrie.lru_node / node_parents_iter / dfs_iter) answer exactly what the model's Traph.parent_webentities /
   child_webentities answer, on the trie file of every state satisfying the block invariant Inv18: same webentity
   ids in the same order (the Python set, kept as a list without repetition in insertion order, is the model's
   [deduped]); a refusal (TraphException: a prefix that is not in the trie) is None on both sides; the translated
   code never fails otherwise and leaves the bytes of the file untouched. *)
From Coq Require Import List NArith Bool Lia Arith.
Import ListNotations.
From Traph Require Import Bytes Consts Layout Helpers Rules Tst TstDefs Traph Traphw TraceDefs Codec CodecFacts
  TstFacts Store StoreFacts GenStorage GenNode GenNodeFacts GenLinks GenTrie GenTrieFacts GenTrieW GenTrieWDefs
  GenTrieD GenTrieDDefs GenTraph.
From Traph Require GenHelpers2 GenHelpers2Facts QueryCore2 PropsEx.
Open Scope N_scope.

Arguments N.shiftr : simpl never.
Arguments N.shiftl : simpl never.
Arguments N.modulo : simpl never.
Arguments N.div : simpl never.
Arguments N.land : simpl never.
Arguments N.lor : simpl never.
Arguments N.mul : simpl never.
Arguments N.add : simpl never.
Arguments N.sub : simpl never.
Arguments N.ltb : simpl never.
Arguments N.eqb : simpl never.

(* ====================================================================================== *)
(* 1. reading never changes the bytes of the file (no invariant needed)                   *)
(* ====================================================================================== *)
Lemma py_node_read_o_eq : forall nd sg ob,
  py_node_read_o nd sg ob =
  (let '(sg, v_data) := py_pm_read sg ob in
   match v_data with
   | None => (nd_set_tail [] (py_node_set_default_data (nd_set_exists false nd) None), sg)
   | Some v_data =>
       let nd := nd_set_tail [] (nd_set_block ob
                   (nd_set_data (unpack node_format v_data) (nd_set_exists true nd))) in
       if py_node_has_tail nd
       then let '(sg, v_chunks) := rd_loop (S (length (pm_array sg))) (sg, []) in
            (nd_set_tail (concat v_chunks) nd, sg)
       else (nd, sg)
   end).
Proof. intros nd sg ob. reflexivity. Qed.

Lemma pm_read_arr : forall sg ob, pm_array (fst (py_pm_read sg ob)) = pm_array sg.
Proof. intros sg [a|]; reflexivity. Qed.

Lemma rd_loop_arr : forall fuel sg ch, pm_array (fst (rd_loop fuel (sg, ch))) = pm_array sg.
Proof.
  induction fuel as [|k IH]; intros sg ch; [reflexivity|].
  cbn [rd_loop]. pose proof (pm_read_arr sg None) as Hp.
  destruct (py_pm_read sg None) as [sg1 [data|]]; cbn [fst] in Hp; [|exact Hp].
  destruct (negb _); [exact Hp|]. rewrite IH. exact Hp.
Qed.

Lemma read_o_arr : forall nd sg ob, pm_array (snd (py_node_read_o nd sg ob)) = pm_array sg.
Proof.
  intros nd sg ob. rewrite py_node_read_o_eq. pose proof (pm_read_arr sg ob) as Hp.
  destruct (py_pm_read sg ob) as [sg1 [data|]]; cbn [fst] in Hp; [|exact Hp].
  cbv zeta. destruct (py_node_has_tail _); [|exact Hp].
  pose proof (rd_loop_arr (S (length (pm_array sg1))) sg1 []) as Hl.
  destruct (rd_loop (S (length (pm_array sg1))) (sg1, [])) as [sg2 ch]. cbn [fst snd] in *. rewrite Hl. exact Hp.
Qed.

Lemma init_arr : forall sg a, pm_array (snd (py_node_init sg None (Some a) None)) = pm_array sg.
Proof. intros sg a. rewrite init_read. apply read_o_arr. Qed.

(* what a run of the descent keeps: the bytes *)
Definition keeps (A : bytes) (x : R + St) : Prop :=
  match x with
  | inl None => True
  | inl (Some (sg', _)) => pm_array sg' = A
  | inr (sg', _) => pm_array sg' = A
  end.

Lemma inner_arr : forall x fuel sg n, keeps (pm_array sg) (inner x fuel (sg, n)).
Proof.
  intros x. induction fuel as [|k IH]; intros sg n; [reflexivity|].
  cbn [inner]. destruct (beq (py_node_stem n) x); [reflexivity|].
  destruct (blt x (py_node_stem n)).
  - destruct (py_node_has_left n) eqn:Eh; [|reflexivity].
    unfold py_node_read_left. rewrite Eh. cbn [negb].
    pose proof (read_o_arr n sg (py_node_left n)) as Ha.
    destruct (py_node_read_o n sg (py_node_left n)) as [n1 sg1]. cbn [snd] in Ha.
    rewrite <- Ha. apply IH.
  - destruct (py_node_has_right n) eqn:Eh; [|reflexivity].
    unfold py_node_read_right. rewrite Eh. cbn [negb].
    pose proof (read_o_arr n sg (py_node_right n)) as Ha.
    destruct (py_node_read_o n sg (py_node_right n)) as [n1 sg1]. cbn [snd] in Ha.
    rewrite <- Ha. apply IH.
Qed.

Lemma step_arr : forall A stems l acc i, keeps A acc -> keeps A (step stems l acc i).
Proof.
  intros A stems l [r|[sg n]] i H; [exact H|]. cbn [keeps] in H. subst A.
  cbn [step].
  pose proof (inner_arr (nth (N.to_nat i) stems []) (S (length (pm_array sg))) sg n) as Hi.
  destruct (inner _ _ (sg, n)) as [r|[sg1 n1]]; [exact Hi|]. cbn [keeps] in Hi.
  destruct (i <? l - 1); [|exact Hi].
  destruct (py_node_has_child n1) eqn:Eh; cbn [negb]; [|exact Hi].
  unfold py_node_read_child. rewrite Eh. cbn [negb].
  pose proof (read_o_arr n1 sg1 (py_node_child n1)) as Ha.
  destruct (py_node_read_o n1 sg1 (py_node_child n1)) as [n2 sg2]. cbn [snd keeps] in *. congruence.
Qed.

Lemma fold_step_arr : forall A stems l is acc, keeps A acc -> keeps A (fold_left (step stems l) is acc).
Proof.
  intros A stems l is. induction is as [|i is IH]; intros acc H; [exact H|].
  cbn [fold_left]. apply IH, step_arr, H.
Qed.

(* LRUTrie.lru_node leaves the bytes alone *)
Lemma py_trie_lru_node_arr : forall sg lru sg' r,
  py_trie_lru_node sg lru = Some (sg', r) -> pm_array sg' = pm_array sg.
Proof.
  intros sg lru sg' r H. rewrite lru_node_eq in H.
  pose proof (init_arr sg py_first_data_block) as Hi.
  destruct (py_node_init sg None (Some py_first_data_block) None) as [n0 sg0]. cbn [snd] in Hi. cbv zeta in H.
  pose proof (fold_step_arr (pm_array sg0) (GenHelpers2.py_lru_iter lru)
                (N.of_nat (length (GenHelpers2.py_lru_iter lru)))
                (py_range (N.of_nat (length (GenHelpers2.py_lru_iter lru)))) (inr (sg0, n0)) eq_refl) as Hk.
  destruct (fold_left _ _ _) as [[[sg1 on]|]|[sg1 n1]]; cbn [keeps] in Hk.
  - injection H as <- _. congruence.
  - discriminate H.
  - injection H as <- _. congruence.
Qed.
