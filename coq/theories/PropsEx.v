(* PropsEx.v — one small concrete history shared by the non-vacuity examples of the
   property files: pages, a repeated link, a webentity created by hand, a page under
   it, and a stem of 103 bytes (two blocks). *)
From Coq Require Import List NArith Bool.
From Traph Require Import Bytes Consts Helpers Rules Tst TstDefs Traph Spec Ops RefDefs IdFacts.
Import ListNotations.
Open Scope N_scope.

Definition wf_lrub (l : bytes) : bool := match l with [] => false | _ => last l 0 =? sep end.
Lemma wf_lrub_ok : forall l, wf_lrub l = true -> wf_lru l.
Proof.
  intros l H. destruct l as [|x l]; [discriminate|]. split; [discriminate|].
  apply N.eqb_eq. exact H.
Qed.

Definition ex_long : bytes := [112; 58] ++ repeat 97 100 ++ [sep].      (* p:aaa...a|  (103 bytes) *)
Definition ex_pl : bytes := ex_pa ++ ex_long.
Definition ex_px : bytes := ex_pa ++ [112; 58; 120; sep].               (* ...|p:x|     *)
Definition ex_pxy : bytes := ex_px ++ [112; 58; 121; sep].              (* ...|p:x|p:y| *)

Definition exh : list op :=
  [ OAddPage ex_pa true;
    OAddLinks [(ex_pa, ex_pb); (ex_pb, ex_pl); (ex_pa, ex_pb)];
    OCreate [ex_px];
    OAddPage ex_pxy false;
    OAddLinks [(ex_pxy, ex_pa)] ].

Ltac wf_lru_tac := apply wf_lrub_ok; vm_compute; reflexivity.

Lemma ex_rules_wf : wf_rules [].
Proof. split; constructor. Qed.

Lemma exh_wf : Forall wf_op exh.
Proof.
  unfold exh. repeat constructor; cbn [wf_op fst snd]; try wf_lru_tac; try discriminate.
Qed.

Definition exs : traph := run Domain [] exh.
Definition exa : astate := srun Domain [] exh.
