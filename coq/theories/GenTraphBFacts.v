(* GenTraphBFacts.v — the indexation of a crawl batch translated from the source (GenTraphB.v, generated on every run from
   /repo/traph/traph.py: Traph.index_batch_crawl_iter run to its end) does on the bytes of both files, on the RAM header and in its
   report exactly what the model's Traph.batch_crawl does, for every history.  Part 2 (plan at the top of GenTraphBFacts1.v):
     6. the generated definition in named pieces (tgt_step, src_part, outer_step, flush_step; equality by reflexivity), the
        model's loop in the same pieces (tgtM, outerM over TraceFacts5.seeM / srcM); sizes along the model's loop (grow);
        one insertion (insert_spec), the target loop, the source part, one source, the outer loop, the flush loop
     7. py_traph_index_batch_crawl_state_spec on every state with the invariants; py_traph_index_batch_crawl_spec on `run d rs h`;
        example by vm_compute. *)
From Coq Require Import List NArith Bool Lia Arith.
Import ListNotations.
From Traph Require Import Bytes Consts Layout Helpers Rules Tst TstDefs Traph Spec Ops RefDefs Traphw TraceDefs Codec CodecFacts
  TstFacts Store StoreFacts StoreFacts2 RefFull LinkFacts GenStorage GenNode GenNodeFacts GenLinks GenLinksFacts GenTrie GenTrieFacts
  GenTrieW GenTrieWDefs GenTraphW GenTraphWDefs GenTraphP GenTraphPDefs GenTraphPFacts GenTraphK GenTraphB.
From Traph Require Import TraceFacts TraceFacts2 TraceFacts3 TraceFacts4 TraceFacts5 LinkFacts2 LinkFacts3 GenTrieWAdd1 GenTrieWAdd2 GenTrieWAdd
  GenTrieWPage GenTrieWAll GenTrieWFrame GenTraphWFacts1 GenTraphWFacts ViewFacts ViewFacts2 IdFacts GenTraphPFacts1 GenTraphPReach GenTraphBFacts1.
Open Scope N_scope.

Arguments N.shiftr : simpl never.
Arguments N.shiftl : simpl never.
Arguments N.modulo : simpl never.
Arguments N.div : simpl never.
Arguments N.land : simpl never.
Arguments N.lor : simpl never.
Arguments N.ldiff : simpl never.
Arguments N.mul : simpl never.
Arguments N.add : simpl never.
Arguments N.sub : simpl never.
Arguments N.ltb : simpl never.
Arguments N.eqb : simpl never.
Arguments N.leb : simpl never.
Arguments N.pow : simpl never.

(* ====================================================================================== *)
(* 6. the generated definition and the model's loop in named pieces                       *)
(* ====================================================================================== *)

Definition TS : Type := option (py_thdr * py_pm * py_report * list (bytes * py_node) * list (bytes * list bytes) * list N).

Definition tgt_step (rm : py_ram) (v_source_page : bytes) (st : TS) (v_target_page : bytes) : TS :=
 match st with
 | None => None
 | Some (hd, sg, v_report, v_pages, v_inlinks, v_target_blocks) => (if (negb (py_dict_mem v_target_page v_pages))
 then (match py_traph_add_page_int rm hd sg v_target_page false with
 | None => None
 | Some (hd, sg, (v_target_node, v_target_page_report)) => (let v_report := py_report_iadd v_report v_target_page_report in
 (let v_pages := py_dict_update v_target_page v_target_node v_pages in
 (match (nd_block v_target_node) with
 | None => None
 | Some v__b => (let v_target_blocks := v_target_blocks ++ [v__b] in
 (let v_inlinks := py_mm_add v_target_page v_source_page v_inlinks in
 (Some (hd, sg, v_report, v_pages, v_inlinks, v_target_blocks)))) end))) end)
 else (match py_dict_get v_target_page v_pages with
 | None => None
 | Some v__n => (match nd_block v__n with
 | None => None
 | Some v__b => (let v_target_blocks := v_target_blocks ++ [v__b] in
 (let v_inlinks := py_mm_add v_target_page v_source_page v_inlinks in
 (Some (hd, sg, v_report, v_pages, v_inlinks, v_target_blocks)))) end) end)) end.

Definition src_part (rm : py_ram) (hd : py_thdr) (sg : py_pm) (v_report : py_report) (v_pages : list (bytes * py_node))
  (v_source_page : bytes) : option (py_thdr * py_pm * py_report * list (bytes * py_node) * py_node) :=
 (if (negb (py_dict_mem v_source_page v_pages))
 then (match py_traph_add_page_int rm hd sg v_source_page true with
 | None => None
 | Some (hd, sg, (v_source_node, v_source_page_report)) => (let v_report := py_report_iadd v_report v_source_page_report in
 (let v_pages := py_dict_update v_source_page v_source_node v_pages in
 (Some (hd, sg, v_report, v_pages, v_source_node)))) end)
 else (match py_dict_get v_source_page v_pages with
 | None => None
 | Some v_source_node => (if (negb (py_node_is_crawled v_source_node))
 then (let '(v_source_node, sg) := py_node_refresh v_source_node sg in
 (let v_source_node := py_node_flag_as_crawled v_source_node in
 (let '(v_source_node, sg) := py_node_write v_source_node sg in
 (Some (hd, sg, v_report, v_pages, v_source_node)))))
 else (Some (hd, sg, v_report, v_pages, v_source_node))) end)).

Definition OS : Type := option (py_thdr * py_pm * py_pm * py_report * list (bytes * py_node) * list (bytes * list bytes)).

Definition outer_step (rm : py_ram) (st : OS) (v__it : bytes * list bytes) : OS :=
 match st with
 | None => None
 | Some (hd, sg, sgl, v_report, v_pages, v_inlinks) => (let '(v_source_page, v_target_pages) := v__it in
 (match src_part rm hd sg v_report v_pages v_source_page with
 | None => None
 | Some (hd, sg, v_report, v_pages, v_source_node) =>
 (match fold_left (tgt_step rm v_source_page) v_target_pages (Some (hd, sg, v_report, v_pages, v_inlinks, (@nil N))) with
 | None => None
 | Some (hd, sg, v_report, v_pages, v_inlinks, v_target_blocks) => (let '(v_source_node, sg) := py_node_refresh v_source_node sg in
 (match py_ls_add_links v_source_node sg sgl v_target_blocks true with
 | None => None
 | Some (v_source_node, sg, sgl) => (Some (hd, sg, sgl, v_report, v_pages, v_inlinks)) end)) end) end)) end.

Definition flush_step (v_pages : list (bytes * py_node)) (st : option (py_pm * py_pm)) (v__it : bytes * list bytes)
  : option (py_pm * py_pm) :=
 match st with
 | None => None
 | Some (sg, sgl) => (let '(v_target_page, v_source_pages) := v__it in
 (match py_dict_get v_target_page v_pages with
 | None => None
 | Some v_target_node => (let '(v_target_node, sg) := py_node_refresh v_target_node sg in
 (match py_blocks_of v_pages v_source_pages with
 | None => None
 | Some v_source_blocks => (match py_ls_add_links v_target_node sg sgl v_source_blocks false with
 | None => None
 | Some (v_target_node, sg, sgl) => (Some (sg, sgl)) end) end)) end)) end.

Lemma batch_eq : forall rm hd sg sgl data yf,
  py_traph_index_batch_crawl rm hd sg sgl data yf =
  match fold_left (outer_step rm) data (Some (hd, sg, sgl, py_report_new, [], [])) with
  | None => None
  | Some (hd, sg, sgl, v_report, v_pages, v_inlinks) =>
      match fold_left (flush_step v_pages) v_inlinks (Some (sg, sgl)) with
      | None => None
      | Some (sg, sgl) => Some (hd, sg, sgl, v_report)
      end
  end.
Proof. reflexivity. Qed.

Definition MS : Type := (traph * N * list (N * list bytes) * list bytes * list (bytes * list bytes))%type.
Definition tgtM (src : bytes) : MS -> bytes -> MS :=
  fun '(s, n, c, seen, ins) t =>
  let '(s, n, c, seen) := seeM false t (s, n, c, seen) in (s, n, c, seen, mm_add t src ins).
Definition outerM : MS -> bytes * list bytes -> MS :=
  fun '(s, n, c, seen, ins) '(src, tgts) =>
  let '(s, n, c, seen) := srcM src (s, n, c, seen) in
  let '(s, n, c, seen, ins) := fold_left (tgtM src) tgts (s, n, c, seen, ins) in
  (store_links true (lru_iter src) (map (fun o => addr_of o s) tgts) s, n, c, seen, ins).

Lemma batch_M : forall data s,
  batch_crawl data s =
  let '(s1, n, c, _, ins) := fold_left outerM data (s, 0, [], [], []) in (flush_links false ins s1, Report n c).
Proof. reflexivity. Qed.

Lemma tgtM_eq : forall src s n c seen ins t,
  tgtM src (s, n, c, seen, ins) t =
  (let '(s1, n1, c1, seen1) := seeM false t (s, n, c, seen) in (s1, n1, c1, seen1, mm_add t src ins)).
Proof. reflexivity. Qed.

Lemma outerM_eq : forall s n c seen ins src tgts,
  outerM (s, n, c, seen, ins) (src, tgts) =
  (let '(s1, n1, c1, seen1) := srcM src (s, n, c, seen) in
   let '(s2, n2, c2, seen2, ins2) := fold_left (tgtM src) tgts (s1, n1, c1, seen1, ins) in
   (store_links true (lru_iter src) (map (fun o => addr_of o s2) tgts) s2, n2, c2, seen2, ins2)).
Proof. reflexivity. Qed.

(* ---- sizes along the model's loop: the trie file and the link file only grow ---- *)
Definition grow (s s' : traph) : Prop := nb s <= nb s' /\ (length (stubs s) <= length (stubs s'))%nat.

Lemma grow_refl : forall s, grow s s.
Proof. intro s. split; lia. Qed.
Lemma grow_trans : forall a b c, grow a b -> grow b c -> grow a c.
Proof. intros a b c [H1 H2] [H3 H4]. split; lia. Qed.

Lemma walked_stubs : forall ps s, stubs (walked ps s) = stubs s.
Proof.
  induction ps as [|p ps IH]; intro s; [reflexivity|].
  cbn [walked fold_left]. fold (walked ps (fst (add_lru true p s))). rewrite IH. apply add_lru_stubs.
Qed.

Lemma add_prefixes_stubs : forall ps best s, stubs (fst (add_prefixes ps best s)) = stubs s.
Proof.
  intros ps best s. unfold add_prefixes.
  pose proof (walk_state ps s 0 []) as Ew. pose proof (walked_stubs ps s) as Hw.
  destruct (walk_prefixes ps s 0 []) as [[s1 ninv] valid]. cbn [fst] in Ew. subst s1.
  destruct (negb (Nat.eqb ninv 0) && negb best); [exact Hw|].
  destruct (Nat.eqb ninv (length ps)); exact Hw.
Qed.

Lemma add_page_int_stubs_eq : forall l cr s, stubs (fst (fst (add_page_int l cr s))) = stubs s.
Proof.
  intros l cr s. rewrite add_page_int_parts. cbv zeta.
  assert (E1 : stubs (fst (fst (trie_add_page l cr s))) = stubs s).
  { rewrite trie_add_page_state. destruct (tap_state_fields l cr (fst (add_lru false l s))) as (_ & _ & _ & H).
    rewrite H. apply add_lru_stubs. }
  destruct (decide _ l _) as [|p|]; cbn [fst]; try exact E1.
  rewrite create_from_state, add_prefixes_stubs. exact E1.
Qed.

Lemma add_page_int_grow : forall l cr s, grow s (fst (fst (add_page_int l cr s))).
Proof. intros. split; [apply add_page_int_nb_mono|rewrite add_page_int_stubs_eq; lia]. Qed.

Lemma push_stubs_length : forall ts h st, length (fst (push_stubs ts h st)) = (length st + length ts)%nat.
Proof.
  induction ts as [|t ts IH]; intros h st; [cbn; lia|].
  rewrite GenLinksFacts.push_stubs_cons, IH, app_length. cbn [length]. lia.
Qed.

Lemma store_links_grow : forall out p ts s, grow s (store_links out p ts s).
Proof.
  intros out p ts s. destruct ts as [|t ts]; [apply grow_refl|].
  destruct (find p (tr s)) as [d|] eqn:Ef.
  - rewrite (store_links_unfold out p (t :: ts) s d ltac:(discriminate) Ef). cbv zeta. split; cbn [nb stubs]; [lia|].
    rewrite push_stubs_length. lia.
  - unfold store_links. rewrite Ef. apply grow_refl.
Qed.

Lemma seeM_grow : forall cr t s n c seen s1 n1 c1 seen1,
  seeM cr t (s, n, c, seen) = (s1, n1, c1, seen1) -> grow s s1.
Proof.
  intros cr t s n c seen s1 n1 c1 seen1. unfold seeM. destruct (mem_bytes t seen).
  - intro E. injection E as <- _ _ _. apply grow_refl.
  - pose proof (add_page_int_grow t cr s) as H. destruct (add_page_int t cr s) as [[s' n'] c']. cbn [fst] in H.
    intro E. injection E as <- _ _ _. exact H.
Qed.

Lemma srcM_grow : forall src s n c seen s1 n1 c1 seen1,
  srcM src (s, n, c, seen) = (s1, n1, c1, seen1) -> grow s s1.
Proof.
  intros src s n c seen s1 n1 c1 seen1. unfold srcM. destruct (mem_bytes src seen).
  - intro E. injection E as <- _ _ _. split; cbn [set_tree set_tr nb stubs]; lia.
  - pose proof (add_page_int_grow src true s) as H. destruct (add_page_int src true s) as [[s' n'] c']. cbn [fst] in H.
    intro E. injection E as <- _ _ _. exact H.
Qed.

Lemma tgt_fold_grow : forall src tgts s n c seen ins s1 n1 c1 seen1 ins1,
  fold_left (tgtM src) tgts (s, n, c, seen, ins) = (s1, n1, c1, seen1, ins1) -> grow s s1.
Proof.
  intros src. induction tgts as [|t tgts IH]; intros s n c seen ins s1 n1 c1 seen1 ins1 E.
  - cbn in E. injection E as <- _ _ _ _. apply grow_refl.
  - cbn [fold_left] in E. rewrite tgtM_eq in E.
    destruct (seeM false t (s, n, c, seen)) as [[[s0 n0] c0] seen0] eqn:E0.
    eapply grow_trans; [exact (seeM_grow _ _ _ _ _ _ _ _ _ _ E0)|exact (IH _ _ _ _ _ _ _ _ _ _ E)].
Qed.

Lemma outerM_grow : forall s n c seen ins e s1 n1 c1 seen1 ins1,
  outerM (s, n, c, seen, ins) e = (s1, n1, c1, seen1, ins1) -> grow s s1.
Proof.
  intros s n c seen ins [src tgts] s1 n1 c1 seen1 ins1. rewrite outerM_eq.
  destruct (srcM src (s, n, c, seen)) as [[[sa na] ca] seena] eqn:Ea.
  destruct (fold_left (tgtM src) tgts (sa, na, ca, seena, ins)) as [[[[sb nb0] cb] seenb] insb] eqn:Eb.
  intro E. injection E as <- _ _ _ _.
  eapply grow_trans; [exact (srcM_grow _ _ _ _ _ _ _ _ _ Ea)|].
  eapply grow_trans; [exact (tgt_fold_grow _ _ _ _ _ _ _ _ _ _ _ _ Eb)|apply store_links_grow].
Qed.

Lemma outer_fold_grow : forall data s n c seen ins s1 n1 c1 seen1 ins1,
  fold_left outerM data (s, n, c, seen, ins) = (s1, n1, c1, seen1, ins1) -> grow s s1.
Proof.
  induction data as [|e data IH]; intros s n c seen ins s1 n1 c1 seen1 ins1 E.
  - cbn in E. injection E as <- _ _ _ _. apply grow_refl.
  - cbn [fold_left] in E.
    destruct (outerM (s, n, c, seen, ins) e) as [[[[s0 n0] c0] seen0] ins0] eqn:E0.
    eapply grow_trans; [exact (outerM_grow _ _ _ _ _ _ _ _ _ _ _ E0)|exact (IH _ _ _ _ _ _ _ _ _ _ E)].
Qed.

Lemma flush_grow : forall out mm s, grow s (flush_links out mm s).
Proof.
  intros out mm. induction mm as [|[p others] mm IH]; intro s; [apply grow_refl|].
  rewrite flush_links_cons. eapply grow_trans; [apply store_links_grow|apply IH].
Qed.

(* ---- the `seen` list and the in-multimap along the model's loop: keys and values of the multimap are recorded pages ---- *)
Definition sub_seen (seen seen' : list bytes) : Prop := forall k, mem_bytes k seen = true -> mem_bytes k seen' = true.

Definition mm_seen (seen : list bytes) (mm : list (bytes * list bytes)) : Prop :=
  forall k vs, In (k, vs) mm -> mem_bytes k seen = true /\ forall v, In v vs -> mem_bytes v seen = true.

Lemma sub_seen_refl : forall seen, sub_seen seen seen.
Proof. intros seen k H. exact H. Qed.
Lemma sub_seen_trans : forall a b c, sub_seen a b -> sub_seen b c -> sub_seen a c.
Proof. intros a b c H1 H2 k H. apply H2, H1, H. Qed.
Lemma sub_seen_cons : forall x seen, sub_seen seen (x :: seen).
Proof. intros x seen k H. cbn [mem_bytes]. rewrite H. apply orb_true_r. Qed.
Lemma mem_bytes_head : forall x seen, mem_bytes x (x :: seen) = true.
Proof. intros x seen. cbn [mem_bytes]. rewrite beq_refl. reflexivity. Qed.

Lemma mm_seen_mono : forall seen seen' mm, sub_seen seen seen' -> mm_seen seen mm -> mm_seen seen' mm.
Proof.
  intros seen seen' mm Hs Hm k vs Hin. destruct (Hm k vs Hin) as [H1 H2]. split; [apply Hs, H1|].
  intros v Hv. apply Hs, H2, Hv.
Qed.

Lemma mm_seen_add : forall seen k v mm, mm_seen seen mm -> mem_bytes k seen = true -> mem_bytes v seen = true ->
  mm_seen seen (mm_add k v mm).
Proof.
  intros seen k v mm Hm Hk Hv. induction mm as [|[k0 vs0] mm IH]; cbn [mm_add].
  - intros k' vs' [E|[]]. injection E as <- <-. split; [exact Hk|]. intros v' [<-|[]]. exact Hv.
  - assert (Hm' : mm_seen seen mm) by (intros k' vs' Hin; apply Hm; right; exact Hin).
    destruct (Hm k0 vs0 (or_introl eq_refl)) as [Hk0 Hvs0].
    destruct (beq k k0).
    + intros k' vs' [E|Hin]; [|apply Hm'; exact Hin]. injection E as <- <-. split; [exact Hk0|].
      intros v' Hv'. apply in_app_or in Hv'. destruct Hv' as [Hv'|[<-|[]]]; [apply Hvs0; exact Hv'|exact Hv].
    + intros k' vs' [E|Hin]; [|apply (IH Hm'); exact Hin]. injection E as <- <-. split; assumption.
Qed.

Lemma seeM_seen : forall cr t s n c seen s1 n1 c1 seen1,
  seeM cr t (s, n, c, seen) = (s1, n1, c1, seen1) -> mem_bytes t seen1 = true /\ sub_seen seen seen1.
Proof.
  intros cr t s n c seen s1 n1 c1 seen1. unfold seeM. destruct (mem_bytes t seen) eqn:Em.
  - intro E. injection E as _ _ _ <-. split; [exact Em|apply sub_seen_refl].
  - destruct (add_page_int t cr s) as [[s' n'] c']. intro E. injection E as _ _ _ <-.
    split; [apply mem_bytes_head|apply sub_seen_cons].
Qed.

Lemma srcM_seen : forall src s n c seen s1 n1 c1 seen1,
  srcM src (s, n, c, seen) = (s1, n1, c1, seen1) -> mem_bytes src seen1 = true /\ sub_seen seen seen1.
Proof.
  intros src s n c seen s1 n1 c1 seen1. unfold srcM. destruct (mem_bytes src seen) eqn:Em.
  - intro E. injection E as _ _ _ <-. split; [exact Em|apply sub_seen_refl].
  - destruct (add_page_int src true s) as [[s' n'] c']. intro E. injection E as _ _ _ <-.
    split; [apply mem_bytes_head|apply sub_seen_cons].
Qed.

Lemma tgt_fold_seen : forall src tgts s n c seen ins s1 n1 c1 seen1 ins1,
  fold_left (tgtM src) tgts (s, n, c, seen, ins) = (s1, n1, c1, seen1, ins1) ->
  mem_bytes src seen = true -> mm_seen seen ins ->
  sub_seen seen seen1 /\ mm_seen seen1 ins1 /\ (forall t, In t tgts -> mem_bytes t seen1 = true).
Proof.
  intros src. induction tgts as [|t tgts IH]; intros s n c seen ins s1 n1 c1 seen1 ins1 E Hsrc Hm.
  - cbn in E. injection E as _ _ _ <- <-. split; [apply sub_seen_refl|]. split; [exact Hm|intros t []].
  - cbn [fold_left] in E. rewrite tgtM_eq in E.
    destruct (seeM false t (s, n, c, seen)) as [[[s0 n0] c0] seen0] eqn:E0.
    destruct (seeM_seen _ _ _ _ _ _ _ _ _ _ E0) as [Ht Hs0].
    destruct (IH _ _ _ _ _ _ _ _ _ _ E (Hs0 _ Hsrc)) as (Hs1 & Hm1 & Hall).
    { apply mm_seen_add; [exact (mm_seen_mono _ _ _ Hs0 Hm)|exact Ht|exact (Hs0 _ Hsrc)]. }
    split; [exact (sub_seen_trans _ _ _ Hs0 Hs1)|]. split; [exact Hm1|].
    intros t' [<-|Hin]; [apply Hs1, Ht|apply Hall, Hin].
Qed.

Lemma outerM_seen : forall s n c seen ins e s1 n1 c1 seen1 ins1,
  outerM (s, n, c, seen, ins) e = (s1, n1, c1, seen1, ins1) -> mm_seen seen ins ->
  sub_seen seen seen1 /\ mm_seen seen1 ins1.
Proof.
  intros s n c seen ins [src tgts] s1 n1 c1 seen1 ins1. rewrite outerM_eq.
  destruct (srcM src (s, n, c, seen)) as [[[sa na] ca] seena] eqn:Ea.
  destruct (fold_left (tgtM src) tgts (sa, na, ca, seena, ins)) as [[[[sb nb0] cb] seenb] insb] eqn:Eb.
  intros E Hm. injection E as _ _ _ <- <-.
  destruct (srcM_seen _ _ _ _ _ _ _ _ _ Ea) as [Hsrc Hsa].
  destruct (tgt_fold_seen _ _ _ _ _ _ _ _ _ _ _ _ Eb Hsrc (mm_seen_mono _ _ _ Hsa Hm)) as (Hsb & Hmb & _).
  split; [exact (sub_seen_trans _ _ _ Hsa Hsb)|exact Hmb].
Qed.

Lemma outer_fold_seen : forall data s n c seen ins s1 n1 c1 seen1 ins1,
  fold_left outerM data (s, n, c, seen, ins) = (s1, n1, c1, seen1, ins1) -> mm_seen seen ins -> mm_seen seen1 ins1.
Proof.
  induction data as [|e data IH]; intros s n c seen ins s1 n1 c1 seen1 ins1 E Hm.
  - cbn in E. injection E as _ _ _ <- <-. exact Hm.
  - cbn [fold_left] in E.
    destruct (outerM (s, n, c, seen, ins) e) as [[[[s0 n0] c0] seen0] ins0] eqn:E0.
    destruct (outerM_seen _ _ _ _ _ _ _ _ _ _ _ E0 Hm) as [_ Hm0]. exact (IH _ _ _ _ _ _ _ _ _ _ E Hm0).
Qed.

(* ---- the invariants carried along the code's loop ---- *)
Record Good (rm : py_ram) (s : traph) (hd : py_thdr) (sg sgl : py_pm) : Prop := mkGood {
  G_inv : Inv18 s;
  G_q : Q s;
  G_anch : anchors_known s;
  G_ram : ramrep s rm;
  G_hrep : hrep s hd sg;
  G_lrep : lrep (stubs s) sgl
}.

Definition ids_le (c : list (N * list bytes)) (bound : N) : Prop := forall w, In w (map fst c) -> w <= bound.

Lemma set_tree_same : forall s, set_tree (tr s) s = s.
Proof. intros [t n lw st rs df]. reflexivity. Qed.

Lemma hrep_data : forall s hd sg, hrep s hd sg -> th_data hd = [VNum (lastwe s); VBytes version_bytes].
Proof. intros s hd sg (_ & H & _). exact H. Qed.

Lemma Good_set_crawled : forall rm s hd sg sgl p sg2, Good rm s hd sg sgl ->
  let s' := set_tree (upd set_crawled p (tr s)) s in
  Inv18 s' -> trep (files_of s') sg2 -> hk (encode_trie_header (lastwe s)) sg2 -> Good rm s' hd sg2 sgl.
Proof.
  intros rm s hd sg sgl p sg2 [Hinv HQ Hk Hram Hh Hl] s' Hinv' Hrep' Hhk'. constructor.
  - exact Hinv'.
  - apply set_tree_upd_Q; [reflexivity|exact HQ].
  - apply anchors_known_set_crawled. exact Hk.
  - eapply ramrep_ext; [| |exact Hram]; reflexivity.
  - apply hrep_intro; [exact Hrep'|exact (hrep_data _ _ _ Hh)|exact Hhk'].
  - exact Hl.
Qed.

Lemma Good_store : forall rm s hd sg sgl out p ts sg2 sgl2, Good rm s hd sg sgl ->
  let s' := store_links out p ts s in
  Inv18 s' -> trep (files_of s') sg2 -> hk (encode_trie_header (lastwe s)) sg2 -> lrep (stubs s') sgl2 ->
  Good rm s' hd sg2 sgl2.
Proof.
  intros rm s hd sg sgl out p ts sg2 sgl2 [Hinv HQ Hk Hram Hh Hl] s' Hinv' Hrep' Hhk' Hl'.
  destruct (store_links_fields out p ts s) as (_ & Elw & Er & Ed). fold s' in Elw, Er, Ed.
  constructor.
  - exact Hinv'.
  - apply store_links_Q. exact HQ.
  - apply anchors_known_store_links. exact Hk.
  - eapply ramrep_ext; [exact Er|exact Ed|exact Hram].
  - apply hrep_intro; [exact Hrep'|rewrite Elw; exact (hrep_data _ _ _ Hh)|rewrite Elw; exact Hhk'].
  - exact Hl'.
Qed.

(* ---- one insertion: Traph.__add_page on a page not yet recorded ---- *)
Lemma insert_spec : forall rm cr t s n c hd sg sgl,
  Good rm s hd sg sgl -> wf_lru t -> ids_le c (lastwe s) ->
  let r := add_page_int t cr s in
  let s1 := fst (fst r) in
  nb s1 * 128 < 2 ^ 64 -> lastwe s + 1 < 2 ^ 32 ->
  exists hd' sg' nd,
    py_traph_add_page_int rm hd sg t cr = Some (hd', sg', (nd, report_of (snd (fst r)) (snd r))) /\
    py_report_iadd (report_of n c) (report_of (snd (fst r)) (snd r)) = report_of (n + snd (fst r)) (c ++ snd r) /\
    Good rm s1 hd' sg' sgl /\ rec_ok s1 t nd /\ ids_le (c ++ snd r) (lastwe s1) /\ kept s s1 /\ lastwe s1 <= lastwe s + 1.
Proof.
  intros rm cr t s n c hd sg sgl [Hinv HQ Hk Hram Hh Hl] Ht Hb r s1 Hsize Hlt.
  destruct (py_traph_add_page_int_node s Hinv (Q_root_first s HQ) rm hd sg t cr Hram Hh Ht
              (trie_add_page_walk_known t cr s Ht Hk) Hsize Hlt)
    as (Hinv1 & _ & hd1 & sg1 & nd & E & Hh1 & Hram1 & d & l & c0 & r0 & Hfs & Hn).
  pose proof (add_page_int_counter t cr s) as Hc. cbv zeta in Hc.
  exists hd1, sg1, nd. split; [exact E|].
  split.
  { apply (iadd_fresh n c _ _ (lastwe s) Hb).
    destruct Hc as [[Hc _]|(valid & Hc & _)]; [left|right; exists valid]; exact Hc. }
  split.
  { constructor; [exact Hinv1|apply add_page_int_Q; exact HQ|apply anchors_known_add_page_int; exact Hk|exact Hram1|exact Hh1|].
    unfold s1, r. rewrite add_page_int_stubs_eq. exact Hl. }
  split.
  { split; [exact Ht|]. exists d. unfold nodeof. rewrite find_of_sub. unfold s1, r. rewrite Hfs.
    split; [reflexivity|]. destruct Hn as (_ & Hb1 & Hd1 & _). split; [exact Hb1|].
    rewrite (is_crawled_main nd d _ _ _ Hd1). auto. }
  split.
  { intros w Hin. rewrite map_app in Hin. apply in_app_or in Hin. unfold s1, r.
    destruct Hc as [[Hc El]|(valid & Hc & El)]; rewrite El; unfold r in Hin; rewrite Hc in Hin; cbn [map fst In] in Hin.
    - destruct Hin as [Hin|[]]. exact (Hb w Hin).
    - destruct Hin as [Hin|[<-|[]]]; [specialize (Hb w Hin)|]; lia. }
  split; [apply add_page_int_kept|].
  unfold s1, r. destruct Hc as [[_ El]|(valid & _ & El)]; rewrite El; lia.
Qed.

(* ---- one target ---- *)
Lemma tgt_step_spec : forall rm src t s n c seen ins hd sg sgl pages blocks s1 n1 c1 seen1,
  Good rm s hd sg sgl -> dict_ok s pages seen -> wf_lru t -> ids_le c (lastwe s) ->
  seeM false t (s, n, c, seen) = (s1, n1, c1, seen1) ->
  nb s1 * 128 < 2 ^ 64 -> lastwe s + 1 < 2 ^ 32 ->
  exists hd' sg' pages',
    tgt_step rm src (Some (hd, sg, report_of n c, pages, ins, blocks)) t =
      Some (hd', sg', report_of n1 c1, pages', mm_add t src ins, blocks ++ [addr_of t s1]) /\
    Good rm s1 hd' sg' sgl /\ dict_ok s1 pages' seen1 /\ ids_le c1 (lastwe s1) /\ kept s s1 /\
    lastwe s1 <= lastwe s + 1.
Proof.
  intros rm src t s n c seen ins hd sg sgl pages blocks s1 n1 c1 seen1 HG Hd Ht Hb E Hsize Hlt.
  unfold seeM in E. unfold tgt_step. rewrite (proj1 Hd t).
  destruct (mem_bytes t seen) eqn:Em.
  - injection E as <- <- <- <-. cbn [negb].
    destruct (dict_ok_mem s pages seen t Hd Em) as (n0 & Eg & _ & d & Hnd & Hblk & _).
    rewrite Eg, Hblk, py_mm_add_eq, (addr_of_nodeof s t d Hnd).
    exists hd, sg, pages. split; [reflexivity|]. split; [exact HG|]. split; [exact Hd|]. split; [exact Hb|].
    split; [apply kept_refl|lia].
  - cbn [negb].
    pose proof (insert_spec rm false t s n c hd sg sgl HG Ht Hb) as HI. cbv zeta in HI.
    destruct (add_page_int t false s) as [[s' n'] c'] eqn:Ea. cbn [fst snd] in HI.
    injection E as <- <- <- <-.
    destruct (HI Hsize Hlt) as (hd1 & sg1 & nd & E1 & E2 & HG1 & Hr1 & Hb1 & Hk1 & Hl1).
    rewrite E1. cbv zeta. rewrite E2.
    pose proof Hr1 as (_ & d & Hnd & Hblk & _).
    rewrite Hblk, py_mm_add_eq, (addr_of_nodeof s' t d Hnd).
    exists hd1, sg1, (py_dict_update t nd pages). split; [reflexivity|]. split; [exact HG1|].
    split; [apply dict_ok_update; [exact (dict_ok_kept _ _ _ _ Hk1 Hd)|exact Hr1]|].
    split; [exact Hb1|]. split; [exact Hk1|exact Hl1].
Qed.

(* ---- the loop over the targets of one source ---- *)
Lemma tgt_fold_spec : forall rm src tgts s n c seen ins hd sg sgl pages blocks s1 n1 c1 seen1 ins1,
  Good rm s hd sg sgl -> dict_ok s pages seen -> Forall wf_lru tgts -> ids_le c (lastwe s) ->
  fold_left (tgtM src) tgts (s, n, c, seen, ins) = (s1, n1, c1, seen1, ins1) ->
  nb s1 * 128 < 2 ^ 64 -> lastwe s + N.of_nat (length tgts) < 2 ^ 32 ->
  exists hd' sg' pages',
    fold_left (tgt_step rm src) tgts (Some (hd, sg, report_of n c, pages, ins, blocks)) =
      Some (hd', sg', report_of n1 c1, pages', ins1, blocks ++ map (fun o => addr_of o s1) tgts) /\
    Good rm s1 hd' sg' sgl /\ dict_ok s1 pages' seen1 /\ ids_le c1 (lastwe s1) /\ kept s s1 /\
    lastwe s1 <= lastwe s + N.of_nat (length tgts).
Proof.
  intros rm src. induction tgts as [|t tgts IH];
    intros s n c seen ins hd sg sgl pages blocks s1 n1 c1 seen1 ins1 HG Hd Hw Hb E Hsize Hlt.
  - cbn in E. injection E as <- <- <- <- <-. exists hd, sg, pages. cbn [fold_left map length]. rewrite app_nil_r.
    split; [reflexivity|]. split; [exact HG|]. split; [exact Hd|]. split; [exact Hb|]. split; [apply kept_refl|lia].
  - pose proof (Forall_inv Hw) as Ht. pose proof (Forall_inv_tail Hw) as Hw'.
    cbn [fold_left length] in *. rewrite tgtM_eq in E.
    destruct (seeM false t (s, n, c, seen)) as [[[s0 n0] c0] seen0] eqn:E0.
    pose proof (tgt_fold_grow _ _ _ _ _ _ _ _ _ _ _ _ E) as [Hg _].
    assert (Hsize0 : nb s0 * 128 < 2 ^ 64) by (rewrite pow64 in *; nia).
    destruct (tgt_step_spec rm src t s n c seen ins hd sg sgl pages blocks s0 n0 c0 seen0 HG Hd Ht Hb E0 Hsize0 ltac:(lia))
      as (hd0 & sg0 & pages0 & Es & HG0 & Hd0 & Hb0 & Hk0 & Hl0).
    rewrite Es.
    destruct (IH s0 n0 c0 seen0 (mm_add t src ins) hd0 sg0 sgl pages0 (blocks ++ [addr_of t s0]) s1 n1 c1 seen1 ins1
                HG0 Hd0 Hw' Hb0 E Hsize ltac:(lia))
      as (hd' & sg' & pages' & Ef & HG' & Hd' & Hb' & Hk' & Hl').
    exists hd', sg', pages'. rewrite Ef.
    split.
    { f_equal. f_equal. rewrite <- app_assoc. cbn [map app]. f_equal. f_equal.
      destruct (seeM_seen _ _ _ _ _ _ _ _ _ _ E0) as [Hm0 _].
      destruct (dict_ok_mem s0 pages0 seen0 t Hd0 Hm0) as (nd & _ & _ & d & Hnd & _).
      rewrite (addr_of_nodeof s0 t d Hnd). symmetry. exact (kept_addr_of s0 s1 t d Hk' Hnd). }
    split; [exact HG'|]. split; [exact Hd'|]. split; [exact Hb'|]. split; [exact (kept_trans _ _ _ Hk0 Hk')|lia].
Qed.

(* ---- the source: inserted as crawled, or found in the dict and marked crawled if its recorded object is not ---- *)
Lemma src_spec : forall rm src s n c seen hd sg sgl pages s1 n1 c1 seen1,
  Good rm s hd sg sgl -> dict_ok s pages seen -> wf_lru src -> ids_le c (lastwe s) ->
  srcM src (s, n, c, seen) = (s1, n1, c1, seen1) ->
  nb s1 * 128 < 2 ^ 64 -> lastwe s + 1 < 2 ^ 32 ->
  exists hd' sg' pages' nd,
    src_part rm hd sg (report_of n c) pages src = Some (hd', sg', report_of n1 c1, pages', nd) /\
    Good rm s1 hd' sg' sgl /\ dict_ok s1 pages' seen1 /\ ids_le c1 (lastwe s1) /\ kept s s1 /\
    lastwe s1 <= lastwe s + 1 /\
    exists d, nodeof s1 src = Some d /\ nd_block nd = Some (addr d).
Proof.
  intros rm src s n c seen hd sg sgl pages s1 n1 c1 seen1 HG Hd Hs Hb E Hsize Hlt.
  unfold srcM in E. unfold src_part. rewrite (proj1 Hd src).
  destruct (mem_bytes src seen) eqn:Em.
  - injection E as <- <- <- <-. cbn [negb].
    destruct (dict_ok_mem s pages seen src Hd Em) as (n0 & Eg & _ & d & Hnd & Hblk & Hcr).
    rewrite Eg. unfold nodeof in Hnd.
    destruct (py_node_is_crawled n0) eqn:Ec; cbn [negb].
    + (* the recorded object is marked: so is the page, the model's update changes nothing *)
      assert (Es : set_tree (upd set_crawled (lru_iter src) (tr s)) s = s).
      { rewrite (upd_id set_crawled _ _ d Hnd (set_crawled_id d (Hcr eq_refl))). apply set_tree_same. }
      rewrite Es. exists hd, sg, pages, n0. split; [reflexivity|]. split; [exact HG|]. split; [exact Hd|].
      split; [exact Hb|]. split; [apply kept_refl|]. split; [lia|]. exists d. split; assumption.
    + pose proof HG as [Hinv _ _ _ Hh _]. pose proof Hh as (Hrep & _ & _).
      destruct (set_crawled_in_place s Hinv (lru_iter src) d n0 sg _ Hnd Hblk Hrep (hrep_hk s hd sg Hh))
        as (na & sga & nb0 & sgb & Er & Ew & Hrep' & Hhk' & Hinv' & Hblk').
      rewrite Er, Ew.
      set (s' := set_tree (upd set_crawled (lru_iter src) (tr s)) s) in *.
      assert (Hk : kept s s') by (eapply upd_kept; [apply km_set_crawled|reflexivity]).
      exists hd, sgb, pages, nb0. split; [reflexivity|].
      split; [exact (Good_set_crawled rm s hd sg sgl (lru_iter src) sgb HG Hinv' Hrep' Hhk')|].
      split; [exact (dict_ok_kept _ _ _ _ Hk Hd)|]. split; [exact Hb|]. split; [exact Hk|]. split; [cbn; lia|].
      destruct (Hk _ _ Hnd) as (d' & Hd' & Ha' & _). exists d'. split; [exact Hd'|]. rewrite Ha'. exact Hblk'.
  - cbn [negb].
    pose proof (insert_spec rm true src s n c hd sg sgl HG Hs Hb) as HI. cbv zeta in HI.
    destruct (add_page_int src true s) as [[s' n'] c'] eqn:Ea. cbn [fst snd] in HI.
    injection E as <- <- <- <-.
    destruct (HI Hsize Hlt) as (hd1 & sg1 & nd & E1 & E2 & HG1 & Hr1 & Hb1 & Hk1 & Hl1).
    rewrite E1. cbv zeta. rewrite E2.
    exists hd1, sg1, (py_dict_update src nd pages), nd. split; [reflexivity|]. split; [exact HG1|].
    split; [apply dict_ok_update; [exact (dict_ok_kept _ _ _ _ Hk1 Hd)|exact Hr1]|].
    split; [exact Hb1|]. split; [exact Hk1|]. split; [exact Hl1|].
    destruct Hr1 as (_ & d & Hnd & Hblk & _). exists d. split; assumption.
Qed.

(* ---- one source with its targets: the source part, the target loop, then refresh and LinkStore.add_links(out) ---- *)
Lemma outer_spec : forall rm src tgts s n c seen ins hd sg sgl pages s' n' c' seen' ins',
  Good rm s hd sg sgl -> dict_ok s pages seen -> wf_lru src -> Forall wf_lru tgts -> ids_le c (lastwe s) ->
  mm_seen seen ins ->
  outerM (s, n, c, seen, ins) (src, tgts) = (s', n', c', seen', ins') ->
  nb s' * 128 < 2 ^ 64 -> fits (saddr (length (stubs s'))) -> lastwe s + N.of_nat (S (length tgts)) < 2 ^ 32 ->
  exists hd' sg' sgl' pages',
    outer_step rm (Some (hd, sg, sgl, report_of n c, pages, ins)) (src, tgts) =
      Some (hd', sg', sgl', report_of n' c', pages', ins') /\
    Good rm s' hd' sg' sgl' /\ dict_ok s' pages' seen' /\ ids_le c' (lastwe s') /\
    lastwe s' <= lastwe s + N.of_nat (S (length tgts)).
Proof.
  intros rm src tgts s n c seen ins hd sg sgl pages s' n' c' seen' ins' HG Hd Hs Hw Hb Hm E Hsize Hfits Hlt.
  rewrite outerM_eq in E.
  destruct (srcM src (s, n, c, seen)) as [[[sa na] ca] seena] eqn:Ea.
  destruct (fold_left (tgtM src) tgts (sa, na, ca, seena, ins)) as [[[[sb nb0] cb] seenb] insb] eqn:Eb.
  injection E as <- <- <- <- <-.
  set (tg := map (fun o => addr_of o sb) tgts) in *.
  set (s2 := store_links true (lru_iter src) tg sb) in *.
  pose proof (srcM_grow _ _ _ _ _ _ _ _ _ Ea) as [Hg1 _].
  pose proof (tgt_fold_grow _ _ _ _ _ _ _ _ _ _ _ _ Eb) as [Hg2 _].
  pose proof (store_links_grow true (lru_iter src) tg sb) as [Hg3 _]. fold s2 in Hg3.
  assert (Hsizea : nb sa * 128 < 2 ^ 64) by (rewrite pow64 in *; nia).
  assert (Hsizeb : nb sb * 128 < 2 ^ 64) by (rewrite pow64 in *; nia).
  (* the source *)
  destruct (src_spec rm src s n c seen hd sg sgl pages sa na ca seena HG Hd Hs Hb Ea Hsizea ltac:(lia))
    as (hd1 & sg1 & pages1 & nd & Esrc & HG1 & Hd1 & Hb1 & Hk1 & Hl1 & d & Hnd & Hblk).
  (* its targets *)
  destruct (tgt_fold_spec rm src tgts sa na ca seena ins hd1 sg1 sgl pages1 [] sb nb0 cb seenb insb
              HG1 Hd1 Hw Hb1 Eb Hsizeb ltac:(lia))
    as (hd2 & sg2 & pages2 & Etg & HG2 & Hd2 & Hb2 & Hk2 & Hl2).
  cbn [app] in Etg. fold tg in Etg.
  (* the out-links *)
  destruct (srcM_seen _ _ _ _ _ _ _ _ _ Ea) as [Hsrc Hsa].
  destruct (tgt_fold_seen _ _ _ _ _ _ _ _ _ _ _ _ Eb Hsrc (mm_seen_mono _ _ _ Hsa Hm)) as (_ & _ & Hall).
  unfold nodeof in Hnd. destruct (Hk2 _ _ Hnd) as (d' & Hd' & Ha' & _).
  pose proof HG2 as [Hinvb _ _ _ Hhb Hlb]. pose proof Hhb as (Hrepb & _ & _).
  assert (Hts : forall t, In t tg -> exists p d0, find p (tr sb) = Some d0 /\ addr d0 = t).
  { intros t Hin. apply in_map_iff in Hin. destruct Hin as (o & <- & Ho).
    destruct (dict_ok_mem sb pages2 seenb o Hd2 (Hall o Ho)) as (no & _ & _ & d0 & Hd0 & _).
    exists (lru_iter o), d0. split; [exact Hd0|]. symmetry. apply addr_of_nodeof. exact Hd0. }
  destruct (store_links_code sb Hinvb true src d' nd sg2 sgl _ tg Hd' ltac:(rewrite Ha'; exact Hblk) Hrepb
              (hrep_hk sb hd2 sg2 Hhb) Hlb Hts Hfits)
    as (nr & sgr & nw & sgw & sglw & Er & Eal & Hrepw & Hhkw & Hlw & Hinvw).
  fold s2 in Hrepw, Hlw, Hinvw.
  unfold outer_step. rewrite Esrc, Etg, Er, Eal.
  exists hd2, sgw, sglw, pages2. split; [reflexivity|].
  split; [exact (Good_store rm sb hd2 sg2 sgl true (lru_iter src) tg sgw sglw HG2 Hinvw Hrepw Hhkw Hlw)|].
  split; [exact (dict_ok_kept _ _ _ _ (store_links_kept true (lru_iter src) tg sb) Hd2)|].
  destruct (store_links_fields true (lru_iter src) tg sb) as (_ & Elw & _ & _). fold s2 in Elw. rewrite Elw.
  split; [exact Hb2|]. lia.
Qed.

(* number of insertions a batch can make *)
Definition cost (data : list (bytes * list bytes)) : nat :=
  fold_right (fun e a => (S (length (snd e)) + a)%nat) 0%nat data.

Lemma cost_eq : forall data, cost data = (length (concat (map snd data)) + length data)%nat.
Proof.
  induction data as [|[src tgts] data IH]; [reflexivity|].
  cbn [cost fold_right map concat snd length]. fold (cost data). rewrite IH, app_length. lia.
Qed.

(* ---- the loop over the sources ---- *)
Lemma outer_fold_spec : forall rm data s n c seen ins hd sg sgl pages s' n' c' seen' ins',
  Good rm s hd sg sgl -> dict_ok s pages seen ->
  Forall (fun p => wf_lru (fst p) /\ Forall wf_lru (snd p)) data -> ids_le c (lastwe s) -> mm_seen seen ins ->
  fold_left outerM data (s, n, c, seen, ins) = (s', n', c', seen', ins') ->
  nb s' * 128 < 2 ^ 64 -> fits (saddr (length (stubs s'))) -> lastwe s + N.of_nat (cost data) < 2 ^ 32 ->
  exists hd' sg' sgl' pages',
    fold_left (outer_step rm) data (Some (hd, sg, sgl, report_of n c, pages, ins)) =
      Some (hd', sg', sgl', report_of n' c', pages', ins') /\
    Good rm s' hd' sg' sgl' /\ dict_ok s' pages' seen'.
Proof.
  intros rm. induction data as [|[src tgts] data IH];
    intros s n c seen ins hd sg sgl pages s' n' c' seen' ins' HG Hd Hw Hb Hm E Hsize Hfits Hlt.
  - cbn in E. injection E as <- <- <- <- <-. exists hd, sg, sgl, pages. split; [reflexivity|]. split; assumption.
  - pose proof (Forall_inv Hw) as [Hs Ht]. pose proof (Forall_inv_tail Hw) as Hw'. cbn [fst snd] in Hs, Ht.
    cbn [fold_left] in E |- *. cbn [cost fold_right snd] in Hlt. fold (cost data) in Hlt.
    destruct (outerM (s, n, c, seen, ins) (src, tgts)) as [[[[s0 n0] c0] seen0] ins0] eqn:E0.
    pose proof (outer_fold_grow _ _ _ _ _ _ _ _ _ _ _ E) as [Hg1 Hg2].
    assert (Hsize0 : nb s0 * 128 < 2 ^ 64) by (rewrite pow64 in *; nia).
    assert (Hfits0 : fits (saddr (length (stubs s0)))) by (eapply fits_addr_le; [exact Hg2|exact Hfits]).
    destruct (outer_spec rm src tgts s n c seen ins hd sg sgl pages s0 n0 c0 seen0 ins0 HG Hd Hs Ht Hb Hm E0
                Hsize0 Hfits0 ltac:(lia))
      as (hd0 & sg0 & sgl0 & pages0 & Es & HG0 & Hd0 & Hb0 & Hl0).
    rewrite Es.
    destruct (outerM_seen _ _ _ _ _ _ _ _ _ _ _ E0 Hm) as [_ Hm0].
    apply (IH s0 n0 c0 seen0 ins0 hd0 sg0 sgl0 pages0 s' n' c' seen' ins' HG0 Hd0 Hw' Hb0 Hm0 E Hsize Hfits). lia.
Qed.

(* ---- the in-links: refresh, blocks of the sources from the recorded objects, LinkStore.add_links(in) ---- *)
Lemma blocks_of_spec : forall s pages seen others, dict_ok s pages seen ->
  (forall v, In v others -> mem_bytes v seen = true) ->
  py_blocks_of pages others = Some (map (fun o => addr_of o s) others).
Proof.
  intros s pages seen others Hd. induction others as [|o others IH]; intro Hall; [reflexivity|].
  cbn [py_blocks_of map].
  destruct (dict_ok_mem s pages seen o Hd (Hall o (or_introl eq_refl))) as (no & Eg & _ & d & Hnd & Hblk & _).
  rewrite Eg, Hblk, IH by (intros v Hv; apply Hall; right; exact Hv).
  rewrite (addr_of_nodeof s o d Hnd). reflexivity.
Qed.

Lemma flush_spec : forall rm pages seen mm s hd sg sgl,
  Good rm s hd sg sgl -> dict_ok s pages seen -> mm_seen seen mm ->
  fits (saddr (length (stubs (flush_links false mm s)))) ->
  exists sg' sgl', fold_left (flush_step pages) mm (Some (sg, sgl)) = Some (sg', sgl') /\
    Good rm (flush_links false mm s) hd sg' sgl'.
Proof.
  intros rm pages seen mm. induction mm as [|[p others] mm IH]; intros s hd sg sgl HG Hd Hm Hfits.
  - exists sg, sgl. split; [reflexivity|exact HG].
  - rewrite flush_links_cons in *. cbn [fold_left].
    set (tg := map (fun o => addr_of o s) others) in *.
    set (s1 := store_links false (lru_iter p) tg s) in *.
    destruct (Hm p others (or_introl eq_refl)) as [Hp Hoth].
    destruct (dict_ok_mem s pages seen p Hd Hp) as (np & Eg & _ & d & Hnd & Hblk & _).
    pose proof HG as [Hinv _ _ _ Hh Hl]. pose proof Hh as (Hrep & _ & _).
    assert (Hts : forall t, In t tg -> exists q d0, find q (tr s) = Some d0 /\ addr d0 = t).
    { intros t Hin. apply in_map_iff in Hin. destruct Hin as (o & <- & Ho).
      destruct (dict_ok_mem s pages seen o Hd (Hoth o Ho)) as (no & _ & _ & d0 & Hd0 & _).
      exists (lru_iter o), d0. split; [exact Hd0|]. symmetry. apply addr_of_nodeof. exact Hd0. }
    assert (Hfits1 : fits (saddr (length (stubs s1)))).
    { pose proof (flush_grow false mm s1) as [_ Hg]. eapply fits_addr_le; [exact Hg|exact Hfits]. }
    destruct (store_links_code s Hinv false p d np sg sgl _ tg Hnd Hblk Hrep (hrep_hk s hd sg Hh) Hl Hts Hfits1)
      as (nr & sgr & nw & sgw & sglw & Er & Eal & Hrepw & Hhkw & Hlw & Hinvw).
    fold s1 in Hrepw, Hlw, Hinvw.
    unfold flush_step at 2. rewrite Eg, Er, (blocks_of_spec s pages seen others Hd Hoth). fold tg. rewrite Eal.
    apply (IH s1 hd sgw sglw).
    + exact (Good_store rm s hd sg sgl false (lru_iter p) tg sgw sglw HG Hinvw Hrepw Hhkw Hlw).
    + exact (dict_ok_kept _ _ _ _ (store_links_kept false (lru_iter p) tg s) Hd).
    + intros k vs Hin. apply Hm. right. exact Hin.
    + exact Hfits.
Qed.

(* ====================================================================================== *)
(* 7. Traph.index_batch_crawl                                                             *)
(* ====================================================================================== *)
(* on every state with the block invariant, the root clause and the anchors flagged in the file known in RAM *)
Theorem py_traph_index_batch_crawl_state_spec : forall s, Inv18 s -> root_first s -> anchors_known s ->
  forall rm hd sg sgl data yf, ramrep s rm -> hrep s hd sg -> lrep (stubs s) sgl ->
  Forall (fun p => wf_lru (fst p) /\ Forall wf_lru (snd p)) data ->
  let r := Traph.batch_crawl data s in
  let s' := fst r in
  nb s' * 128 < 2 ^ 64 -> lastwe s + N.of_nat (length (concat (map snd data)) + length data) < 2 ^ 32 ->
  fits (saddr (length (stubs s'))) ->
  exists hd' sg' sgl' n c, snd r = Report n c /\
    py_traph_index_batch_crawl rm hd sg sgl data yf = Some (hd', sg', sgl', report_of n c) /\
    hrep s' hd' sg' /\ lrep (stubs s') sgl' /\ ramrep s' rm /\ Inv18 s' /\ root_first s' /\ anchors_known s'.
Proof.
  intros s Hinv Hroot Hk rm hd sg sgl data yf Hram Hh Hl Hw r s' Hsize Hlt Hfits.
  unfold s', r in *. clear s' r. rewrite batch_M in *. rewrite batch_eq.
  destruct (fold_left outerM data (s, 0, [], [], [])) as [[[[s1 n1] c1] seen1] ins1] eqn:E. cbn [fst snd] in *.
  assert (HG : Good rm s hd sg sgl).
  { constructor; try assumption. apply root_first_Q; assumption. }
  pose proof (flush_grow false ins1 s1) as [Hg1 Hg2].
  assert (Hsize1 : nb s1 * 128 < 2 ^ 64) by (rewrite pow64 in *; nia).
  assert (Hfits1 : fits (saddr (length (stubs s1)))) by (eapply fits_addr_le; [exact Hg2|exact Hfits]).
  destruct (outer_fold_spec rm data s 0 [] [] [] hd sg sgl [] s1 n1 c1 seen1 ins1 HG (dict_ok_nil s) Hw
              ltac:(intros w []) ltac:(intros k vs []) E Hsize1 Hfits1 ltac:(rewrite cost_eq; exact Hlt))
    as (hd1 & sg1 & sgl1 & pages1 & Eo & HG1 & Hd1).
  change py_report_new with (report_of 0 []). rewrite Eo.
  pose proof (outer_fold_seen _ _ _ _ _ _ _ _ _ _ _ E ltac:(intros k vs [])) as Hm1.
  destruct (flush_spec rm pages1 seen1 ins1 s1 hd1 sg1 sgl1 HG1 Hd1 Hm1 Hfits) as (sg2 & sgl2 & Ef & HG2).
  rewrite Ef. exists hd1, sg2, sgl2, n1, c1. split; [reflexivity|]. split; [reflexivity|].
  destruct HG2 as [Hinv2 HQ2 Hk2 Hram2 Hh2 Hl2].
  split; [exact Hh2|]. split; [exact Hl2|]. split; [exact Hram2|]. split; [exact Hinv2|].
  split; [apply Q_root_first; exact HQ2|exact Hk2].
Qed.

(* the requested statement, with the hypothesis that the anchors flagged in the file are known in RAM (without it the
   statement is false: GenTraphPFacts section 8) *)
Theorem py_traph_index_batch_crawl_spec : forall d rs h, wf_rules rs -> Forall wf_op h ->
  let s := run d rs h in
  anchors_known s ->
  forall rm hd sg sgl data yf, ramrep s rm -> hrep s hd sg -> lrep (stubs s) sgl ->
  wf_op (OBatch data) ->
  let r := Traph.batch_crawl data s in
  let s' := fst r in
  nb s' * 128 < 2 ^ 64 -> lastwe s + N.of_nat (length (concat (map snd data)) + length data) < 2 ^ 32 ->
  fits (saddr (length (stubs s'))) ->
  exists hd' sg' sgl' n c, snd r = Report n c /\
    py_traph_index_batch_crawl rm hd sg sgl data yf = Some (hd', sg', sgl', report_of n c) /\
    hrep s' hd' sg' /\ lrep (stubs s') sgl' /\ ramrep s' rm.
Proof.
  intros d rs h _ Hh s Hk rm hd sg sgl data yf Hram Hhr Hl [Hw _] r s' Hsize Hlt Hfits.
  destruct (py_traph_index_batch_crawl_state_spec s (run_Inv18 d rs h Hh) (run_root_first d rs h) Hk rm hd sg sgl data yf
              Hram Hhr Hl Hw Hsize Hlt Hfits) as (hd' & sg' & sgl' & n & c & Er & E & H1 & H2 & H3 & _).
  exists hd', sg', sgl', n, c. auto.
Qed.

(* on every history whose reopen requests re-supply the rules (GenTraphPReach) *)
Corollary py_traph_index_batch_crawl_reach : forall d rs h, wf_rules rs -> Forall wf_op h ->
  reopens_resupply h (init d rs) ->
  let s := run d rs h in
  forall rm hd sg sgl data yf, ramrep s rm -> hrep s hd sg -> lrep (stubs s) sgl ->
  wf_op (OBatch data) ->
  let r := Traph.batch_crawl data s in
  let s' := fst r in
  nb s' * 128 < 2 ^ 64 -> lastwe s + N.of_nat (length (concat (map snd data)) + length data) < 2 ^ 32 ->
  fits (saddr (length (stubs s'))) ->
  exists hd' sg' sgl' n c, snd r = Report n c /\
    py_traph_index_batch_crawl rm hd sg sgl data yf = Some (hd', sg', sgl', report_of n c) /\
    hrep s' hd' sg' /\ lrep (stubs s') sgl' /\ ramrep s' rm.
Proof.
  intros d rs h Hrs Hh Hre s. apply (py_traph_index_batch_crawl_spec d rs h Hrs Hh).
  apply run_anchors_known; assumption.
Qed.

(* ---- non-vacuity: the translated index_batch_crawl run by vm_compute on the bytes of both files of a concrete state
   (PropsEx.exs), compared with the model: report, bytes of the trie file, bytes of the link file, counter in RAM.
   The batch: l2 (new page under an existing webentity) links to l1 (new domain: a webentity is created), to a known page, to l1
   again and to itself; then l1 and the known page are met as sources AFTER having been recorded as targets (their recorded
   objects are not marked crawled: refresh, flag, write in place) ---- *)
From Traph Require PropsEx.
Definition ex_l1 : bytes := [115;58;104;116;116;112;124;104;58;111;114;103;124;104;58;122;124;112;58;113;124].  (* s:http|h:org|h:z|p:q| *)
Definition ex_l2 : bytes := PropsEx.ex_px ++ [112;58;113;124].
Definition ex_rm : py_ram := mk_ram (rules PropsEx.exs) (dflt PropsEx.exs).
Definition ex_sgl : py_pm := mk_pm 16 (link_file PropsEx.exs) 0.
Definition ex_data : list (bytes * list bytes) :=
  [(ex_l2, [ex_l1; PropsEx.ex_pxy; ex_l1; ex_l2]); (ex_l1, []); (PropsEx.ex_pxy, [ex_l2])].

Definition run_batch (data : list (bytes * list bytes)) : option (py_report * bool * bool * N * bool * bool) :=
  match py_traph_index_batch_crawl ex_rm hd0 ex_sg ex_sgl data 0 with
  | Some (hd', sg', sgl', rp) =>
      let s' := fst (Traph.batch_crawl data PropsEx.exs) in
      Some (rp, Bytes.beq (pm_array sg') (trie_file s'), Bytes.beq (pm_array sgl') (link_file s'),
            py_thdr_last_webentity_id hd',
            Bytes.beq (pm_array sg') (pm_array ex_sg), Bytes.beq (pm_array sgl') (pm_array ex_sgl))
  | None => None
  end.

Definition ex_org_z : bytes := [115;58;104;116;116;112;124;104;58;111;114;103;124;104;58;122;124].            (* s:http|h:org|h:z| *)
Definition ex_org_z_s : bytes := [115;58;104;116;116;112;115;124;104;58;111;114;103;124;104;58;122;124].      (* s:https|... *)
Definition ex_www : bytes := [104;58;119;119;119;124].                                                         (* h:www| *)

Example ex_batch :
  run_batch ex_data =
    Some (mk_rp [(4, [ex_org_z; ex_org_z_s; ex_org_z ++ ex_www; ex_org_z_s ++ ex_www])] 2, true, true, 4, false, false) /\
  snd (Traph.batch_crawl ex_data PropsEx.exs) =
    Report 2 [(4, [ex_org_z; ex_org_z_s; ex_org_z ++ ex_www; ex_org_z_s ++ ex_www])] /\
  (length (stubs (fst (Traph.batch_crawl ex_data PropsEx.exs))) = length (stubs PropsEx.exs) + 10)%nat.
Proof. vm_compute. repeat split; reflexivity. Qed.

(* a page already crawled in the file, met as a target and then as a source: its recorded object is marked, nothing is
   rewritten for it (the model's upd set_crawled changes nothing) *)
Example ex_batch_crawled :
  run_batch [(ex_l2, [IdFacts.ex_pa]); (IdFacts.ex_pa, [])] = Some (mk_rp [] 1, true, true, 3, false, false).
Proof. vm_compute. reflexivity. Qed.


(* the hypotheses of the theorem hold on this example *)
Lemma ex_anchors : anchors_known PropsEx.exs.
Proof.
  unfold PropsEx.exs. apply run_anchors_known; [exact PropsEx.ex_rules_wf|exact PropsEx.exh_wf|].
  apply no_reopen_resupply. unfold PropsEx.exh. repeat constructor.
Qed.

Example ex_batch_thm :
  exists hd' sg' sgl' n c, snd (Traph.batch_crawl ex_data PropsEx.exs) = Report n c /\
    py_traph_index_batch_crawl ex_rm hd0 ex_sg ex_sgl ex_data 0 = Some (hd', sg', sgl', report_of n c) /\
    hrep (fst (Traph.batch_crawl ex_data PropsEx.exs)) hd' sg' /\
    lrep (stubs (fst (Traph.batch_crawl ex_data PropsEx.exs))) sgl' /\
    ramrep (fst (Traph.batch_crawl ex_data PropsEx.exs)) ex_rm.
Proof.
  pose proof (py_traph_index_batch_crawl_state_spec PropsEx.exs (proj1 ex_inv) (proj2 ex_inv) ex_anchors
                ex_rm hd0 ex_sg ex_sgl ex_data 0) as H.
  cbv zeta in H.
  assert (H1 : ramrep PropsEx.exs ex_rm) by (split; reflexivity).
  assert (H2 : lrep (stubs PropsEx.exs) ex_sgl) by (split; reflexivity).
  assert (H3 : Forall (fun p => wf_lru (fst p) /\ Forall wf_lru (snd p)) ex_data).
  { unfold ex_data. repeat constructor; cbn [fst snd]; PropsEx.wf_lru_tac. }
  specialize (H H1 ex_hrep H2 H3).
  assert (H4 : nb (fst (Traph.batch_crawl ex_data PropsEx.exs)) * 128 < 2 ^ 64) by (vm_compute; reflexivity).
  assert (H5 : lastwe PropsEx.exs + N.of_nat (length (concat (map snd ex_data)) + length ex_data) < 2 ^ 32)
    by (vm_compute; reflexivity).
  assert (H6 : fits (saddr (length (stubs (fst (Traph.batch_crawl ex_data PropsEx.exs)))))) by (vm_compute; reflexivity).
  destruct (H H4 H5 H6) as (hd' & sg' & sgl' & n & c & E1 & E2 & E3 & E4 & E5 & _).
  exists hd', sg', sgl', n, c. auto.
Qed.

Print Assumptions py_traph_index_batch_crawl_state_spec.
Print Assumptions py_traph_index_batch_crawl_spec.
Print Assumptions py_traph_index_batch_crawl_reach.
Print Assumptions ex_batch_thm.
