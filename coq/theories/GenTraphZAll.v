(* GenTraphZAll.v — Traph.add_webentity_creation_rule_iter translated from the source (GenTraphZ.v) against the SEQUENTIAL model
   request Traph.add_rule: GenTraphZFacts (translated request = the lazy coroutine Sched.rule_step run to its end) composed with
   RuleRunFacts.rule_run_alone (the coroutine run alone = add_rule, whose page list is computed beforehand).
   Size hypotheses on the final state only: nb * 128 < 2 ^ 64 and lastwe + 1 < 2 ^ 32. *)
From Coq Require Import List NArith Bool Lia Arith.
Import ListNotations.
From Traph Require Import Bytes Consts Helpers Rules Tst TstDefs Traph Ops TraceDefs StoreFacts StoreFacts2 TraceFacts5 LinkFacts2
  Sched RuleRun RuleRunFacts GenTraphP GenTraphPDefs GenTraphWDefs GenTraphPFacts1 AnchorsFacts GenTraphZ GenTraphZFacts.
Open Scope N_scope.

(* on an arbitrary state *)
Theorem py_traph_add_rule_state_spec : forall s, Inv18 s -> root_first s -> anchors_known s ->
  forall rm hd sg p k, ramrep s rm -> hrep s hd sg -> wf_lru p ->
  let r := add_rule p k true s in
  let s' := fst r in
  nb s' * 128 < 2 ^ 64 -> lastwe s' + 1 < 2 ^ 32 ->
  exists n c, snd r = Report n c /\
  exists f0 rm' hd' sg',
    (forall f, (f0 <= f)%nat ->
       py_traph_add_webentity_creation_rule f rm hd sg p k true = Some (rm', hd', sg', report_of n c)) /\
    hrep s' hd' sg' /\ ramrep s' rm' /\ Inv18 s' /\ root_first s' /\ anchors_known s'.
Proof.
  intros s Hinv Hroot Hk rm hd sg p k Hram Hh Hp r s' Hsize Hlt. unfold s', r in *. clear s' r.
  destruct (rule_run_alone_state s p k (Inv18_good s Hinv) Hp) as (fuel & Hrun).
  destruct (rule_run fuel (rule_start p k) s) as [r' s'] eqn:Erun.
  destruct Hrun as (Hdone & Es & Er). rewrite <- Es in *.
  destruct (py_traph_add_rule_state s Hinv Hroot Hk rm hd sg p k Hram Hh Hp fuel r' s' Erun Hdone Hsize Hlt)
    as (rm' & hd' & sg' & H1 & H2).
  exists (r_n r'), (r_c r'). split; [symmetry; exact Er|].
  exists fuel, rm', hd', sg'. split; [exact H1|exact H2].
Qed.

(* the requested shape: on every state reached by a history, under the condition that every flagged anchor of the state has its
   rule in the RAM table *)
Theorem py_traph_add_rule_spec : forall d rs h, wf_rules rs -> Forall wf_op h ->
  let s := run d rs h in
  anchors_known s ->
  forall rm hd sg p k, ramrep s rm -> hrep s hd sg -> wf_lru p ->
  let r := add_rule p k true s in
  let s' := fst r in
  nb s' * 128 < 2 ^ 64 -> lastwe s' + 1 < 2 ^ 32 ->
  exists n c, snd r = Report n c /\
  exists f0 rm' hd' sg',
    (forall f, (f0 <= f)%nat ->
       py_traph_add_webentity_creation_rule f rm hd sg p k true = Some (rm', hd', sg', report_of n c)) /\
    hrep s' hd' sg' /\ ramrep s' rm'.
Proof.
  intros d rs h _ Hh s Hk rm hd sg p k Hram Hhr Hp r s' Hsize Hlt.
  destruct (py_traph_add_rule_state_spec s (run_Inv18 d rs h Hh) (run_root_first d rs h) Hk rm hd sg p k Hram Hhr Hp Hsize Hlt)
    as (n & c & Er & f0 & rm' & hd' & sg' & H1 & H2 & H3 & _).
  exists n, c. split; [exact Er|]. exists f0, rm', hd', sg'. auto.
Qed.

(* on every history whose reopen requests re-supply the rules of the anchors flagged in the file (in particular: no reopen) *)
Corollary py_traph_add_rule_spec_reach : forall d rs h, wf_rules rs -> Forall wf_op h -> resupplied (init d rs) h ->
  let s := run d rs h in
  forall rm hd sg p k, ramrep s rm -> hrep s hd sg -> wf_lru p ->
  let r := add_rule p k true s in
  let s' := fst r in
  nb s' * 128 < 2 ^ 64 -> lastwe s' + 1 < 2 ^ 32 ->
  exists n c, snd r = Report n c /\
  exists f0 rm' hd' sg',
    (forall f, (f0 <= f)%nat ->
       py_traph_add_webentity_creation_rule f rm hd sg p k true = Some (rm', hd', sg', report_of n c)) /\
    hrep s' hd' sg' /\ ramrep s' rm'.
Proof.
  intros d rs h Hrs Hh Hre s. apply (py_traph_add_rule_spec d rs h Hrs Hh).
  apply AnchorsFacts.run_anchors_known; assumption.
Qed.

Print Assumptions py_traph_add_rule_state_spec.
Print Assumptions py_traph_add_rule_spec.
Print Assumptions py_traph_add_rule_spec_reach.
