(* GenTraphWFacts1.v — the explicit creation of a webentity translated from the source (GenTraphW.v: Traph.create_webentity,
   __add_prefixes, __generated_web_entity_id; LRUTrieHeader.pack / write / increment_last_webentity_id; LRUTrieNode.refresh /
   set_webentity), part 1.
   PLAN
     GenTraphWFacts1 (this file)
       1. the header object and the header block: pack of the RAM header = encode_trie_header, round trip of the counter,
          writing the header block keeps trep and replaces the first 128 bytes (py_traph_generated_web_entity_id_spec)
       2. the dict of valid prefixes (py_dict_update = the model's "append unless present")
       3. the generated definition re-stated in named pieces (walk_step, set_step; equality by reflexivity)
       4. one node: refresh + set_webentity + write = one TSet keeping every pointer = upd (set_we w) on the state
          (set_we_in_place: the variant of GenTrieWPage.rewrite_in_place for a rewrite that changes the webentity register)
     GenTraphWFacts
       5. the first loop (walk_spec: induction on the prefixes, generalised over the state and the accumulators)
       6. the second loop (set_loop_spec: induction on the dict)
       7. py_traph_add_prefixes_spec, py_traph_create_webentity_spec, corollaries, examples by vm_compute. *)
From Coq Require Import List NArith Bool Lia Arith.
Import ListNotations.
From Traph Require Import Bytes Consts Layout Helpers Rules Tst TstDefs Traph Traphw TraceDefs Codec CodecFacts
  TstFacts Store StoreFacts GenStorage GenNode GenNodeFacts GenTrie GenTrieFacts GenTrieW GenTrieWDefs GenTraphW GenTraphWDefs.
From Traph Require Import TraceFacts2 TraceFacts3 TraceFacts4 LinkFacts StoreFacts2 GenTrieWAdd1 GenTrieWAdd2 GenTrieWAdd
  GenTrieWPage ReopenFacts GenTrieWFrame.
Open Scope N_scope.

Arguments N.shiftr : simpl never.
Arguments N.shiftl : simpl never.
Arguments N.modulo : simpl never.
Arguments N.div : simpl never.
Arguments N.land : simpl never.
Arguments N.lor : simpl never.
Arguments N.ldiff : simpl never.
Arguments N.mul : simpl never.
Arguments N.add : simpl never.
Arguments N.sub : simpl never.
Arguments N.ltb : simpl never.
Arguments N.eqb : simpl never.
Arguments N.pow : simpl never.

(* ====================================================================================== *)
(* 1. the header                                                                          *)
(* ====================================================================================== *)
Lemma pack_header_eq : forall n, pack header_format [VNum n; VBytes version_bytes] = encode_trie_header n.
Proof. intro n. reflexivity. Qed.

(* the counter is read back from the header block *)
Lemma trie_header_roundtrip : forall n, n < 2 ^ 32 -> decode_trie_header (encode_trie_header n) = n.
Proof.
  intros n Hn. unfold decode_trie_header, unpack.
  change (fields header_format) with [(FU32, 0); (FPas 12, 4)].
  cbn [map nth hpos_last_we dec_item fsize vnum]. unfold slice.
  rewrite encode_trie_header_eq.
  change (N.to_nat 4) with 4%nat. change (N.to_nat 0) with 0%nat.
  rewrite here_le. apply (le_roundtrip 4). exact Hn.
Qed.

(* hrep and the header-kept predicate of GenTrieWFrame *)
Lemma hrep_hk : forall s hd sg, hrep s hd sg -> hk (encode_trie_header (lastwe s)) sg.
Proof.
  intros s hd sg (Hrep & _ & Hh). split; [apply Hrep|]. split; [exact Hh|].
  rewrite (trep_len _ _ Hrep). lia.
Qed.

Lemma hrep_intro : forall s hd sg, trep (files_of s) sg -> th_data hd = [VNum (lastwe s); VBytes version_bytes] ->
  hk (encode_trie_header (lastwe s)) sg -> hrep s hd sg.
Proof. intros s hd sg Hrep Hd (_ & Hh & _). split; [exact Hrep|]. split; assumption. Qed.

(* writing a 128-byte header at offset 0 *)
Lemma trep_write_header : forall f sg H', trep f sg -> length H' = 128%nat ->
  let sg' := fst (py_pm_write sg H' (Some 0)) in
  trep f sg' /\ firstn 128 (pm_array sg') = H' /\ pm_array sg' = H' ++ skipn 128 (pm_array sg).
Proof.
  intros f sg H' (Hbs & (hdr & Harr & Hh) & Henc) Hl. cbv zeta.
  assert (E : fst (py_pm_write sg H' (Some 0)) =
              mk_pm py_node_block_size (H' ++ skipn 128 (pm_array sg)) (0 + N.of_nat (length H'))).
  { unfold py_pm_write. cbn [fst pm_block_size pm_array pm_cursor]. rewrite Hbs. reflexivity. }
  rewrite E. cbn [pm_array].
  split; [|split].
  - split; [reflexivity|]. split; [|exact Henc]. exists H'. split; [|exact Hl].
    cbn [pm_array]. rewrite Harr. rewrite skipn_app, (skipn_all2 hdr) by lia. rewrite Hh, Nat.sub_diag, skipn_O.
    reflexivity.
  - rewrite firstn_app, Hl, Nat.sub_diag, firstn_O, app_nil_r. apply firstn_all2. lia.
  - reflexivity.
Qed.

(* the files after the header write are those of the state whose counter is n *)
Definition with_lastwe (n : N) (s : traph) : traph := mkT (tr s) (nb s) n (stubs s) (rules s) (dflt s).

(* Traph.__generated_web_entity_id: the RAM counter is incremented, the header block rewritten, the new id returned *)
Theorem py_traph_generated_web_entity_id_spec : forall s hd sg,
  Inv18 s -> hrep s hd sg -> lastwe s + 1 < 2 ^ 32 ->
  exists hd' sg', py_traph_generated_web_entity_id hd sg = Some (hd', sg', lastwe s + 1) /\
    hrep (with_lastwe (lastwe s + 1) s) hd' sg' /\ Inv18 (with_lastwe (lastwe s + 1) s) /\
    decode_trie_header (firstn 128 (pm_array sg')) = lastwe s + 1.
Proof.
  intros s hd sg Hinv (Hrep & Hd & Hh) Hlt.
  unfold py_traph_generated_web_entity_id, py_thdr_increment_last_webentity_id, py_thdr_write, py_thdr_pack,
    py_thdr_last_webentity_id.
  cbn [th_set_data th_data]. rewrite Hd.
  change (py_get_num hpos_last_we [VNum (lastwe s); VBytes version_bytes]) with (lastwe s).
  change (py_set_nth hpos_last_we (VNum (lastwe s + 1)) [VNum (lastwe s); VBytes version_bytes])
    with [VNum (lastwe s + 1); VBytes version_bytes].
  rewrite pack_header_eq.
  destruct (trep_write_header (files_of s) sg (encode_trie_header (lastwe s + 1)) Hrep
              (encode_trie_header_length _)) as (Hrep' & Hh' & _).
  destruct (py_pm_write sg (encode_trie_header (lastwe s + 1)) (Some 0)) as [sg' v]. cbn [fst] in Hrep', Hh'.
  exists (mk_th [VNum (lastwe s + 1); VBytes version_bytes]), sg'.
  split; [reflexivity|]. split; [|split].
  - split; [exact Hrep'|]. split; [reflexivity|exact Hh'].
  - apply (Inv18_ram s); auto.
  - rewrite Hh'. apply trie_header_roundtrip. exact Hlt.
Qed.

(* ====================================================================================== *)
(* 2. the dict of valid prefixes                                                          *)
(* ====================================================================================== *)
Lemma dict_update_keys : forall (V : Type) k (v : V) d,
  map fst (py_dict_update k v d) = if mem_bytes k (map fst d) then map fst d else map fst d ++ [k].
Proof.
  intros V k v. induction d as [|[k' v'] d IH]; [reflexivity|].
  cbn [py_dict_update map fst mem_bytes]. destruct (beq k k') eqn:E; cbn [orb].
  - reflexivity.
  - cbn [map fst]. rewrite IH. destruct (mem_bytes k (map fst d)); reflexivity.
Qed.

Lemma dict_update_In : forall (V : Type) k (v : V) d k1 v1,
  In (k1, v1) (py_dict_update k v d) -> In (k1, v1) d \/ (v1 = v /\ k1 = k).
Proof.
  intros V k v. induction d as [|[k' v'] d IH]; intros k1 v1 H.
  - cbn in H. destruct H as [H|[]]. injection H as <- <-. right. split; reflexivity.
  - cbn [py_dict_update] in H. destruct (beq k k') eqn:E.
    + destruct H as [H|H]; [|left; right; exact H]. injection H as <- <-. right. split; [reflexivity|].
      symmetry. apply beq_eq. exact E.
    + destruct H as [H|H]; [left; left; exact H|]. destruct (IH _ _ H) as [H1|H1]; [left; right; exact H1|right; exact H1].
Qed.

(* ====================================================================================== *)
(* 3. the generated definition in named pieces                                            *)
(* ====================================================================================== *)
Definition Idx : Type := list (bytes * (py_node * py_hist)).
Definition WS : Type := option (py_pm * list bytes * Idx).

Definition walk_step (st : WS) (v_prefix : bytes) : WS :=
 match st with
 | None => None
 | Some (sg, v_invalid_prefixes, v_valid_prefixes_index) => (match py_trie_add_lru sg v_prefix true with
 | None => None
 | Some (sg, (v_node, v_history)) => (if (py_node_has_webentity v_node)
 then (let v_invalid_prefixes := v_invalid_prefixes ++ [v_prefix] in
 (Some (sg, v_invalid_prefixes, v_valid_prefixes_index)))
 else (let v_valid_prefixes_index := py_dict_update v_prefix (v_node, v_history) v_valid_prefixes_index in
 (Some (sg, v_invalid_prefixes, v_valid_prefixes_index)))) end) end.

Definition set_step (v_webentity_id : N) (st : option py_pm) (v__it : (bytes * (py_node * py_hist))) : option py_pm :=
 match st with
 | None => None
 | Some sg => (let '(v_prefix, (v_node, v_history)) := v__it in
 (let '(v_node, sg) := py_node_refresh v_node sg in
 (let v_node := py_node_set_webentity v_node v_webentity_id in
 (let '(v_node, sg) := py_node_write v_node sg in
 (Some sg))))) end.

Lemma add_prefixes_eq : forall hd sg ps best,
  py_traph_add_prefixes hd sg ps best =
  match fold_left walk_step ps (Some (sg, [], [])) with
  | None => None
  | Some (sg, inv, idx) =>
      if (0 <? N.of_nat (length inv)) && negb best then None
      else if N.of_nat (length inv) =? N.of_nat (length ps) then Some (hd, sg, (None, []))
      else match py_traph_generated_web_entity_id hd sg with
           | None => None
           | Some (hd, sg, w) =>
               match fold_left (set_step w) idx (Some sg) with
               | None => None
               | Some sg => Some (hd, sg, (Some w, map fst idx))
               end
           end
  end.
Proof. reflexivity. Qed.

(* ====================================================================================== *)
(* 4. one node: refresh, set_webentity, write                                             *)
(* ====================================================================================== *)
Lemma set_we_vals : forall d la ra ca w,
  py_set_nth pos_we (VNum w) (tblock_vals (main_block d la ra ca)) = tblock_vals (main_block (set_we w d) la ra ca).
Proof. intros. reflexivity. Qed.

Lemma main_block_encodable_we : forall d w la ra ca, w < 2 ^ 32 ->
  blk_encodable (main_block d la ra ca) -> blk_encodable (main_block (set_we w d) la ra ca).
Proof.
  intros d w la ra ca Hw H. destruct (main_block_encodable_inv _ _ _ _ H) as (J1 & J2 & J3 & J4 & J5 & J6 & J7).
  apply main_block_encodable; cbn [set_we we par outh inh]; assumption.
Qed.

Section SetWe.
  Variable s : traph.
  Hypothesis Hinv : Inv18 s.

  (* the node at path p carries d; whatever the stale node object n holds besides that node's block address, after
     refresh / set_webentity(w) / write the storage holds the files of the state whose tree is upd (set_we w) p, and the header
     block is untouched *)
  Lemma set_we_in_place : forall w p d n sg H,
    w < 2 ^ 32 ->
    find p (tr s) = Some d -> nd_block n = Some (addr d) ->
    trep (files_of s) sg -> hk H sg ->
    let s' := set_tree (upd (set_we w) p (tr s)) s in
    exists n1 sg1 n2 sg2,
      py_node_refresh n sg = (n1, sg1) /\
      py_node_write (py_node_set_webentity n1 w) sg1 = (n2, sg2) /\
      trep (files_of s') sg2 /\ hk H sg2 /\ Inv18 s'.
  Proof.
    intros w p d n sg H Hw Hfd Hblk Hrep Hhk s'.
    destruct (find_subt _ _ _ Hfd) as (l & c & r & Hfs & Hsub).
    unfold py_node_refresh. rewrite Hblk.
    pose proof (read_subt s Hinv d l c r n sg Hsub Hrep) as HR. cbv zeta in HR.
    assert (Hok : okN n) by (intros a Ha; rewrite Hblk in Ha; injection Ha as <-;
                             destruct (node_in_file s Hinv d l c r sg Hsub Hrep); assumption).
    destruct (py_node_read_o_frame n sg (Some (addr d)) H Hhk Hok) as [Hhk1 _].
    { intros a Ha. injection Ha as <-. destruct (node_in_file s Hinv d l c r sg Hsub Hrep); assumption. }
    destruct (py_node_read_o n sg (Some (addr d))) as [n1 sg1]. cbn [fst snd] in HR, Hhk1.
    destruct HR as [(Hex & Hb1 & Hd1 & Hst1) Hrep1].
    exists n1, sg1.
    set (n1' := py_node_set_webentity n1 w).
    assert (Hd' : nd_data n1' = tblock_vals (main_block (set_we w d) (root_addr l) (root_addr r) (root_addr c))).
    { unfold n1', py_node_set_webentity. cbn [nd_set_data nd_data]. rewrite Hd1. apply set_we_vals. }
    destruct (node_index s Hinv d l c r Hsub) as (j & Haj & Hj & Hnth).
    assert (Henc' : blk_encodable (main_block (set_we w d) (root_addr l) (root_addr r) (root_addr c))).
    { apply main_block_encodable_we; [exact Hw|]. exact (trep_nth_enc _ _ _ _ Hrep Hnth). }
    assert (Hb' : nd_block n1' = Some (blk_off j)) by (rewrite <- Haj; exact Hb1).
    destruct (trep_write_existing (files_of s) sg1 n1' j _ Hrep1 Hj Hex Hb' Hd' Henc') as [W1 W2].
    assert (Hok1 : okN n1').
    { intros a Ha. change (nd_block n1') with (nd_block n1) in Ha. rewrite Hb1 in Ha. injection Ha as <-.
      destruct (node_in_file s Hinv d l c r sg Hsub Hrep); assumption. }
    destruct (py_node_write_frame n1' sg1 H Hhk1 Hok1) as [Hhk2 _].
    destruct (py_node_write n1' sg1) as [n2 sg2]. cbn [fst snd] in W1, W2, Hhk2.
    exists n2, sg2. split; [reflexivity|]. split; [reflexivity|].
    destruct (soft_Tr (set_we w) p s Hinv (soft_set_we w)) as (Eap & Hinv' & _).
    destruct (placed_upd (set_we w) (fun _ => eq_refl) (fun _ => eq_refl) p (tr s) d l c r Hfs) as (_ & _ & _ & _ & E3 & _).
    unfold nwp in Eap. rewrite E3 in Eap. cbn [apply_all fold_left] in Eap.
    change (addr (set_we w d)) with (addr d) in Eap. rewrite Haj in Eap.
    split; [|split; [exact Hhk2|exact Hinv']].
    unfold s'. rewrite <- Eap. exact W2.
  Qed.
End SetWe.
