(* Extract.v — extraction of the executable model for the correspondence driver.
   Only the directives of ExtrOcamlBasic (bool, option, list, prod, unit, sumbool to
   OCaml natives); N and positive stay the extracted inductives; no Extract Constant. *)
From Coq Require Extraction ExtrOcamlBasic.
From Traph Require Import Driver.
Extraction Language OCaml.
Extraction "../ocaml/model.ml" Driver.exec_traced Driver.d0.
